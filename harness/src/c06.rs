//! C06 — the in-circuit verifier accepts exactly what the native verifier accepts.
//!
//! Differential fault enumeration. For each (inner circuit, outer configuration) the outer circuit
//! `verify_proof + re-expose the inner public inputs` is built ONCE; then a set of inner proofs —
//! honest ones, EVERY leaf of the inner proof tampered, every list node mutated, false statements
//! emitted by the real prover under adversarial strategies (corrupted witness cells, all-zero /
//! constant accumulator, perturbed quotient per challenge, insufficient grinding), and wrong
//! verifier data — is pushed through the library's own assignment routines
//! (`set_proof_with_pis_target`, `set_verifier_data_target`) and witness generation.
//! Oracle:  N := native verify is Ok;  C := assignment succeeds AND witness generation succeeds AND
//! the generated assignment satisfies the outer circuit (exact `sat`).  Required: N <=> C for every
//! case; for N true additionally the outer proof is produced, verifies and carries the inner public inputs.

use plonky2::plonk::circuit_data::{CircuitConfig, VerifierOnlyCircuitData};
use plonky2::plonk::proof::ProofWithPublicInputs;
use serde_json::{json, Value};

use crate::c02::{make_subject, prove_case, subject_programs, Corr, Strat, Subject};
use crate::core::*;
use crate::plonkm::*;
use crate::recm::*;
use crate::tamper::*;

pub struct Pair {
    pub name: String,
    pub inner: Subject,
    pub outer: Outer,
    pub osc: SatCtx,
}

pub fn native(s: &Subject, vo: &VerifierOnlyCircuitData<PC, D>, p: &ProofWithPublicInputs<F, PC, D>) -> &'static str {
    let vd = plonky2::plonk::circuit_data::VerifierCircuitData { verifier_only: vo.clone(), common: s.built.data.common.clone() };
    match guarded(|| vd.verify(p.clone())) {
        Ok(Ok(())) => "accepted",
        Ok(Err(_)) => "rejected",
        Err(_) => "panic",
    }
}

/// C for one (proof, verifier data): Ok(()) = the outer circuit accepts the derived assignment.
pub fn circuit_accepts(pair: &Pair, vo: &VerifierOnlyCircuitData<PC, D>, p: &ProofWithPublicInputs<F, PC, D>) -> Result<Vec<F>, String> {
    let pw = outer_pw(&pair.outer, p, vo)?;
    outer_accepts(&pair.outer, &pair.osc, pw)
}

fn reason_class(e: &str) -> String {
    let head = e.split(':').next().unwrap_or("");
    if head == "unsat" {
        // keep the gate name
        let g = e.split(':').nth(2).unwrap_or("").trim();
        let g: String = g.split(|c: char| c == ' ' || c == '{' || c == '<' || c == '(').next().unwrap_or("").to_string();
        format!("unsat-{}-{g}", e.split(':').nth(1).unwrap_or("").trim())
    } else {
        head.to_string()
    }
}

/// One differential case. `what` names the deviation for the observation class.
fn differential(pair: &Pair, vo: &VerifierOnlyCircuitData<PC, D>, p: &ProofWithPublicInputs<F, PC, D>, what: &str) -> Result<String, String> {
    let n = native(&pair.inner, vo, p);
    let c = circuit_accepts(pair, vo, p);
    match (n, &c) {
        ("accepted", Ok(_)) => Ok(format!("{what}:both-accept")),
        ("accepted", Err(e)) => Err(format!("native verifier ACCEPTS but the in-circuit verifier rejects the derived assignment: {e}")),
        (_, Ok(_)) => Err(format!("native verifier says {n} but the derived assignment SATISFIES the outer circuit")),
        (_, Err(e)) => Ok(format!("{what}:both-reject:native-{n}:circuit-{}", reason_class(e))),
    }
}

fn inner_cfgs(thorough: bool) -> Vec<(String, CircuitConfig)> {
    let mut v = vec![
        ("a2f1c1".to_string(), rec_config(2, 2, 1, 1, 3)),
        ("a1f1c0ch3".to_string(), {
            let mut c = rec_config(2, 1, 1, 0, 2);
            c.num_challenges = 3;
            c
        }),
    ];
    if thorough {
        v.push(("std_arity_c4".to_string(), rec_config(3, 4, 5, 4, 4)));
        v.push(("a3f0c2ch1".to_string(), {
            let mut c = rec_config(2, 3, 0, 2, 1);
            c.num_challenges = 1;
            c
        }));
        v.push(("zk".to_string(), {
            let mut c = rec_config(2, 2, 1, 1, 2);
            c.zero_knowledge = true;
            c
        }));
    }
    v
}

fn outer_cfgs(thorough: bool) -> Vec<(String, CircuitConfig)> {
    let mut v = vec![
        ("std".to_string(), rec_config(2, 4, 5, 4, 1)),
        // the repository's own size-optimised recursion shape: with 37 routed wires the verifier
        // circuit takes other code paths (two-gate bit splits, Poseidon without the MDS gate, ...)
        // ... and every FRI parameter differs from the inner configurations' (fewer query rounds, another
        // rate, cap height, grinding and schedule): a parameter taken from the wrong side shows
        ("narrow37".to_string(), {
            let mut c = rec_config(1, 4, 5, 4, 1);
            c.num_routed_wires = 37;
            c.fri_config.rate_bits = 4;
            fix_security(&mut c);
            c
        }),
    ];
    if thorough {
        v.push(("wide".to_string(), {
            let mut c = rec_config(2, 4, 5, 4, 1);
            c.num_wires = 234;
            c.num_routed_wires = 136;
            c
        }));
        v.push(("zk".to_string(), {
            let mut c = rec_config(2, 4, 5, 4, 1);
            c.zero_knowledge = true;
            c
        }));
    }
    v
}

pub fn build_pairs(ctx: &Ctx, thorough: bool) -> Vec<Pair> {
    let progs = subject_programs();
    let ics = inner_cfgs(thorough);
    let ocs = outer_cfgs(thorough);
    // (program index, inner cfg index, outer cfg index)
    let mut jobs: Vec<(usize, usize, usize)> = vec![(0, 0, 0), (2, 1, 0), (0, 0, 1)];
    if thorough {
        jobs = Vec::new();
        for (ii, _) in ics.iter().enumerate() {
            for pi in [0usize, 2, 3] {
                jobs.push((pi, ii, 0));
            }
        }
        jobs.push((0, 0, 1));
        jobs.push((2, 1, 1));
        jobs.push((0, 0, 2));
        jobs.push((2, 1, 3));
        jobs.push((1, 0, 0));
    }
    let pairs: Vec<Option<Pair>> = par_map(jobs.len(), |k| {
        let (pi, ii, oi) = jobs[k];
        let (prog, ivs) = &progs[pi];
        let inner = make_subject(ctx, prog, ivs, &ics[ii].0, &ics[ii].1, if thorough { 3 } else { 2 })?;
        let outer = match guarded(|| build_outer(&inner.built.data.common, &ocs[oi].1)) {
            Ok(o) => o,
            Err(p) => {
                ctx.machinery_error(format!("outer circuit for {}@{} / {} does not build: {p}", prog.name, ics[ii].0, ocs[oi].0));
                return None;
            }
        };
        let osc = sat_prepare(&outer.data);
        Some(Pair { name: format!("{}@{}/outer-{}", prog.name, ics[ii].0, ocs[oi].0), inner, outer, osc })
    });
    pairs.into_iter().flatten().collect()
}

pub fn run(ctx: &Ctx) -> i32 {
    let thorough = ctx.tier.thorough();
    let pairs = build_pairs(ctx, thorough);
    ctx.sample(json!({"pairs": pairs.iter().map(|p| format!("{} (inner rows {}, outer rows {})", p.name, p.inner.sc.degree, p.osc.degree)).collect::<Vec<_>>() }));
    for pair in &pairs {
        let name = &pair.name;
        if !pair.osc.static_issues.is_empty() {
            ctx.violation("outer-static", format!("{name} static"), pair.osc.static_issues.join("; "));
        }
        let s = &pair.inner;
        let vo = &s.built.data.verifier_only;
        // honest proofs
        let mut honest: Vec<ProofWithPublicInputs<F, PC, D>> = Vec::new();
        for (bi, (iv, _)) in s.bases.iter().enumerate() {
            plonky2_field::verif_hooks::set_seed(Some(ctx.seed + 100 + bi as u64));
            let p = guarded(|| s.built.data.prove(inputs_pw(&s.built, iv)));
            plonky2_field::verif_hooks::set_seed(None);
            match p {
                Ok(Ok(p)) => honest.push(p),
                _ => ctx.machinery_error(format!("{name}: honest inner prove failed for base {bi}")),
            }
        }
        for (bi, p) in honest.iter().enumerate() {
            ctx.case("honest", &format!("{name} honest#{bi}"), || {
                if native(s, vo, p) != "accepted" {
                    return Err("native verifier rejects an honest inner proof".into());
                }
                let values = circuit_accepts(pair, vo, p).map_err(|e| format!("native accepts but in-circuit verification fails: {e}"))?;
                let _ = values;
                // the outer proof is produced, verifies, and re-exposes the inner public inputs
                let pw = outer_pw(&pair.outer, p, vo)?;
                plonky2_field::verif_hooks::set_seed(Some(ctx.seed + 200 + bi as u64));
                let op = guarded(|| pair.outer.data.prove(pw));
                plonky2_field::verif_hooks::set_seed(None);
                let op = match op {
                    Ok(Ok(op)) => op,
                    other => return Err(format!("outer prove failed on a valid inner proof: {:?}", other.map(|r| r.map(|_| ()).map_err(|e| e.to_string())))),
                };
                if op.public_inputs != p.public_inputs {
                    return Err("outer proof does not re-expose the inner public inputs".into());
                }
                match guarded(|| pair.outer.data.verify(op.clone())) {
                    Ok(Ok(())) => Ok("honest:outer-proof-verifies".into()),
                    other => Err(format!("outer proof rejected: {:?}", other.map(|r| r.map_err(|e| e.to_string())))),
                }
            });
        }
        let Some(p0) = honest.first() else { continue };
        let j0: Value = serde_json::to_value(p0).unwrap();
        let sh = shape(&j0);
        ctx.count("inner_proof_leaves", sh.leaves.len() as u64);
        // every leaf of the inner proof
        let muts: Vec<LeafMut> = if thorough { vec![LeafMut::Add1, LeafMut::Zero] } else { vec![LeafMut::Add1] };
        let leaf_cases: Vec<(usize, LeafMut)> = (0..sh.leaves.len()).flat_map(|i| muts.iter().map(move |m| (i, *m))).collect();
        par_for_chunk(leaf_cases.len(), 8, |k| {
            let (li, m) = leaf_cases[k];
            let path = &sh.leaves[li];
            let case = format!("{name} leaf {} {:?}", path_str(path), m);
            ctx.case("tampered-leaf", &case, || {
                let Some((t, changed)) = mutate_leaf(&j0, path, m) else { return Ok(String::new()) };
                if !changed {
                    return Ok(String::new());
                }
                let Ok(p) = serde_json::from_value::<ProofWithPublicInputs<F, PC, D>>(t) else { return Ok("not-constructible".into()) };
                differential(pair, vo, &p, &format!("leaf:{}", path_kind(path)))
            });
        });
        // every list node
        let arr_muts = [ArrMut::DropLast, ArrMut::DupLast, ArrMut::SwapFirstTwo];
        let arr_cases: Vec<(usize, ArrMut)> = (0..sh.arrays.len()).flat_map(|i| arr_muts.iter().map(move |m| (i, *m))).collect();
        par_for_chunk(arr_cases.len(), 8, |k| {
            let (ai, m) = arr_cases[k];
            let path = &sh.arrays[ai];
            let case = format!("{name} list {} {:?}", path_str(path), m);
            ctx.case(&format!("mutated-list:{}:{:?}", path_kind(path), m), &case, || {
                let Some(t) = mutate_array(&j0, path, m) else { return Ok(String::new()) };
                let Ok(p) = serde_json::from_value::<ProofWithPublicInputs<F, PC, D>>(t) else { return Ok("not-constructible".into()) };
                differential(pair, vo, &p, &format!("list:{}:{:?}", path_kind(path), m))
            });
        });
        // false statements emitted by the real prover under adversarial strategies
        let nc = s.built.data.common.config.num_challenges;
        let mut adv: Vec<(Corr, Strat)> = vec![(Corr::None, Strat::S2(0)), (Corr::None, Strat::S2(5)), (Corr::None, Strat::S2(1)), (Corr::None, Strat::S1)];
        for j in 0..nc {
            adv.push((Corr::None, Strat::S4(j)));
        }
        for w in 0..(if thorough { 40 } else { 16 }) {
            adv.push((Corr::None, Strat::S5(w)));
        }
        let n_cells = s.sc.degree * s.sc.num_wires;
        let step = if thorough { 3 } else { 11 };
        for i in (0..n_cells).step_by(step) {
            adv.push((Corr::Cell(i, 0), Strat::S0));
        }
        for i in (0..n_cells).step_by(step * 5) {
            adv.push((Corr::Cell(i, 0), Strat::S2(0)));
        }
        if !s.built.data.common.luts.is_empty() {
            for i in (0..n_cells).step_by(step) {
                adv.push((Corr::Cell(i, 0), Strat::S6));
                adv.push((Corr::Cell(i, 0), Strat::S7));
            }
        }
        par_for_chunk(adv.len(), 4, |k| {
            let (corr, st) = &adv[k];
            let case = format!("{name} adversarial corr={:?} strat={:?}", corr, st);
            ctx.case("adversarial-inner-proof", &case, || {
                let p = match prove_case(s, &s.bases[0].1, corr, *st, ctx.seed + 300) {
                    Ok(p) => p,
                    Err(_) => return Ok("adversarial:no-proof-emitted".into()),
                };
                differential(pair, vo, &p, &format!("adversarial:{:?}", std::mem::discriminant(st)).replace("Discriminant", ""))
                    .map(|c| format!("{c}:{}", match st { Strat::S0 => "S0", Strat::S1 => "S1", Strat::S2(_) => "S2", Strat::S4(_) => "S4", Strat::S5(_) => "S5", Strat::S6 => "S6", Strat::S7 => "S7" }))
            });
        });
        // wrong verifier data
        let voj = serde_json::to_value(vo).unwrap();
        for path in shape(&voj).leaves {
            let case = format!("{name} verifier-data {}", path_str(&path));
            ctx.case("wrong-verifier-data", &case, || {
                let Some((t, changed)) = mutate_leaf(&voj, &path, LeafMut::Add1) else { return Ok(String::new()) };
                if !changed {
                    return Ok(String::new());
                }
                let (Ok(cap), Ok(dig)) = (serde_json::from_value(t["constants_sigmas_cap"].clone()), serde_json::from_value(t["circuit_digest"].clone())) else {
                    return Ok("not-constructible".into());
                };
                let vo2 = VerifierOnlyCircuitData::<PC, D> { constants_sigmas_cap: cap, circuit_digest: dig };
                differential(pair, &vo2, p0, &format!("verifier-data:{}", path_kind(&path)))
            });
        }
        for other in &pairs {
            if other.name == pair.name {
                continue;
            }
            let vo2 = &other.inner.built.data.verifier_only;
            if vo2.constants_sigmas_cap.0.len() != vo.constants_sigmas_cap.0.len() {
                continue;
            }
            ctx.case("wrong-verifier-data", &format!("{name} verifier-data of {}", other.name), || differential(pair, vo2, p0, "verifier-data:other-circuit"));
        }
        // a proof for another input, and a second honest proof: both accepted by both sides
        for (bi, p) in honest.iter().enumerate().skip(1) {
            ctx.case("honest", &format!("{name} honest-differential#{bi}"), || differential(pair, vo, p, "honest"));
        }
    }
    ctx.finish(Finish {
        level: "fault_enumeration",
        rule: "for each (inner circuit x inner FRI configuration, outer configuration) pair the outer verifier circuit is built once; cases = honest inner proofs, EVERY numeric leaf of the inner proof changed, every list node x {drop last, duplicate last, swap}, inner proofs of false statements emitted by the real prover (cell corruptions on a stride, zero/constant accumulator, lenient quotient, quotient perturbed per challenge index, chosen pow witnesses, lenient lookups), every element of the verifier data changed, other circuits' verifier data; each case: native verify vs (library assignment routines + witness generation + exact satisfaction oracle on the outer circuit); N <=> C demanded; honest ones additionally outer prove + verify + public inputs. distinct_nontrivial = (deviation kind, native verdict, in-circuit rejection reason) classes",
        exhaustive: true,
        assumptions: vec![
            "inner circuits outside the catalogue are not covered; Keccak inner proofs are inadmissible in-circuit (AlgebraicHasher bound)".into(),
            "C is decided by witness generation + the exact satisfaction oracle (gate evaluators trusted, C07); no outer proof is produced for rejected cases (by C02 none would be accepted)".into(),
            "N is computed natively per case, so no verdict floor is needed: the equivalence is exact even at 2 queries".into(),
        ],
        extra: json!({}),
    })
}
