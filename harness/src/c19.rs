//! C19 — circuit keys and verdicts do not depend on schedule, hash seeds or SIMD build.
//!
//! The space of this property is a set of BUILDS and EXECUTIONS, so the engine has three entry points:
//!
//! * [`keygen`] (`mc C19-keygen <out_dir>`) — the SUBJECT. It runs unchanged inside every variant binary
//!   (other `CONST_RANDOM_SEED`, `parallel` feature, AVX2 / AVX-512 target features, `checked` profile).
//!   For a fixed catalogue of circuit programs, STARKs and arithmetic kernels it writes
//!   `<out_dir>/digests.json` (name -> FNV-128 digest of canonical bytes) and every proof to
//!   `<out_dir>/proofs/`. Key prefixes say what a digest may legitimately depend on:
//!   `k:` nothing (must be identical in every execution of every variant); `pow:` the grinding witness
//!   (`find_any` under the `parallel` feature) or something derived from it by Fiat-Shamir; `zk:` salts drawn on
//!   rayon worker threads (the seeded seam is thread-local, so in `par` builds they come from OsRng).
//!   `pow:` / `zk:` keys are compared between all non-parallel executions and skipped when a `par` execution is
//!   involved; there the invariant is acceptance.
//! * [`verify_dir`] (`mc C19-verify <proofs_dir>...`) rebuilds the same circuits and verifies every proof file.
//! * [`run`] — the comparing DRIVER (`mc C19`, default variant): starts every variant binary several times as
//!   a fresh process (ASLR; one extra run with address randomisation disabled), `par` variants once per pool
//!   size, demands identical digests for EVERY pair of executions, runs the full acceptance matrix (every
//!   variant verifies the proofs of every execution) and, inside its own process, explores fork-join orders of
//!   `plonky2_maybe_rayon::join` (chooser hook) during a complete build + prove of two tiny circuits: all
//!   schedules with at most two right-first answers among a window of joins (quick: 40 join indices spread
//!   evenly over all ~200 joins of build + prove; thorough: all joins).
//!
//! Vacuity guard: every keygen reports the iteration order of a probe `hashbrown::HashSet<String>` holding the
//! catalogue's gate ids (`GateRef` hashes its id string, so this is the order the builder's own gate set
//! has); at least two distinct orders must be observed among the seed variants, otherwise the run is a
//! machinery error.

use std::collections::{BTreeMap, BTreeSet};
use std::rc::Rc;
use std::cell::{Cell, RefCell};

use plonky2::field::packable::Packable;
use plonky2::field::packed::PackedField;
use plonky2::field::polynomial::{PolynomialCoeffs, PolynomialValues};
use plonky2::field::types::{Field, PrimeField64};
use plonky2::fri::oracle::PolynomialBatch;
use plonky2::field::ops::Square;
use plonky2::hash::keccak::KeccakHash;
use plonky2::hash::merkle_tree::MerkleTree;
use plonky2::hash::poseidon::{Poseidon, PoseidonHash};
use plonky2::iop::challenger::Challenger;
use plonky2::iop::witness::PartialWitness;
use plonky2::plonk::circuit_data::{CircuitConfig, CircuitData};
use plonky2::plonk::config::{GenericConfig, GenericHashOut, Hasher};
use plonky2::plonk::proof::ProofWithPublicInputs;
use plonky2::util::serialization::{DefaultGateSerializer, DefaultGeneratorSerializer, WitnessGeneratorSerializer, Write};
use plonky2::util::timing::TimingTree;
use plonky2_maybe_rayon::sched::set_chooser;
use serde_json::{json, Value};

use crate::core::*;
use crate::plonkm::*;
use crate::recm::*;
use crate::starkm;

// ---------------------------------------------------------------------------------------------------------
// Digests: FNV-1a, 128 bit, over canonical byte encodings. Not cryptographic; it only has to separate
// outputs that differ by accident.

fn fnv128(bytes: &[u8]) -> u128 {
    let mut h: u128 = 0x6c62272e07bb014262b821756295c58d;
    for &b in bytes {
        h ^= b as u128;
        h = h.wrapping_mul(0x0000000001000000000000000000013B);
    }
    h
}
fn dig(bytes: &[u8]) -> String {
    format!("{:032x}/{}", fnv128(bytes), bytes.len())
}
fn fbytes(v: &[F]) -> Vec<u8> {
    let mut out = Vec::with_capacity(8 * v.len());
    for x in v {
        out.extend_from_slice(&x.to_canonical_u64().to_le_bytes());
    }
    out
}
fn febytes(v: &[FE]) -> Vec<u8> {
    let mut out = Vec::new();
    for x in v {
        for c in x.0 {
            out.extend_from_slice(&c.to_canonical_u64().to_le_bytes());
        }
    }
    out
}
fn fv(v: &[u64]) -> Vec<F> {
    v.iter().map(|&x| fe(x % P)).collect()
}

/// What the keygen of one execution produced.
#[derive(Default)]
struct Sink {
    digests: BTreeMap<String, String>,
    texts: BTreeMap<String, String>,
    proofs: Vec<(String, Vec<u8>)>,
    gate_ids: Vec<String>,
}
impl Sink {
    fn put(&mut self, key: String, bytes: &[u8]) {
        self.digests.insert(key, dig(bytes));
    }
    fn put_str(&mut self, key: String, s: &str) {
        self.digests.insert(key.clone(), dig(s.as_bytes()));
        if s.len() <= 4000 {
            self.texts.insert(key, s.to_string());
        }
    }
    fn put_raw(&mut self, key: String, v: String) {
        self.digests.insert(key, v);
    }
}

fn file_name(name: &str) -> String {
    name.chars().map(|c| if c.is_ascii_alphanumeric() || c == '_' || c == '-' || c == '.' { c } else { '_' }).collect()
}

// ---------------------------------------------------------------------------------------------------------
// The catalogue of circuits. One function walks it for both the keygen and the verifier side.

#[derive(Clone, Copy, PartialEq, Eq, Debug)]
pub enum ProofKind {
    /// proof is a deterministic function of the build inputs (grinding excepted)
    Det,
    /// zero-knowledge: salts are drawn while committing (worker threads in `par` builds)
    Zk,
    /// the witness itself contains an inner proof, hence an inner grinding witness
    PowInput,
}

pub trait Visitor {
    fn circuit<Cfg: GenericConfig<D, F = F>>(
        &mut self,
        name: &str,
        kind: ProofKind,
        data: &CircuitData<F, Cfg, D>,
        pw: Option<PartialWitness<F>>,
        gser: Option<&dyn WitnessGeneratorSerializer<F, D>>,
    );
    /// `true`: input witnesses are needed (keygen); `false`: circuits only (verifier).
    fn wants_inputs(&self) -> bool;
    fn failed(&mut self, name: &str, what: String);
}

/// enough grinding that the `find_any` of a `par` build can return something else than the smallest witness
const POW_BITS: u32 = 12;

fn cfg_std() -> CircuitConfig {
    cfg_small(2, POW_BITS)
}

fn lattice_cfg(name: &str) -> CircuitConfig {
    let mut c = config_lattice(2).into_iter().find(|(n, _)| n == name).unwrap_or_else(|| panic!("no lattice point {name}")).1;
    c.fri_config.proof_of_work_bits = POW_BITS;
    fix_security(&mut c);
    c
}

/// Three tables of different sizes; table 2 is looked up more often than one LookupGate has slots (a full
/// gate plus a partially filled one) and spans several LookupTableGate rows.
fn lookups3_program() -> (Program, Vec<u64>) {
    use Op::*;
    let mut ops = vec![Lookup(0, 0), Lookup(1, 1), Lookup(0, 1)];
    for i in 0..45 {
        ops.push(Lookup(i % 2, 2));
    }
    ops.push(Add(2, 3));
    ops.push(Lookup(1, 0));
    let mut p = Program::new("lookups3", vec![Ty::B, Ty::B], ops);
    p.tables = vec![
        (0..8).map(|i| (i, (i + 3) % 8)).collect(),
        (0..30).map(|i| (i, (i * i) % 251)).collect(),
        (0..70).map(|i| (i, (7 * i + 1) % 1009)).collect(),
    ];
    (p, vec![2, 5])
}

fn ext_ops_program() -> (Program, Vec<u64>) {
    use Op::*;
    (
        Program::new("ext_ops", vec![Ty::E, Ty::E], vec![DivExt(0, 1), InverseExt(1), MulAddExt(0, 1, 2), PolyEvalExt(vec![0, 1, 2, 3], 4), MulExt(4, 5)]),
        vec![1, 2, 3, 4],
    )
}

pub fn catalogue<V: Visitor>(v: &mut V) {
    let gser = DefaultGeneratorSerializer::<PC, D>::default();
    // (c02's "ext_div" is ill-typed at its last operation and does not build; `ext_ops` replaces it here)
    let mut progs: Vec<(Program, Vec<u64>)> =
        crate::c02::subject_programs().into_iter().filter(|(p, _)| p.name != "ext_div").map(|(p, ivs)| (p, ivs[0].clone())).collect();
    progs.push(lookups3_program());
    progs.push(ext_ops_program());
    let by_name = |n: &str| progs.iter().find(|(p, _)| p.name == n).unwrap_or_else(|| panic!("no subject program {n}")).clone();

    fn one<Cfg: GenericConfig<D, F = F>, V: Visitor>(
        v: &mut V,
        name: &str,
        kind: ProofKind,
        prog: &Program,
        iv: &[u64],
        cfg: &CircuitConfig,
        gser: Option<&dyn WitnessGeneratorSerializer<F, D>>,
    ) {
        match guarded(|| build_program::<Cfg>(prog, cfg)) {
            Ok(b) => {
                let pw = if v.wants_inputs() { Some(inputs_pw(&b, iv)) } else { None };
                v.circuit::<Cfg>(name, kind, &b.data, pw, gser);
            }
            Err(p) => v.failed(name, format!("build panicked: {p}")),
        }
    }

    // every subject program under the standard configuration
    for (p, iv) in &progs {
        one::<PC, V>(v, &format!("{}@std", p.name), ProofKind::Det, p, iv, &cfg_std(), Some(&gser));
    }
    // configuration deviations (selector grouping, routed wires, cap, challenges, gate choice, constants per gate)
    for (pn, cn) in [
        ("arith_range", "qdf7"),
        ("random_access_exp", "routed25"),
        ("poseidon_merkle", "cap0"),
        ("lookups", "chal3"),
        ("base_sum_split", "no_base_arith"),
        ("ext_ops", "consts3"),
    ] {
        let (p, iv) = by_name(pn);
        one::<PC, V>(v, &format!("{pn}@{cn}"), ProofKind::Det, &p, &iv, &lattice_cfg(cn), Some(&gser));
    }
    // Keccak configuration (other digest type in every tree)
    for pn in ["arith_range", "lookups"] {
        let (p, iv) = by_name(pn);
        one::<KC, V>(v, &format!("{pn}@keccak"), ProofKind::Det, &p, &iv, &cfg_std(), None);
    }
    // zero knowledge (blinding rows through RandomValueGenerator, salted trees), H4 seed fixed by the visitor
    for pn in ["arith_range", "lookups"] {
        let (p, iv) = by_name(pn);
        one::<PC, V>(v, &format!("{pn}@zk"), ProofKind::Zk, &p, &iv, &lattice_cfg("zk"), Some(&gser));
    }
    // recursion: outer circuit verifying an inner proof
    {
        let mut rc = rec_config(2, 2, 1, 1, POW_BITS);
        fix_security(&mut rc);
        let (p, iv) = by_name("arith_range");
        match guarded(|| build_program::<PC>(&p, &rc)) {
            Err(e) => v.failed("recursion_outer", format!("inner build panicked: {e}")),
            Ok(inner) => match guarded(|| build_outer(&inner.data.common, &rc)) {
                Err(e) => v.failed("recursion_outer", format!("outer build panicked: {e}")),
                Ok(outer) => {
                    let pw = if v.wants_inputs() {
                        // every circuit has RandomValueGenerators on the unused public-input-gate wires: seed them
                        plonky2_field::verif_hooks::set_seed(Some(ZK_SEED));
                        let r = guarded(|| inner.data.prove(inputs_pw(&inner, &iv)));
                        plonky2_field::verif_hooks::set_seed(None);
                        match r {
                            Ok(Ok(proof)) => outer_pw(&outer, &proof, &inner.data.verifier_only).ok(),
                            _ => None,
                        }
                    } else {
                        None
                    };
                    if v.wants_inputs() && pw.is_none() {
                        v.failed("recursion_outer", "inner proof / assignment failed".into());
                    } else {
                        v.circuit::<PC>("recursion_outer", ProofKind::PowInput, &outer.data, pw, Some(&gser));
                    }
                }
            },
        }
    }
}

// ---------------------------------------------------------------------------------------------------------
// keygen side

struct KeygenVisitor<'a> {
    sink: &'a mut Sink,
}

/// Digests of everything a built circuit consists of, whole and field by field (the field digests are what
/// localises a difference).
fn circuit_digests<Cfg: GenericConfig<D, F = F>>(
    sink: &mut Sink,
    name: &str,
    data: &CircuitData<F, Cfg, D>,
    gser: Option<&dyn WitnessGeneratorSerializer<F, D>>,
) {
    let k = |s: &str| format!("k:{name}/{s}");
    let gs = DefaultGateSerializer;
    match data.verifier_only.to_bytes() {
        Ok(b) => sink.put(k("vk.bytes"), &b),
        Err(e) => sink.put_raw(k("vk.bytes"), format!("err:{e:?}")),
    }
    sink.put(k("vk.circuit_digest"), &data.verifier_only.circuit_digest.to_bytes());
    let mut b = Vec::new();
    b.write_merkle_cap(&data.verifier_only.constants_sigmas_cap).unwrap();
    sink.put(k("vk.constants_sigmas_cap"), &b);

    let c = &data.common;
    match c.to_bytes(&gs) {
        Ok(b) => sink.put(k("common.bytes"), &b),
        Err(e) => sink.put_raw(k("common.bytes"), format!("err:{e:?}")),
    }
    let ids: Vec<String> = c.gates.iter().map(|g| g.0.id()).collect();
    for id in &ids {
        if !sink.gate_ids.contains(id) {
            sink.gate_ids.push(id.clone());
        }
    }
    sink.put_str(k("common.gates"), &ids.join(" | "));
    sink.put_str(k("common.selectors_info"), &format!("{:?}", c.selectors_info));
    sink.put(k("common.k_is"), &fbytes(&c.k_is));
    sink.put_str(k("common.luts"), &format!("{:?}", c.luts));
    sink.put_str(
        k("common.numbers"),
        &format!(
            "config={:?} fri_params={:?} qdf={} gate_constraints={} constants={} pis={} partial_products={} lookup_polys={} lookup_selectors={}",
            c.config, c.fri_params, c.quotient_degree_factor, c.num_gate_constraints, c.num_constants, c.num_public_inputs, c.num_partial_products, c.num_lookup_polys, c.num_lookup_selectors
        ),
    );

    let po = &data.prover_only;
    if let Some(gser) = gser {
        match data.to_bytes(&gs, gser) {
            Ok(b) => sink.put(k("prover.bytes"), &b),
            Err(e) => sink.put_raw(k("prover.bytes"), format!("err:{e:?}")),
        }
    }
    let gen_ids: Vec<String> = po.generators.iter().map(|g| g.0.id()).collect();
    sink.put_str(k("prover.generators"), &gen_ids.join(" | "));
    let watched: Vec<String> = po.generators.iter().map(|g| format!("{:?}", g.0.watch_list())).collect();
    sink.put(k("prover.generator_watch_lists"), watched.join(";").as_bytes());
    sink.put(k("prover.generator_indices_by_watches"), format!("{:?}", po.generator_indices_by_watches).as_bytes());
    sink.put(k("prover.sigmas"), &po.sigmas.iter().flat_map(|r| fbytes(r)).collect::<Vec<u8>>());
    sink.put(k("prover.subgroup"), &fbytes(&po.subgroup));
    sink.put(k("prover.public_inputs"), format!("{:?}", po.public_inputs).as_bytes());
    sink.put(k("prover.representative_map"), format!("{:?}", po.representative_map).as_bytes());
    sink.put(k("prover.lookup_rows"), format!("{:?}", po.lookup_rows).as_bytes());
    sink.put(k("prover.lut_to_lookups"), format!("{:?}", po.lut_to_lookups).as_bytes());
    let cs = &po.constants_sigmas_commitment;
    sink.put(k("prover.constants_sigmas.polynomials"), &cs.polynomials.iter().flat_map(|p| fbytes(&p.coeffs)).collect::<Vec<u8>>());
    sink.put(k("prover.constants_sigmas.leaves"), &cs.merkle_tree.leaves.iter().flat_map(|l| fbytes(l)).collect::<Vec<u8>>());
    sink.put(k("prover.constants_sigmas.digests"), &cs.merkle_tree.digests.iter().flat_map(|d| d.to_bytes()).collect::<Vec<u8>>());
    if let Some(t) = &po.fft_root_table {
        sink.put(k("prover.fft_root_table"), &t.iter().flat_map(|r| fbytes(r)).collect::<Vec<u8>>());
    }
}

fn proof_digests<Cfg: GenericConfig<D, F = F>>(
    sink: &mut Sink,
    name: &str,
    kind: ProofKind,
    data: &CircuitData<F, Cfg, D>,
    proof: &ProofWithPublicInputs<F, Cfg, D>,
) {
    // prefix of the parts that exist before grinding / of the parts derived from the grinding witness
    let (pre, post) = match kind {
        ProofKind::Det => ("k", "pow"),
        ProofKind::Zk => ("zk", "zk"),
        ProofKind::PowInput => ("pow", "pow"),
    };
    let kp = |s: &str| format!("{pre}:{name}/{s}");
    let kq = |s: &str| format!("{post}:{name}/{s}");
    let p = &proof.proof;
    let cap = |c: &plonky2::hash::merkle_tree::MerkleCap<F, Cfg::Hasher>| {
        let mut b = Vec::new();
        b.write_merkle_cap(c).unwrap();
        b
    };
    sink.put(kp("proof.public_inputs"), &fbytes(&proof.public_inputs));
    sink.put(kp("proof.wires_cap"), &cap(&p.wires_cap));
    sink.put(kp("proof.zs_partial_products_cap"), &cap(&p.plonk_zs_partial_products_cap));
    sink.put(kp("proof.quotient_polys_cap"), &cap(&p.quotient_polys_cap));
    let mut b = Vec::new();
    b.write_opening_set(&p.openings).unwrap();
    sink.put(kp("proof.openings"), &b);
    let caps: Vec<u8> = p.opening_proof.commit_phase_merkle_caps.iter().flat_map(|c| cap(c)).collect();
    sink.put(kp("proof.fri.commit_phase_caps"), &caps);
    sink.put(kp("proof.fri.final_poly"), &febytes(&p.opening_proof.final_poly.coeffs));
    sink.put(kq("proof.fri.pow_witness"), &fbytes(&[p.opening_proof.pow_witness]));
    let mut b = Vec::new();
    b.write_fri_query_rounds::<F, Cfg, D>(&p.opening_proof.query_round_proofs).unwrap();
    sink.put(kq("proof.fri.query_rounds"), &b);
    sink.put(kq("proof.bytes"), &proof.to_bytes());

    match proof.get_challenges(proof.get_public_inputs_hash(), &data.verifier_only.circuit_digest, &data.common) {
        Ok(ch) => {
            let mut pre_b = Vec::new();
            pre_b.extend(fbytes(&ch.plonk_betas));
            pre_b.extend(fbytes(&ch.plonk_gammas));
            pre_b.extend(fbytes(&ch.plonk_alphas));
            pre_b.extend(fbytes(&ch.plonk_deltas));
            pre_b.extend(febytes(&[ch.plonk_zeta]));
            pre_b.extend(febytes(&[ch.fri_challenges.fri_alpha]));
            pre_b.extend(febytes(&ch.fri_challenges.fri_betas));
            sink.put(kp("challenges.before_grinding"), &pre_b);
            let mut post_b = fbytes(&[ch.fri_challenges.fri_pow_response]);
            post_b.extend(format!("{:?}", ch.fri_challenges.fri_query_indices).as_bytes());
            sink.put(kq("challenges.after_grinding"), &post_b);
        }
        Err(e) => sink.put_raw(kp("challenges.before_grinding"), format!("err:{e}")),
    }
    // the compressed form goes through hash maps keyed by query index
    match guarded(|| proof.clone().compress(&data.verifier_only.circuit_digest, &data.common)) {
        Ok(Ok(cp)) => sink.put(kq("proof.compressed.bytes"), &cp.to_bytes()),
        Ok(Err(e)) => sink.put_raw(kq("proof.compressed.bytes"), format!("err:{e}")),
        Err(p) => sink.put_raw(kq("proof.compressed.bytes"), format!("panic:{}", truncate(&p, 100))),
    }
    let verdict = match guarded(|| data.verify(proof.clone())) {
        Ok(Ok(())) => "accepted".to_string(),
        Ok(Err(e)) => format!("rejected:{}", truncate(&format!("{e:#}"), 100)),
        Err(p) => format!("panic:{}", truncate(&p, 100)),
    };
    sink.put_raw(format!("k:{name}/own_verdict"), verdict);
}

const ZK_SEED: u64 = 0xC19_5EED;

impl<'a> Visitor for KeygenVisitor<'a> {
    fn wants_inputs(&self) -> bool {
        true
    }
    fn failed(&mut self, name: &str, what: String) {
        self.sink.put_raw(format!("k:{name}/built"), format!("failed:{what}"));
    }
    fn circuit<Cfg: GenericConfig<D, F = F>>(
        &mut self,
        name: &str,
        kind: ProofKind,
        data: &CircuitData<F, Cfg, D>,
        pw: Option<PartialWitness<F>>,
        gser: Option<&dyn WitnessGeneratorSerializer<F, D>>,
    ) {
        self.sink.put_raw(format!("k:{name}/built"), "ok".into());
        circuit_digests(self.sink, name, data, gser);
        let pw = pw.expect("keygen needs inputs");
        // the witness (blinding values come from RandomValueGenerator on the calling thread: seeded)
        let wkey = format!("{}:{name}/witness", if kind == ProofKind::PowInput { "pow" } else { "k" });
        plonky2_field::verif_hooks::set_seed(Some(ZK_SEED));
        match gen_witness(data, pw.clone()) {
            Ok(w) => self.sink.put(wkey, &fbytes(&w.values)),
            Err(e) => self.sink.put_raw(wkey, format!("failed:{}", truncate(&e, 100))),
        }
        plonky2_field::verif_hooks::set_seed(Some(ZK_SEED));
        let r = guarded(|| data.prove(pw));
        plonky2_field::verif_hooks::set_seed(None);
        match r {
            Ok(Ok(proof)) => {
                proof_digests(self.sink, name, kind, data, &proof);
                self.sink.proofs.push((format!("{}.bin", file_name(name)), proof.to_bytes()));
                self.sink.put_raw(format!("k:{name}/proved"), "ok".into());
            }
            Ok(Err(e)) => self.sink.put_raw(format!("k:{name}/proved"), format!("err:{}", truncate(&format!("{e:#}"), 120))),
            Err(p) => self.sink.put_raw(format!("k:{name}/proved"), format!("panic:{}", truncate(&p, 120))),
        }
    }
}

// --- arithmetic kernels, transforms, hashes, trees (fixed vectors) ------------------------------------------

fn corner_vec(n: usize) -> Vec<u64> {
    let r = r_alphabet();
    (0..n).map(|i| r[(i * 7 + i / 3) % r.len()] % P).collect()
}

/// One family of kernels; a panic becomes the (comparable) digest of the family instead of killing the process.
fn section(sink: &mut Sink, name: &str, f: impl FnOnce(&mut Sink)) {
    if let Err(p) = guarded(|| f(&mut *sink)) {
        sink.put_raw(format!("k:math/{name}/panicked"), truncate(&p, 160));
    }
}

fn math_digests(sink: &mut Sink) {
    section(sink, "fft", math_fft);
    section(sink, "batch", math_batch);
    section(sink, "packed", math_packed);
    section(sink, "hash", math_hash);
    section(sink, "merkle-poseidon", |s| trees::<PoseidonHash>(s, "poseidon"));
    section(sink, "merkle-keccak", |s| trees::<KeccakHash<25>>(s, "keccak"));
    section(sink, "polynomial_batch", math_batches);
}

fn math_fft(sink: &mut Sink) {
    // FFT / inverse FFT / coset FFT / low-degree extension, sizes 2^0 .. 2^12 (scalar and packed butterflies)
    for lg in 0..=12usize {
        let n = 1usize << lg;
        for (vn, vals) in [("dense", dense_vec(n, 0xC19_0000 + lg as u64)), ("corner", corner_vec(n))] {
            let v = fv(&vals);
            let k = |s: &str| format!("k:math/fft/{vn}/2^{lg}/{s}");
            let coeffs = PolynomialCoeffs::new(v.clone());
            let values = PolynomialValues::new(v.clone());
            sink.put(k("fft"), &fbytes(&plonky2::field::fft::fft(coeffs.clone()).values));
            sink.put(k("ifft"), &fbytes(&plonky2::field::fft::ifft(values.clone()).coeffs));
            sink.put(k("coset_fft"), &fbytes(&coeffs.coset_fft(F::coset_shift()).values));
            sink.put(k("coset_ifft"), &fbytes(&values.clone().coset_ifft(F::coset_shift()).coeffs));
            if lg <= 10 {
                for rate in [1usize, 3] {
                    sink.put(k(&format!("values.lde{rate}")), &fbytes(&values.clone().lde(rate).values));
                    sink.put(k(&format!("values.lde_onto_coset{rate}")), &fbytes(&values.clone().lde_onto_coset(rate).values));
                    sink.put(k(&format!("coeffs.lde{rate}")), &fbytes(&coeffs.lde(rate).coeffs));
                    let padded = coeffs.lde(rate);
                    sink.put(
                        k(&format!("fft_zero_factor{rate}")),
                        &fbytes(&plonky2::field::fft::fft_with_options(padded, Some(rate), None).values),
                    );
                }
            }
        }
    }
}

fn math_batch(sink: &mut Sink) {
    // batch kernels, every length 0..=40 (packed body + scalar tail)
    let a = fv(&corner_vec(64));
    let b = fv(&dense_vec(64, 0xBA7C4));
    let mut acc_mul = Vec::new();
    let mut acc_add = Vec::new();
    for len in 0..=40usize {
        let mut o = a[..len].to_vec();
        plonky2::field::batch_util::batch_multiply_inplace(&mut o, &b[..len]);
        acc_mul.extend(fbytes(&o));
        let mut o = a[..len].to_vec();
        plonky2::field::batch_util::batch_add_inplace(&mut o, &b[..len]);
        acc_add.extend(fbytes(&o));
    }
    sink.put("k:math/batch_multiply_inplace".into(), &acc_mul);
    sink.put("k:math/batch_add_inplace".into(), &acc_add);
}

fn math_packed(sink: &mut Sink) {
    type PF = <F as Packable>::Packing;
    // the default packing of the build: every pair of the representation alphabet (non-canonical included)
    {
        let r = r_alphabet();
        let mut xs = Vec::new();
        let mut ys = Vec::new();
        for &x in &r {
            for &y in &r {
                xs.push(plonky2::field::goldilocks_field::GoldilocksField(x));
                ys.push(plonky2::field::goldilocks_field::GoldilocksField(y));
            }
        }
        while xs.len() % 16 != 0 {
            xs.push(F::ZERO);
            ys.push(F::ONE);
        }
        let w = PF::WIDTH;
        let (mut mul, mut add, mut sub, mut sq, mut neg) = (Vec::new(), Vec::new(), Vec::new(), Vec::new(), Vec::new());
        for i in (0..xs.len()).step_by(w) {
            let x = *PF::from_slice(&xs[i..i + w]);
            let y = *PF::from_slice(&ys[i..i + w]);
            mul.extend(fbytes((x * y).as_slice()));
            add.extend(fbytes((x + y).as_slice()));
            sub.extend(fbytes((x - y).as_slice()));
            sq.extend(fbytes(x.square().as_slice()));
            neg.extend(fbytes((-x).as_slice()));
        }
        sink.put("k:math/packed/mul".into(), &mul);
        sink.put("k:math/packed/add".into(), &add);
        sink.put("k:math/packed/sub".into(), &sub);
        sink.put("k:math/packed/square".into(), &sq);
        sink.put("k:math/packed/neg".into(), &neg);
    }
}

fn math_hash(sink: &mut Sink) {
    // Poseidon permutation (vectorised implementations exist per target feature), sponges, Keccak
    {
        let r = r_alphabet();
        let mut out = Vec::new();
        for s in 0..40usize {
            let mut st = [F::ZERO; 12];
            for (i, x) in st.iter_mut().enumerate() {
                *x = plonky2::field::goldilocks_field::GoldilocksField(r[(s * 5 + i * 3) % r.len()]);
            }
            out.extend(fbytes(&<F as Poseidon>::poseidon(st)));
        }
        sink.put("k:math/poseidon/permutation".into(), &out);
        let inp = fv(&dense_vec(40, 0x5907));
        let mut hp = Vec::new();
        let mut hk = Vec::new();
        for len in 0..=40usize {
            hp.extend(<PoseidonHash as Hasher<F>>::hash_no_pad(&inp[..len]).to_bytes());
            hp.extend(<PoseidonHash as Hasher<F>>::hash_or_noop(&inp[..len]).to_bytes());
            hk.extend(GenericHashOut::<F>::to_bytes(&<KeccakHash<25> as Hasher<F>>::hash_no_pad(&inp[..len])));
            hk.extend(GenericHashOut::<F>::to_bytes(&<KeccakHash<25> as Hasher<F>>::hash_or_noop(&inp[..len])));
        }
        sink.put("k:math/poseidon/sponge".into(), &hp);
        sink.put("k:math/keccak/sponge".into(), &hk);
    }
}

// Merkle trees over fixed leaves
fn trees<H: Hasher<F>>(sink: &mut Sink, hname: &str) {
    {
        for lg in 0..=8usize {
            for width in [1usize, 5, 9] {
                let n = 1usize << lg;
                let leaves: Vec<Vec<F>> = (0..n).map(|i| fv(&dense_vec(width, 0x7EE + (i * 31 + width) as u64))).collect();
                for cap_h in 0..=lg {
                    let t = MerkleTree::<F, H>::new(leaves.clone(), cap_h);
                    let mut b: Vec<u8> = t.cap.0.iter().flat_map(|d| d.to_bytes()).collect();
                    b.extend(t.digests.iter().flat_map(|d| d.to_bytes()));
                    b.extend(t.prove(n / 2).siblings.iter().flat_map(|d| d.to_bytes()));
                    sink.put(format!("k:math/merkle/{hname}/2^{lg}/w{width}/cap{cap_h}"), &b);
                }
            }
        }
    }
}

fn math_batches(sink: &mut Sink) {
    // polynomial commitments (IFFT, LDE, transpose, bit reversal, tree) of fixed value vectors
    for lg in [3usize, 6, 9] {
        let n = 1usize << lg;
        let polys: Vec<PolynomialValues<F>> = (0..5).map(|j| PolynomialValues::new(fv(&dense_vec(n, 0xB47C4 + j + 16 * lg as u64)))).collect();
        for (rate, cap_h) in [(1usize, 0usize), (3, 2)] {
            let b = PolynomialBatch::<F, PC, D>::from_values(polys.clone(), rate, false, cap_h, &mut TimingTree::default(), None);
            let mut bytes: Vec<u8> = b.merkle_tree.cap.0.iter().flat_map(|d| d.to_bytes()).collect();
            bytes.extend(b.merkle_tree.leaves.iter().flat_map(|l| fbytes(l)));
            sink.put(format!("k:math/polynomial_batch/2^{lg}/rate{rate}/cap{cap_h}"), &bytes);
            // salted: salts are drawn inside a (maybe-)parallel map
            plonky2_field::verif_hooks::set_seed(Some(ZK_SEED));
            let b = PolynomialBatch::<F, PC, D>::from_values(polys.clone(), rate, true, cap_h, &mut TimingTree::default(), None);
            plonky2_field::verif_hooks::set_seed(None);
            let bytes: Vec<u8> = b.merkle_tree.cap.0.iter().flat_map(|d| d.to_bytes()).collect();
            sink.put(format!("zk:math/polynomial_batch_salted/2^{lg}/rate{rate}/cap{cap_h}"), &bytes);
        }
    }
}

// --- STARKs ---------------------------------------------------------------------------------------------------

struct StarkSubject {
    def: starkm::Def,
    rows: starkm::Rows,
    pis: Vec<u64>,
    cfg: starky::config::StarkConfig,
}

fn lookup_stark_def() -> (starkm::Def, starkm::Rows, Vec<u64>) {
    use starkm::*;
    let n = 32usize;
    let mut def = Def::new("lookup_c3_p0", 3, 0, 3, vec![]);
    def.lookups = vec![LookupSpec { columns: vec![ColSpec::single(0)], table: ColSpec::single(1), freq: ColSpec::single(2), filters: vec![None] }];
    let mut rows: Rows = (0..n).map(|r| vec![((r * r + 3) % n) as u64, r as u64, 0]).collect();
    for r in 0..n {
        let looked = rows[r][0] as usize;
        rows[looked][2] += 1;
    }
    (def, rows, vec![])
}

fn stark_subjects() -> Vec<StarkSubject> {
    let mut out = Vec::new();
    let mk = |rate_bits: usize, cap_height: usize, arity: starkm::Arity| {
        starkm::Cfg { rate_bits, cap_height, num_challenges: 2, queries: 4, pow_bits: POW_BITS, arity }.stark_config()
    };
    {
        let m = starkm::member("fib_c2_p3");
        let (rows, pis) = (m.gen)(32, 0);
        out.push(StarkSubject { def: m.def, rows, pis, cfg: mk(1, 1, starkm::Arity::Ones(2)) });
    }
    {
        let m = starkm::member("wide8_p3");
        let (rows, pis) = (m.gen)(64, 1);
        out.push(StarkSubject { def: m.def, rows, pis, cfg: mk(2, 2, starkm::Arity::Constant(2, 2)) });
    }
    {
        let (def, rows, pis) = lookup_stark_def();
        out.push(StarkSubject { def, rows, pis, cfg: mk(2, 0, starkm::Arity::None) });
    }
    out
}

/// Canonical bytes of a serde tree whose numbers are all field elements.
fn canon_json(v: &Value, out: &mut Vec<u8>) {
    match v {
        Value::Number(n) => {
            let x = n.as_u64().unwrap_or(u64::MAX);
            out.extend_from_slice(&(x % P).to_le_bytes());
        }
        Value::Array(a) => {
            out.push(b'[');
            for x in a {
                canon_json(x, out);
            }
            out.push(b']');
        }
        Value::Object(m) => {
            for (k, x) in m {
                out.extend_from_slice(k.as_bytes());
                canon_json(x, out);
            }
        }
        Value::Null => out.push(b'n'),
        Value::Bool(b) => out.push(*b as u8),
        Value::String(s) => out.extend_from_slice(s.as_bytes()),
    }
}

fn stark_digests(sink: &mut Sink) {
    for s in stark_subjects() {
        let name = format!("stark/{}", s.def.name);
        if !starkm::satisfied(&s.def, &s.rows, &s.pis) && s.def.lookups.is_empty() {
            sink.put_raw(format!("k:{name}/proved"), "harness: trace does not satisfy its definition".into());
            continue;
        }
        match starkm::prove_def(&s.def, &s.cfg, &s.rows, &s.pis, false) {
            starkm::ProveOutcome::Proof(p) => {
                sink.put_raw(format!("k:{name}/proved"), "ok".into());
                let tree = starkm::proof_to_json(&p);
                let part = |path: &[&str]| {
                    let mut v = &tree;
                    for k in path {
                        v = &v[*k];
                    }
                    let mut b = Vec::new();
                    canon_json(v, &mut b);
                    b
                };
                sink.put(format!("k:{name}/proof.public_inputs"), &part(&["public_inputs"]));
                sink.put(format!("k:{name}/proof.trace_cap"), &part(&["proof", "trace_cap"]));
                sink.put(format!("k:{name}/proof.auxiliary_polys_cap"), &part(&["proof", "auxiliary_polys_cap"]));
                sink.put(format!("k:{name}/proof.quotient_polys_cap"), &part(&["proof", "quotient_polys_cap"]));
                sink.put(format!("k:{name}/proof.openings"), &part(&["proof", "openings"]));
                sink.put(format!("k:{name}/proof.fri.commit_phase_caps"), &part(&["proof", "opening_proof", "commit_phase_merkle_caps"]));
                sink.put(format!("k:{name}/proof.fri.final_poly"), &part(&["proof", "opening_proof", "final_poly"]));
                sink.put(format!("pow:{name}/proof.fri.pow_witness"), &part(&["proof", "opening_proof", "pow_witness"]));
                sink.put(format!("pow:{name}/proof.fri.query_rounds"), &part(&["proof", "opening_proof", "query_round_proofs"]));
                sink.put(format!("pow:{name}/proof.bytes"), &part(&[]));
                // the transcript
                let ch = guarded(|| {
                    crate::with_model_stark!(s.def, S, p.get_challenges(&S::new(&s.def), &mut Challenger::<F, PoseidonHash>::new(), None, None, false, &s.cfg, None))
                });
                match ch {
                    Ok(ch) => {
                        let mut pre = Vec::new();
                        if let Some(set) = &ch.lookup_challenge_set {
                            for c in &set.challenges {
                                pre.extend(fbytes(&[c.beta, c.gamma]));
                            }
                        }
                        pre.extend(fbytes(&ch.stark_alphas));
                        pre.extend(febytes(&[ch.stark_zeta]));
                        pre.extend(febytes(&[ch.fri_challenges.fri_alpha]));
                        pre.extend(febytes(&ch.fri_challenges.fri_betas));
                        sink.put(format!("k:{name}/challenges.before_grinding"), &pre);
                        let mut post = fbytes(&[ch.fri_challenges.fri_pow_response]);
                        post.extend(format!("{:?}", ch.fri_challenges.fri_query_indices).as_bytes());
                        sink.put(format!("pow:{name}/challenges.after_grinding"), &post);
                    }
                    Err(e) => sink.put_raw(format!("k:{name}/challenges.before_grinding"), format!("panic:{}", truncate(&e, 100))),
                }
                sink.put_raw(format!("k:{name}/own_verdict"), starkm::verify_def(&s.def, &s.cfg, (*p).clone()).class());
                sink.proofs.push((format!("{}.json", file_name(&name)), serde_json::to_vec(&tree).unwrap()));
            }
            starkm::ProveOutcome::Err(e) => sink.put_raw(format!("k:{name}/proved"), format!("err:{}", truncate(&e, 120))),
            starkm::ProveOutcome::Panic(e) => sink.put_raw(format!("k:{name}/proved"), format!("panic:{}", truncate(&e, 120))),
        }
    }
}

/// The subject. Returns the process exit code.
pub fn keygen(out_dir: &str) -> i32 {
    let mut sink = Sink::default();
    if let Err(p) = guarded(|| catalogue(&mut KeygenVisitor { sink: &mut sink })) {
        sink.put_raw("k:catalogue/panicked".into(), truncate(&p, 160));
    }
    math_digests(&mut sink);
    if let Err(p) = guarded(|| stark_digests(&mut sink)) {
        sink.put_raw("k:stark/panicked".into(), truncate(&p, 160));
    }
    // probe: iteration order of a hash set of gate ids under this build's hasher keys
    let mut probe: hashbrown::HashSet<String> = hashbrown::HashSet::new();
    for id in &sink.gate_ids {
        probe.insert(id.clone());
    }
    let order: Vec<usize> = probe.iter().map(|id| sink.gate_ids.iter().position(|x| x == id).unwrap()).collect();
    let threads = std::env::var("RAYON_NUM_THREADS").unwrap_or_default();
    let body = json!({
        "digests": sink.digests,
        "texts": sink.texts,
        "meta": {
            "variant": crate::variant_name(),
            "parallel": cfg!(feature = "par"),
            "rayon_num_threads": threads,
            "const_random_seed_at_build": option_env!("CONST_RANDOM_SEED"),
            "probe_size": sink.gate_ids.len(),
            "probe_order": format!("{order:?}"),
        },
    });
    let pd = format!("{out_dir}/proofs");
    if let Err(e) = std::fs::create_dir_all(&pd) {
        eprintln!("C19-keygen: cannot create {pd}: {e}");
        return 2;
    }
    for (f, b) in &sink.proofs {
        if let Err(e) = std::fs::write(format!("{pd}/{f}"), b) {
            eprintln!("C19-keygen: cannot write {f}: {e}");
            return 2;
        }
    }
    if let Err(e) = std::fs::write(format!("{out_dir}/digests.json"), serde_json::to_vec_pretty(&body).unwrap()) {
        eprintln!("C19-keygen: cannot write digests.json: {e}");
        return 2;
    }
    0
}

pub fn keygen_main(args: &[String]) -> i32 {
    match args.first() {
        Some(d) => keygen(d),
        None => {
            eprintln!("usage: mc C19-keygen <out_dir>");
            2
        }
    }
}

// ---------------------------------------------------------------------------------------------------------
// verifier side

struct VerifyVisitor<'a> {
    dirs: &'a [String],
    /// (dir, proof name, verdict)
    out: Vec<(String, String, String)>,
}

impl<'a> Visitor for VerifyVisitor<'a> {
    fn wants_inputs(&self) -> bool {
        false
    }
    fn failed(&mut self, name: &str, what: String) {
        for d in self.dirs {
            self.out.push((d.clone(), name.to_string(), format!("circuit-not-built:{what}")));
        }
    }
    fn circuit<Cfg: GenericConfig<D, F = F>>(
        &mut self,
        name: &str,
        _kind: ProofKind,
        data: &CircuitData<F, Cfg, D>,
        _pw: Option<PartialWitness<F>>,
        _gser: Option<&dyn WitnessGeneratorSerializer<F, D>>,
    ) {
        for d in self.dirs {
            let path = format!("{d}/{}.bin", file_name(name));
            let verdict = match std::fs::read(&path) {
                Err(_) => "missing".to_string(),
                Ok(bytes) => match guarded(|| ProofWithPublicInputs::<F, Cfg, D>::from_bytes(bytes.clone(), &data.common)) {
                    Err(p) => format!("decode-panic:{}", truncate(&p, 100)),
                    Ok(Err(e)) => format!("decode-error:{e:?}"),
                    Ok(Ok(proof)) => match guarded(|| data.verify(proof.clone())) {
                        Ok(Ok(())) => "accepted".to_string(),
                        Ok(Err(e)) => format!("rejected:{}", truncate(&format!("{e:#}"), 100)),
                        Err(p) => format!("panic:{}", truncate(&p, 100)),
                    },
                },
            };
            self.out.push((d.clone(), name.to_string(), verdict));
        }
    }
}

pub fn verify_dirs(dirs: &[String]) -> Vec<(String, String, String)> {
    let mut v = VerifyVisitor { dirs, out: Vec::new() };
    catalogue(&mut v);
    let mut out = v.out;
    for s in stark_subjects() {
        let name = format!("stark/{}", s.def.name);
        for d in dirs {
            let path = format!("{d}/{}.json", file_name(&name));
            let verdict = match std::fs::read(&path) {
                Err(_) => "missing".to_string(),
                Ok(bytes) => match serde_json::from_slice::<Value>(&bytes).map_err(|e| e.to_string()).and_then(|t| starkm::proof_from_json(&t)) {
                    Err(e) => format!("decode-error:{}", truncate(&e, 100)),
                    Ok(proof) => match starkm::verify_def(&s.def, &s.cfg, proof) {
                        starkm::Verdict::Accepted => "accepted".to_string(),
                        starkm::Verdict::Rejected(e) => format!("rejected:{}", truncate(&e, 100)),
                        starkm::Verdict::Panicked(e) => format!("panic:{}", truncate(&e, 100)),
                    },
                },
            };
            out.push((d.clone(), name.clone(), verdict));
        }
    }
    out
}

/// Rebuilds the catalogue and verifies every proof of `proofs_dir`: (proof name, accepted).
pub fn verify_dir(proofs_dir: &str) -> Vec<(String, bool)> {
    verify_dirs(&[proofs_dir.to_string()]).into_iter().map(|(_, n, v)| (n, v == "accepted")).collect()
}

/// `mc C19-verify <proofs_dir>...`: one line `dir \t name \t verdict` per proof.
pub fn verify_main(args: &[String]) -> i32 {
    let dirs: Vec<String> = args.iter().filter(|a| !a.starts_with("--")).cloned().collect();
    if dirs.is_empty() {
        eprintln!("usage: mc C19-verify <proofs_dir>...");
        return 2;
    }
    for (d, n, v) in verify_dirs(&dirs) {
        println!("{d}\t{n}\t{}", v.replace(['\t', '\n'], " "));
    }
    0
}

// ---------------------------------------------------------------------------------------------------------
// The driver

#[derive(Clone, Debug)]
struct Exec {
    /// `variant[@tN]#run`
    name: String,
    variant: String,
    bin: String,
    par: bool,
    threads: Option<usize>,
    no_aslr: bool,
    dir: String,
}

struct ExecResult {
    digests: BTreeMap<String, String>,
    texts: BTreeMap<String, String>,
    probe_order: String,
    seed_at_build: String,
}

fn is_par(variant: &str) -> bool {
    variant.starts_with("par")
}

/// Which dimension of the configuration space separates two executions.
fn dimension(a: &Exec, b: &Exec) -> &'static str {
    if a.variant == b.variant {
        if a.threads == b.threads {
            "process"
        } else {
            "threads"
        }
    } else if a.par != b.par {
        "par-vs-seq"
    } else if a.variant.starts_with("avx") || b.variant.starts_with("avx") {
        "simd"
    } else if a.variant.starts_with("checked") || b.variant.starts_with("checked") {
        "profile"
    } else {
        "seed"
    }
}

fn spawn(bin: &str, args: &[String], threads: Option<usize>, no_aslr: bool) -> Result<std::process::Output, String> {
    use std::os::unix::process::CommandExt;
    let mut c = std::process::Command::new(bin);
    c.args(args);
    c.env_remove("RAYON_NUM_THREADS");
    c.env_remove("VERIF_TIER");
    if let Some(t) = threads {
        c.env("RAYON_NUM_THREADS", t.to_string());
    }
    if no_aslr {
        unsafe {
            c.pre_exec(|| {
                // ADDR_NO_RANDOMIZE; failure (seccomp) leaves randomisation on, which is harmless
                libc::personality(0x0040000);
                Ok(())
            });
        }
    }
    c.output().map_err(|e| format!("cannot start {bin}: {e}"))
}

fn run_keygen(e: &Exec) -> Result<ExecResult, String> {
    let _ = std::fs::remove_dir_all(&e.dir);
    std::fs::create_dir_all(&e.dir).map_err(|x| format!("mkdir {}: {x}", e.dir))?;
    let out = spawn(&e.bin, &["C19-keygen".to_string(), e.dir.clone()], e.threads, e.no_aslr)?;
    if !out.status.success() {
        return Err(format!(
            "{} C19-keygen exited with {:?}: {}",
            e.bin,
            out.status,
            truncate(&String::from_utf8_lossy(&out.stderr), 400)
        ));
    }
    let body = std::fs::read_to_string(format!("{}/digests.json", e.dir)).map_err(|x| format!("{}: no digests.json: {x}", e.name))?;
    let v: Value = serde_json::from_str(&body).map_err(|x| format!("{}: digests.json: {x}", e.name))?;
    let map = |k: &str| -> BTreeMap<String, String> {
        v[k].as_object().map(|m| m.iter().map(|(a, b)| (a.clone(), b.as_str().unwrap_or("").to_string())).collect()).unwrap_or_default()
    };
    Ok(ExecResult {
        digests: map("digests"),
        texts: map("texts"),
        probe_order: v["meta"]["probe_order"].as_str().unwrap_or("").to_string(),
        seed_at_build: v["meta"]["const_random_seed_at_build"].as_str().unwrap_or("unset").to_string(),
    })
}

/// `k:<subject>/<artifact>` -> (prefix, subject, artifact)
fn split_key(k: &str) -> (&str, &str, &str) {
    let (pre, rest) = k.split_once(':').unwrap_or(("", k));
    if let Some(r) = rest.strip_prefix("math/") {
        let fam = r.split('/').next().unwrap_or("");
        return (pre, "math", fam);
    }
    match rest.rsplit_once('/') {
        Some((s, a)) => (pre, s, a),
        None => (pre, rest, ""),
    }
}

/// Position of an artifact in the order in which a build / proof computes things (a difference in an early
/// artifact explains the later ones).
fn causal_rank(artifact: &str) -> usize {
    const ORDER: [&str; 40] = [
        "built",
        "common.gates",
        "common.selectors_info",
        "common.numbers",
        "common.luts",
        "common.k_is",
        "prover.public_inputs",
        "prover.lookup_rows",
        "prover.lut_to_lookups",
        "prover.representative_map",
        "prover.sigmas",
        "prover.subgroup",
        "prover.fft_root_table",
        "prover.constants_sigmas.polynomials",
        "prover.constants_sigmas.leaves",
        "prover.constants_sigmas.digests",
        "vk.constants_sigmas_cap",
        "vk.circuit_digest",
        "prover.generators",
        "prover.generator_watch_lists",
        "prover.generator_indices_by_watches",
        "common.bytes",
        "vk.bytes",
        "prover.bytes",
        "witness",
        "proved",
        "proof.public_inputs",
        "proof.wires_cap",
        "proof.trace_cap",
        "proof.zs_partial_products_cap",
        "proof.auxiliary_polys_cap",
        "proof.quotient_polys_cap",
        "proof.openings",
        "proof.fri.commit_phase_caps",
        "proof.fri.final_poly",
        "challenges.before_grinding",
        "proof.fri.pow_witness",
        "challenges.after_grinding",
        "proof.fri.query_rounds",
        "proof.bytes",
    ];
    ORDER.iter().position(|a| *a == artifact).unwrap_or(ORDER.len())
}

fn work_root() -> String {
    match std::env::var("VERIF_OUT") {
        Ok(o) => format!("{o}/c19-work"),
        Err(_) => format!("{}/c19-work-{}", std::env::temp_dir().display(), std::process::id()),
    }
}

fn variant_section(ctx: &Ctx) {
    let spec = std::env::var("C19_VARIANT_BINS").unwrap_or_default();
    let bins: Vec<(String, String)> =
        spec.split(',').filter_map(|s| s.trim().split_once('=')).map(|(a, b)| (a.trim().to_string(), b.trim().to_string())).collect();
    if bins.len() < 2 {
        ctx.machinery_error("C19_VARIANT_BINS names fewer than two variant binaries (it is produced by tools/c19_variants.sh <tier>; ./check C19 sets it)");
        return;
    }
    for (n, p) in &bins {
        if !std::path::Path::new(p).is_file() {
            ctx.machinery_error(format!("variant binary {n}={p} does not exist"));
            return;
        }
    }
    let thorough = ctx.tier.thorough();
    let runs = 3usize;
    let pools: Vec<usize> = if thorough { vec![1, 2, 3, 4, 5, 6, 7, 8, 16] } else { vec![1, 3, 4] };
    let root = work_root();
    let mut execs: Vec<Exec> = Vec::new();
    for (variant, bin) in &bins {
        let par = is_par(variant);
        let configs: Vec<Option<usize>> = if par { pools.iter().map(|t| Some(*t)).collect() } else { vec![None] };
        for t in configs {
            let base = match t {
                Some(t) => format!("{variant}@t{t}"),
                None => variant.clone(),
            };
            for r in 0..runs {
                let name = format!("{base}#{r}");
                execs.push(Exec { dir: format!("{root}/{}", file_name(&name)), name, variant: variant.clone(), bin: bin.clone(), par, threads: t, no_aslr: false });
            }
            if !par {
                let name = format!("{base}#noaslr");
                execs.push(Exec { dir: format!("{root}/{}", file_name(&name)), name, variant: variant.clone(), bin: bin.clone(), par, threads: t, no_aslr: true });
            }
        }
    }
    // replay: only the executions the descriptor names
    if let Some(f) = &ctx.filter {
        if f.starts_with("sched ") {
            return;
        }
        let toks: Vec<&str> = f.split_whitespace().collect();
        execs.retain(|e| toks.iter().any(|t| *t == e.name));
    }
    ctx.count("executions", execs.len() as u64);
    let results: Vec<Result<ExecResult, String>> = par_map(execs.len(), |i| run_keygen(&execs[i]));
    let mut ok: Vec<(usize, &ExecResult)> = Vec::new();
    for (i, r) in results.iter().enumerate() {
        match r {
            Ok(r) => {
                ok.push((i, r));
                ctx.state(1);
            }
            Err(e) => ctx.machinery_error(format!("execution {}: {e}", execs[i].name)),
        }
    }
    if ok.is_empty() {
        return;
    }

    // vacuity guard: the seed variants must really iterate differently
    let mut orders_seed: BTreeSet<&str> = BTreeSet::new();
    let mut orders_all: BTreeSet<&str> = BTreeSet::new();
    let mut per_variant: BTreeMap<String, String> = BTreeMap::new();
    for (i, r) in &ok {
        let e = &execs[*i];
        orders_all.insert(&r.probe_order);
        if !e.par && !e.variant.starts_with("avx") && !e.variant.starts_with("checked") {
            orders_seed.insert(&r.probe_order);
        }
        per_variant.insert(e.variant.clone(), format!("CONST_RANDOM_SEED={} order={}", r.seed_at_build, r.probe_order));
    }
    ctx.count("distinct_hash_iteration_orders_seed_variants", orders_seed.len() as u64);
    ctx.count("distinct_hash_iteration_orders_all_variants", orders_all.len() as u64);
    if ctx.filter.is_none() && orders_seed.len() < 2 {
        ctx.machinery_error(format!("vacuous: the seed variants produced {} distinct hash iteration order(s): {per_variant:?}", orders_seed.len()));
    }
    ctx.sample(json!({"probe_iteration_orders": per_variant}));

    // every pair of executions, every key
    let mut reported: BTreeSet<(String, String)> = BTreeSet::new();
    let mut pow_differs = 0u64;
    let mut pairs = 0u64;
    for x in 0..ok.len() {
        for y in x + 1..ok.len() {
            let (ia, ra) = ok[x];
            let (ib, rb) = ok[y];
            let (ea, eb) = (&execs[ia], &execs[ib]);
            let dim = dimension(ea, eb);
            let any_par = ea.par || eb.par;
            let mut compared = 0u64;
            let mut differing: Vec<&String> = Vec::new();
            let keys: BTreeSet<&String> = ra.digests.keys().chain(rb.digests.keys()).collect();
            for k in keys {
                let (pre, _, _) = split_key(k);
                let exempt = any_par && (pre == "pow" || pre == "zk");
                let (va, vb) = (ra.digests.get(k), rb.digests.get(k));
                if exempt {
                    if pre == "pow" && k.ends_with("pow_witness") && va != vb {
                        pow_differs += 1;
                    }
                    continue;
                }
                compared += 1;
                if va != vb {
                    differing.push(k);
                }
            }
            ctx.transition(compared);
            ctx.tick(compared);
            pairs += 1;
            ctx.trace(1);
            ctx.class(format!("pair:{dim}:{}", if differing.is_empty() { "identical" } else { "DIFFERENT" }));
            // one report per (dimension, subject): the earliest differing artifact in causal order is the site,
            // everything downstream of it is listed in the detail
            let mut by_subject: BTreeMap<&str, Vec<&String>> = BTreeMap::new();
            for k in &differing {
                by_subject.entry(split_key(k).1).or_default().push(*k);
            }
            for (subject, mut ks) in by_subject {
                ks.sort_by_key(|k| causal_rank(split_key(k).2));
                let k = ks[0];
                let (pre, _, artifact) = split_key(k);
                let site = format!("digest/{dim}/{pre}:{artifact}");
                if !reported.insert((dim.to_string(), subject.to_string())) {
                    continue;
                }
                let case = format!("cmp {k} {} {}", ea.name, eb.name);
                if !ctx.want(&case) {
                    continue;
                }
                let show = |r: &ExecResult| match r.texts.get(k) {
                    Some(t) => format!("{} = {}", r.digests.get(k).cloned().unwrap_or_else(|| "<absent>".into()), truncate(t, 700)),
                    None => r.digests.get(k).cloned().unwrap_or_else(|| "<absent>".into()),
                };
                let all: Vec<&str> = ks.iter().map(|d| split_key(d).2).collect();
                ctx.violation(
                    site,
                    case,
                    format!(
                        "{k} differs between executions {} and {} (dimension {dim}). {}: {} || {}: {}. All differing artifacts of `{subject}` in causal order: {:?}. Hash iteration orders: {} vs {}",
                        ea.name,
                        eb.name,
                        ea.name,
                        show(ra),
                        eb.name,
                        show(rb),
                        all,
                        ra.probe_order,
                        rb.probe_order
                    ),
                );
            }
        }
    }
    ctx.count("execution_pairs_compared", pairs);
    ctx.count("par_pairs_with_different_pow_witness", pow_differs);
    ctx.count("digests_per_execution", ok[0].1.digests.len() as u64);
    if let Some((i, r)) = ok.first() {
        let mut it = r.digests.iter().filter(|(k, _)| k.contains("arith_range@std/"));
        let some: Vec<(&String, &String)> = it.by_ref().take(4).collect();
        ctx.sample(json!({"execution": execs[*i].name, "digests": some}));
    }

    // acceptance matrix: every variant (par: smallest and largest pool) verifies the proofs of every execution
    let mut verifiers: Vec<(String, String, Option<usize>)> = Vec::new();
    for (variant, bin) in &bins {
        if is_par(variant) {
            for t in [pools[0], *pools.last().unwrap()] {
                verifiers.push((format!("{variant}@t{t}"), bin.clone(), Some(t)));
            }
        } else {
            verifiers.push((variant.clone(), bin.clone(), None));
        }
    }
    if let Some(f) = &ctx.filter {
        if f.starts_with("verify ") {
            let want = f.split_whitespace().nth(1).unwrap_or("").to_string();
            verifiers.retain(|v| v.0 == want);
        } else {
            verifiers.clear();
        }
    }
    let producer_dirs: Vec<(String, String)> = ok.iter().map(|(i, _)| (format!("{}/proofs", execs[*i].dir), execs[*i].name.clone())).collect();
    let expected_proofs = ok[0].1.digests.keys().filter(|k| k.ends_with("/proved")).count();
    let outs: Vec<Result<String, String>> = par_map(verifiers.len(), |i| {
        let (_, bin, t) = &verifiers[i];
        let mut args = vec!["C19-verify".to_string()];
        args.extend(producer_dirs.iter().map(|d| d.0.clone()));
        let o = spawn(bin, &args, *t, false)?;
        if !o.status.success() {
            return Err(format!("exit {:?}: {}", o.status, truncate(&String::from_utf8_lossy(&o.stderr), 300)));
        }
        Ok(String::from_utf8_lossy(&o.stdout).to_string())
    });
    let mut accepted = 0u64;
    for (vi, o) in outs.iter().enumerate() {
        let vname = &verifiers[vi].0;
        let text = match o {
            Ok(t) => t,
            Err(e) => {
                ctx.machinery_error(format!("verifier {vname}: {e}"));
                continue;
            }
        };
        ctx.state(1);
        let mut seen = 0usize;
        for line in text.lines() {
            let parts: Vec<&str> = line.splitn(3, '\t').collect();
            if parts.len() != 3 {
                continue;
            }
            let producer = producer_dirs.iter().find(|d| d.0 == parts[0]).map(|d| d.1.clone()).unwrap_or_else(|| parts[0].to_string());
            let case = format!("verify {vname} {producer} {}", parts[1]);
            if !ctx.want(&case) {
                continue;
            }
            seen += 1;
            ctx.tick(1);
            ctx.transition(1);
            // no proof file because the producer's prover failed: nothing to accept (a prover that fails in one
            // variant only is reported by the digest comparison of the `proved` key)
            let produced = ok.iter().find(|(i, _)| execs[*i].name == producer).map(|(_, r)| r.digests.get(&format!("k:{}/proved", parts[1])).map(|v| v == "ok").unwrap_or(false)).unwrap_or(true);
            if parts[2] == "missing" && !produced {
                ctx.class("accept:no-proof-produced");
                continue;
            }
            if parts[2] == "accepted" {
                accepted += 1;
                ctx.class(format!("accept:{}", if verifiers[vi].0.split('@').next() == producer.split(['@', '#']).next() { "own-variant" } else { "cross-variant" }));
            } else {
                let pv = producer.split(['@', '#']).next().unwrap_or("").to_string();
                let vv = vname.split('@').next().unwrap_or("").to_string();
                ctx.violation(
                    format!("accept/{}/{}", if pv == vv { "same-variant" } else { "cross-variant" }, parts[2].split(':').next().unwrap_or("")),
                    case,
                    format!("proof `{}` written by execution {producer} is not accepted by variant {vname}: {}", parts[1], parts[2]),
                );
            }
        }
        if ctx.filter.is_none() && seen != expected_proofs * producer_dirs.len() {
            ctx.machinery_error(format!("verifier {vname} reported {seen} verdicts, expected {} proofs x {} executions", expected_proofs, producer_dirs.len()));
        }
    }
    ctx.count("acceptance_matrix_verdicts_accepted", accepted);
    ctx.count("acceptance_matrix_verifiers", verifiers.len() as u64);
    ctx.count("proofs_per_execution", expected_proofs as u64);
    ctx.sample(json!({"acceptance_matrix": {"verifiers": verifiers.iter().map(|v| v.0.clone()).collect::<Vec<_>>(), "producers": producer_dirs.len(), "proofs_each": expected_proofs, "accepted": accepted}}));
    if std::env::var("C19_KEEP").is_err() {
        let _ = std::fs::remove_dir_all(&root);
    }
}

// ---------------------------------------------------------------------------------------------------------
// Fork-join orders inside this process (sequential `join` with the chooser hook)

fn sched_programs() -> Vec<(Program, Vec<u64>, bool)> {
    use Op::*;
    vec![
        (Program::new("tiny_arith", vec![Ty::B, Ty::B], vec![MulAdd(0, 1, 0), AddConst(2, 77), IsEqual(0, 1)]), vec![5, 9], false),
        (
            {
                let mut p = Program::new("tiny_lookup", vec![Ty::B, Ty::B], vec![Lookup(0, 0), Lookup(1, 0), Add(2, 3)]);
                p.tables = vec![(0..8).map(|i| (i, (i + 3) % 8)).collect()];
                p
            },
            vec![2, 5],
            true,
        ),
    ]
}

/// Complete build + prove under the installed chooser; digests of keys and proof.
fn sched_build_prove<Cfg: GenericConfig<D, F = F>>(prog: &Program, iv: &[u64], cfg: &CircuitConfig) -> Result<Vec<(String, String)>, String> {
    // every circuit has RandomValueGenerators (unused public-input-gate wires): same stream for every schedule
    plonky2_field::verif_hooks::set_seed(Some(ZK_SEED));
    let r = guarded(|| {
        let b = build_program::<Cfg>(prog, cfg);
        let proof = b.data.prove(inputs_pw(&b, iv)).map_err(|e| format!("prove: {e:#}"))?;
        let mut out = Vec::new();
        out.push(("vk.bytes".to_string(), dig(&b.data.verifier_only.to_bytes().map_err(|e| format!("{e:?}"))?)));
        out.push(("common.bytes".to_string(), dig(&b.data.common.to_bytes(&DefaultGateSerializer).map_err(|e| format!("{e:?}"))?)));
        let cs = &b.data.prover_only.constants_sigmas_commitment;
        out.push(("prover.constants_sigmas.digests".to_string(), dig(&cs.merkle_tree.digests.iter().flat_map(|d| d.to_bytes()).collect::<Vec<u8>>())));
        out.push(("prover.sigmas".to_string(), dig(&b.data.prover_only.sigmas.iter().flat_map(|r| fbytes(r)).collect::<Vec<u8>>())));
        out.push(("proof.bytes".to_string(), dig(&proof.to_bytes())));
        let verdict = match b.data.verify(proof) {
            Ok(()) => "accepted".to_string(),
            Err(e) => format!("rejected:{e:#}"),
        };
        out.push(("own_verdict".to_string(), verdict));
        Ok::<_, String>(out)
    });
    plonky2_field::verif_hooks::set_seed(None);
    match r {
        Ok(r) => r,
        Err(p) => Err(format!("panic: {p}")),
    }
}

/// Runs `f` with a chooser answering "right closure first" exactly at the join indices in `flips`.
fn with_flips<T>(flips: &[usize], f: impl FnOnce() -> T) -> (T, usize) {
    let asked = Rc::new(Cell::new(0usize));
    let a2 = asked.clone();
    let fl: Rc<RefCell<Vec<usize>>> = Rc::new(RefCell::new(flips.to_vec()));
    set_chooser(Some(Box::new(move || {
        let k = a2.get();
        a2.set(k + 1);
        fl.borrow().contains(&k)
    })));
    let r = f();
    set_chooser(None);
    (r, asked.get())
}

fn sched_section(ctx: &Ctx) {
    if let Some(f) = &ctx.filter {
        if !f.starts_with("sched ") {
            return;
        }
    }
    let bound = if ctx.tier.thorough() { usize::MAX } else { 40 };
    for (prog, iv, keccak) in sched_programs() {
        // cap height = tree height - 2 for the 2^(degree_bits + rate_bits) leaves of the four oracles
        let probe = build_program::<PC>(&prog, &cfg_small(2, 3));
        let h = probe.data.common.degree_bits() + probe.data.common.config.fri_config.rate_bits;
        let mut cfg = cfg_small(2, 3);
        cfg.fri_config.cap_height = h - 2;
        cfg.fri_config.reduction_strategy = plonky2::fri::reduction_strategies::FriReductionStrategy::Fixed(vec![1, 1]);
        fix_security(&mut cfg);
        let run = |flips: &[usize]| -> (Result<Vec<(String, String)>, String>, usize) {
            with_flips(flips, || if keccak { sched_build_prove::<KC>(&prog, &iv, &cfg) } else { sched_build_prove::<PC>(&prog, &iv, &cfg) })
        };
        let (reference, joins) = run(&[]);
        let reference = match reference {
            Ok(r) => r,
            Err(e) => {
                ctx.machinery_error(format!("sched {}: default schedule fails: {e}", prog.name));
                continue;
            }
        };
        if joins == 0 {
            ctx.machinery_error(format!("sched {}: no join was executed (verif_sched feature missing?)", prog.name));
            continue;
        }
        // deviation window: every join (thorough, or when there are few), else `bound` join indices spread
        // evenly over the whole build + prove (first and last included) so that every tree is touched
        let window: Vec<usize> = if joins <= bound {
            (0..joins).collect()
        } else {
            let mut w: Vec<usize> = (0..bound).map(|i| i * (joins - 1) / (bound - 1)).collect();
            w.dedup();
            w
        };
        let n = window.len();
        if n < joins {
            ctx.note(format!("sched {}: {} joins in build + prove, deviations explored at {} join indices spread evenly over them", prog.name, joins, n));
        }
        let mut schedules: Vec<Vec<usize>> = vec![vec![]];
        for i in 0..n {
            schedules.push(vec![window[i]]);
        }
        for i in 0..n {
            for j in i + 1..n {
                schedules.push(vec![window[i], window[j]]);
            }
        }
        // replay: exactly the schedule the descriptor names (any join indices)
        if let Some(f) = &ctx.filter {
            let toks: Vec<&str> = f.split_whitespace().collect();
            if toks.get(1) != Some(&prog.name.as_str()) {
                continue;
            }
            let flips: Vec<usize> = toks.get(2).map(|l| l.split(',').filter_map(|x| x.parse().ok()).collect()).unwrap_or_default();
            schedules = vec![flips];
        }
        ctx.count(&format!("sched_joins_{}", prog.name), joins as u64);
        ctx.count("schedules", schedules.len() as u64);
        par_for(schedules.len(), |si| {
            let flips = &schedules[si];
            let case = format!("sched {} {}", prog.name, flips.iter().map(|x| x.to_string()).collect::<Vec<_>>().join(","));
            if !ctx.want(&case) {
                return;
            }
            ctx.state(1);
            ctx.case(&format!("sched/{}", prog.name), &case, || {
                let (r, asked) = run(flips);
                ctx.transition(asked as u64);
                let r = r.map_err(|e| format!("right-first at joins {flips:?}: {e} (default order succeeds)"))?;
                if asked != joins {
                    return Err(format!("right-first at joins {flips:?}: {asked} joins executed, {joins} under the default order"));
                }
                let diff: Vec<&str> = r.iter().zip(&reference).filter(|(a, b)| a != b).map(|(a, _)| a.0.as_str()).collect();
                if !diff.is_empty() {
                    return Err(format!("right-first at joins {flips:?} of {joins}: {diff:?} differ from the default (left-first) order"));
                }
                ctx.trace(1);
                Ok(format!("sched:{}:{}-right-first:identical", prog.name, flips.len()))
            });
        });
        ctx.sample(json!({"sched": prog.name, "config": if keccak { "keccak" } else { "poseidon" }, "joins_in_build_and_prove": joins, "deviation_window": n, "schedules": schedules.len(), "reference": reference}));
    }
}

pub fn run(ctx: &Ctx) -> i32 {
    let thorough = ctx.tier.thorough();
    variant_section(ctx);
    sched_section(ctx);
    let rule = format!(
        "configuration enumeration: every variant binary of C19_VARIANT_BINS x 3 fresh processes (+1 with address randomisation off for sequential variants), `par` variants x RAYON_NUM_THREADS in {} x 3 processes; every key of digests.json compared for EVERY pair of executions (pow:/zk: keys exempt when a `par` execution is involved); acceptance matrix: every variant verifies all proofs of every execution. Catalogue: 7 subject programs @std, 6 configuration deviations, 2 Keccak-config circuits, 2 zero-knowledge circuits (seeded), recursion outer circuit; FFT/IFFT/coset/LDE 2^0..2^12, batch kernels len 0..=40, packed field ops over R x R, Poseidon/Keccak, Merkle trees 2^0..2^8 x cap x width, polynomial batches; 3 STARKs (incl. lookup). Fork-join: all schedules with <= 2 right-first answers among {} of a complete build + prove of 2 tiny circuits (Poseidon and Keccak configuration, cap height = tree height - 2)",
        if thorough { "{1,2,3,4,8,16}" } else { "{1,4}" },
        if thorough { "ALL joins" } else { "40 join indices spread evenly over all joins" },
    );
    ctx.finish(Finish {
        level: "model_checking",
        rule: &rule,
        exhaustive: true,
        assumptions: vec![
            "hash seeds are a proxy for iteration orders: the orders actually observed are reported (counters distinct_hash_iteration_orders_*), not all k! orders are forced".into(),
            "interleavings inside rayon are not explored: `par` pool sizes are a configuration sweep; fork-join orders are task-level orders of the sequential join".into(),
            "digests are FNV-128 of canonical encodings (non-cryptographic)".into(),
            "states = executions (variant, pool size, run) + schedules; transitions = digests compared + join decisions + acceptance verdicts; traces = execution pairs compared + schedules identical to the reference".into(),
        ],
        extra: json!({}),
    })
}
