//! C03 — accepted proofs are bound to each of their elements and to their circuit.
//!
//! Fault enumeration over EVERY element position of accepted proofs: each numeric leaf of the
//! serde tree (caps, openings, every query round's leaves, salts, siblings, coset evaluations,
//! commit-phase caps, final polynomial, pow witness, public inputs) x value mutations, every list
//! node x {drop last, empty, duplicate last, swap, append}, the same for the compressed form (whose
//! `indices` list must NOT influence the verdict), every other circuit's verifier data / common
//! data, and - to remove Fiat-Shamir re-randomisation, which would mask a missing algebraic check -
//! every FRI-part and openings edit re-checked under FIXED challenges through `verify_fri_proof`.

use plonky2::fri::structure::{FriOpeningBatch, FriOpenings};
use plonky2::fri::verifier::verify_fri_proof;
use plonky2::plonk::circuit_data::{CircuitConfig, CircuitData, VerifierCircuitData};
use plonky2::plonk::config::GenericConfig;
use plonky2::plonk::proof::{CompressedProofWithPublicInputs, OpeningSet, ProofWithPublicInputs};
use serde_json::{json, Value};

use crate::c02::subject_programs;
use crate::core::*;
use crate::plonkm::*;
use crate::tamper::*;

pub struct Accepted<Cfg: GenericConfig<D, F = F>> {
    pub name: String,
    pub data: CircuitData<F, Cfg, D>,
    pub proof: ProofWithPublicInputs<F, Cfg, D>,
    pub json: Value,
    pub cjson: Value,
}

pub fn floor_config(queries: usize) -> CircuitConfig {
    let mut c = cfg_small(queries, 6);
    c.fri_config.cap_height = 2;
    // several reduction steps even on 2^3-row circuits, so that every query has commit-phase layers
    c.fri_config.reduction_strategy = plonky2::fri::reduction_strategies::FriReductionStrategy::ConstantArityBits(1, 1);
    c
}

pub fn make_accepted<Cfg: GenericConfig<D, F = F>>(ctx: &Ctx, name: &str, prog: &Program, iv: &[u64], cfg: &CircuitConfig, seed: u64) -> Option<Accepted<Cfg>> {
    let built = match guarded(|| build_program::<Cfg>(prog, cfg)) {
        Ok(b) => b,
        Err(p) => {
            ctx.machinery_error(format!("{name}: build failed: {p}"));
            return None;
        }
    };
    plonky2_field::verif_hooks::set_seed(Some(seed));
    let proof = guarded(|| built.data.prove(inputs_pw(&built, iv)));
    plonky2_field::verif_hooks::set_seed(None);
    let proof = match proof {
        Ok(Ok(p)) => p,
        other => {
            ctx.machinery_error(format!("{name}: honest prove failed: {:?}", other.map(|r| r.map(|_| ()).map_err(|e| e.to_string()))));
            return None;
        }
    };
    if !matches!(guarded(|| built.data.verify(proof.clone())), Ok(Ok(()))) {
        ctx.violation("honest-proof-rejected", format!("{name} honest"), "the honest proof is rejected");
        return None;
    }
    // verdict floor
    let q = cfg.fri_config.num_query_rounds;
    let lde_bits = built.data.common.degree_bits() + cfg.fri_config.rate_bits;
    if q * lde_bits < 40 {
        ctx.machinery_error(format!("{name}: configuration below the verdict floor (q={q}, lde_bits={lde_bits})"));
        return None;
    }
    let json = serde_json::to_value(&proof).expect("proof to json");
    let comp = proof.clone().compress(&built.data.verifier_only.circuit_digest, &built.data.common).expect("compress");
    let cjson = serde_json::to_value(&comp).expect("compressed proof to json");
    Some(Accepted { name: name.to_string(), data: built.data, proof, json, cjson })
}

pub fn verdict<Cfg: GenericConfig<D, F = F>>(data: &CircuitData<F, Cfg, D>, v: Value) -> &'static str {
    match serde_json::from_value::<ProofWithPublicInputs<F, Cfg, D>>(v) {
        Err(_) => "not-constructible",
        Ok(p) => match guarded(|| data.verify(p)) {
            Ok(Ok(())) => "accepted",
            Ok(Err(_)) => "rejected",
            Err(_) => "panic",
        },
    }
}

pub fn verdict_compressed<Cfg: GenericConfig<D, F = F>>(data: &CircuitData<F, Cfg, D>, v: Value) -> &'static str {
    match serde_json::from_value::<CompressedProofWithPublicInputs<F, Cfg, D>>(v) {
        Err(_) => "not-constructible",
        Ok(p) => match guarded(|| data.verify_compressed(p)) {
            Ok(Ok(())) => "accepted",
            Ok(Err(_)) => "rejected",
            Err(_) => "panic",
        },
    }
}

pub fn fri_openings_of(o: &OpeningSet<F, D>) -> FriOpenings<F, D> {
    let mut zeta: Vec<FE> = Vec::new();
    for part in [&o.constants, &o.plonk_sigmas, &o.wires, &o.plonk_zs, &o.partial_products, &o.quotient_polys, &o.lookup_zs] {
        zeta.extend(part.iter().cloned());
    }
    let mut next: Vec<FE> = o.plonk_zs_next.clone();
    next.extend(o.lookup_zs_next.iter().cloned());
    FriOpenings { batches: vec![FriOpeningBatch { values: zeta }, FriOpeningBatch { values: next }] }
}

/// Verdict of the FRI part under the HONEST proof's challenges (no Fiat-Shamir re-derivation).
pub fn verdict_fixed<Cfg: GenericConfig<D, F = F>>(a: &Accepted<Cfg>, v: Value) -> &'static str {
    let p = match serde_json::from_value::<ProofWithPublicInputs<F, Cfg, D>>(v) {
        Err(_) => return "not-constructible",
        Ok(p) => p,
    };
    let ch = match a.proof.get_challenges(a.proof.get_public_inputs_hash(), &a.data.verifier_only.circuit_digest, &a.data.common) {
        Ok(c) => c,
        Err(_) => return "machinery",
    };
    let r = guarded(|| {
        let instance = plonky2::verif_hooks::get_fri_instance(&a.data.common, ch.plonk_zeta);
        let caps = [
            a.data.verifier_only.constants_sigmas_cap.clone(),
            p.proof.wires_cap.clone(),
            p.proof.plonk_zs_partial_products_cap.clone(),
            p.proof.quotient_polys_cap.clone(),
        ];
        verify_fri_proof::<F, Cfg, D>(&instance, &fri_openings_of(&p.proof.openings), &ch.fri_challenges, &caps, &p.proof.opening_proof, &a.data.common.fri_params)
    });
    match r {
        Ok(Ok(())) => "accepted",
        Ok(Err(_)) => "rejected",
        Err(_) => "panic",
    }
}

fn run_subject<Cfg: GenericConfig<D, F = F>>(ctx: &Ctx, a: &Accepted<Cfg>, leaf_muts: &[LeafMut], thorough: bool) {
    let sh = shape(&a.json);
    ctx.count("proof_leaves", sh.leaves.len() as u64);
    ctx.count("proof_list_nodes", sh.arrays.len() as u64);
    let name = &a.name;
    // (i) every leaf x value mutation, full verification
    let leaf_cases: Vec<(usize, LeafMut)> = (0..sh.leaves.len()).flat_map(|i| leaf_muts.iter().map(move |m| (i, *m))).collect();
    par_for_chunk(leaf_cases.len(), 16, |k| {
        let (li, m) = leaf_cases[k];
        let path = &sh.leaves[li];
        let case = format!("{name} leaf {} {:?}", path_str(path), m);
        let kind = path_kind(path);
        ctx.case("proof-leaf", &case, || {
            let Some((t, changed)) = mutate_leaf(&a.json, path, m) else { return Ok(String::new()) };
            let v = verdict(&a.data, t);
            if changed {
                if v == "accepted" {
                    return Err(format!("proof with {} changed ({:?}) is still ACCEPTED", path_str(path), m));
                }
                Ok(format!("leaf:{kind}:{v}"))
            } else {
                // same field element in another representation: recorded, no verdict demanded
                Ok(format!("alias:{kind}:{v}"))
            }
        });
    });
    // every list node x structural mutation
    let arr_muts = [ArrMut::DropLast, ArrMut::Empty, ArrMut::DupLast, ArrMut::SwapFirstTwo, ArrMut::AppendFirst, ArrMut::AppendZero];
    let arr_cases: Vec<(usize, ArrMut)> = (0..sh.arrays.len()).flat_map(|i| arr_muts.iter().map(move |m| (i, *m))).collect();
    par_for_chunk(arr_cases.len(), 16, |k| {
        let (ai, m) = arr_cases[k];
        let path = &sh.arrays[ai];
        let case = format!("{name} list {} {:?}", path_str(path), m);
        let kind = path_kind(path);
        ctx.case(&format!("proof-list:{kind}:{:?}", m), &case, || {
            let Some(t) = mutate_array(&a.json, path, m) else { return Ok(String::new()) };
            // swapping two equal-valued nodes is filtered by mutate_array; a swap of two field
            // elements that are equal mod p cannot occur in an honest proof tree
            let v = verdict(&a.data, t);
            if v == "accepted" {
                return Err(format!("proof with list {} mutated ({:?}) is still ACCEPTED", path_str(path), m));
            }
            Ok(format!("list:{kind}:{:?}:{v}", m))
        });
    });
    // (ii) fixed challenges: FRI part and openings, every leaf
    let honest_fixed = verdict_fixed(a, a.json.clone());
    if honest_fixed != "accepted" {
        ctx.machinery_error(format!("{name}: honest proof not accepted by verify_fri_proof under its own challenges: {honest_fixed}"));
        return;
    }
    let fixed_leaves: Vec<usize> = (0..sh.leaves.len())
        .filter(|i| {
            let p = path_str(&sh.leaves[*i]);
            p.starts_with(".proof.opening_proof") || p.starts_with(".proof.openings") || p.ends_with("_cap") || p.contains("_cap[")
        })
        .collect();
    // Under fixed challenges a cap entry is read only if some query lands in its subtree (in the
    // full protocol the whole cap is bound through Fiat-Shamir, which pass (i) covers).
    let hit_caps: std::collections::BTreeSet<usize> = {
        let ch = a.proof.get_challenges(a.proof.get_public_inputs_hash(), &a.data.verifier_only.circuit_digest, &a.data.common).unwrap();
        let lde_bits = a.data.common.degree_bits() + a.data.common.config.fri_config.rate_bits;
        let cap_h = a.data.common.config.fri_config.cap_height;
        ch.fri_challenges.fri_query_indices.iter().map(|x| x >> (lde_bits - cap_h)).collect()
    };
    let cap_entry_of = |p: &Path| -> Option<usize> {
        // ..._cap[e]... or ...commit_phase_merkle_caps[i][e]...
        for (i, el) in p.iter().enumerate() {
            if let PathElem::Key(k) = el {
                if k.ends_with("_cap") {
                    if let Some(PathElem::Idx(e)) = p.get(i + 1) {
                        return Some(*e);
                    }
                }
                if k == "commit_phase_merkle_caps" {
                    if let Some(PathElem::Idx(e)) = p.get(i + 2) {
                        return Some(*e);
                    }
                }
            }
        }
        None
    };
    par_for_chunk(fixed_leaves.len(), 16, |k| {
        let path = &sh.leaves[fixed_leaves[k]];
        let case = format!("{name} fixed-challenges leaf {} Add1", path_str(path));
        let kind = path_kind(path);
        ctx.case("fixed-challenges-leaf", &case, || {
            let Some((t, _)) = mutate_leaf(&a.json, path, LeafMut::Add1) else { return Ok(String::new()) };
            let v = verdict_fixed(a, t);
            if v == "not-constructible" {
                return Ok("fixed:not-constructible".into()); // e.g. a Keccak digest byte 255 + 1
            }
            let is_pow = path_str(path).ends_with("pow_witness");
            ctx.trace(1);
            if is_pow {
                // under fixed challenges the witness is not an input of the verification
                if v != "accepted" {
                    return Err(format!("pow_witness edit changed the fixed-challenge verdict to {v}"));
                }
                return Ok("fixed:pow_witness:accepted".into());
            }
            if let Some(e) = cap_entry_of(path) {
                if !hit_caps.contains(&e) {
                    if v != "accepted" {
                        return Err(format!("editing cap entry {e}, which no query reads, changed the fixed-challenge verdict to {v}"));
                    }
                    return Ok("fixed:cap-entry-not-queried:accepted".into());
                }
            }
            if v == "accepted" {
                return Err(format!("FRI verification under fixed challenges ACCEPTS a proof with {} changed: this element is not bound by any check", path_str(path)));
            }
            Ok(format!("fixed:{kind}:{v}"))
        });
    });
    if thorough {
        let fixed_arrays: Vec<usize> = (0..sh.arrays.len()).filter(|i| path_str(&sh.arrays[*i]).starts_with(".proof.opening_proof")).collect();
        let cases: Vec<(usize, ArrMut)> = fixed_arrays.iter().flat_map(|i| arr_muts.iter().map(move |m| (*i, *m))).collect();
        par_for_chunk(cases.len(), 16, |k| {
            let (ai, m) = cases[k];
            let path = &sh.arrays[ai];
            let case = format!("{name} fixed-challenges list {} {:?}", path_str(path), m);
            ctx.case(&format!("fixed-challenges-list:{}:{:?}", path_kind(path), m), &case, || {
                let Some(t) = mutate_array(&a.json, path, m) else { return Ok(String::new()) };
                let v = verdict_fixed(a, t);
                // a swap inside / between cap entries that no query reads changes nothing that the
                // fixed-challenge verification looks at (the full protocol binds them through Fiat-Shamir)
                if m == ArrMut::SwapFirstTwo && path_str(path).contains("commit_phase_merkle_caps[") {
                    let untouched = match cap_entry_of(path) {
                        Some(e) => !hit_caps.contains(&e),
                        None => !hit_caps.contains(&0) && !hit_caps.contains(&1), // swapping entries 0 and 1
                    };
                    if untouched {
                        return Ok("fixed-list:cap-entries-not-queried".into());
                    }
                }
                if v == "accepted" {
                    return Err(format!("FRI verification under fixed challenges ACCEPTS list mutation {:?} at {}", m, path_str(path)));
                }
                Ok(format!("fixed-list:{}:{v}", path_kind(path)))
            });
        });
    }
    // compressed form
    let csh = shape(&a.cjson);
    ctx.count("compressed_leaves", csh.leaves.len() as u64);
    if verdict_compressed(&a.data, a.cjson.clone()) != "accepted" {
        ctx.violation("honest-compressed-rejected", format!("{name} compressed honest"), "verify_compressed rejects the compression of an accepted proof");
        return;
    }
    let cleaf_cases: Vec<(usize, LeafMut)> = (0..csh.leaves.len()).flat_map(|i| leaf_muts.iter().map(move |m| (i, *m))).collect();
    par_for_chunk(cleaf_cases.len(), 16, |k| {
        let (li, m) = cleaf_cases[k];
        let path = &csh.leaves[li];
        let case = format!("{name} compressed leaf {} {:?}", path_str(path), m);
        let kind = path_kind(path);
        ctx.case("compressed-leaf", &case, || {
            let Some((t, changed)) = mutate_leaf(&a.cjson, path, m) else { return Ok(String::new()) };
            let v = verdict_compressed(&a.data, t);
            if path_str(path).contains(".indices") {
                if v != "accepted" {
                    return Err(format!("editing the redundant index list {} changed the verdict to {v}", path_str(path)));
                }
                return Ok("compressed:indices:accepted".into());
            }
            if changed && v == "accepted" {
                return Err(format!("compressed proof with {} changed ({:?}) is still ACCEPTED", path_str(path), m));
            }
            Ok(format!("compressed-{}:{kind}:{v}", if changed { "leaf" } else { "alias" }))
        });
    });
    let carr_cases: Vec<(usize, ArrMut)> = (0..csh.arrays.len()).flat_map(|i| arr_muts.iter().map(move |m| (i, *m))).collect();
    par_for_chunk(carr_cases.len(), 16, |k| {
        let (ai, m) = carr_cases[k];
        let path = &csh.arrays[ai];
        let case = format!("{name} compressed list {} {:?}", path_str(path), m);
        ctx.case(&format!("compressed-list:{}:{:?}", path_kind(path), m), &case, || {
            let Some(t) = mutate_array(&a.cjson, path, m) else { return Ok(String::new()) };
            let v = verdict_compressed(&a.data, t);
            if path_str(path).ends_with(".indices") {
                // verification recomputes the indices and never reads this list
                if v != "accepted" {
                    return Err(format!("mutating the redundant index list ({:?}) changed the verdict to {v}", m));
                }
                return Ok("compressed-list:indices:accepted".into());
            }
            if v == "accepted" {
                return Err(format!("compressed proof with list {} mutated ({:?}) is still ACCEPTED", path_str(path), m));
            }
            Ok(format!("compressed-list:{}:{:?}:{v}", path_kind(path), m))
        });
    });
    let map_muts = [MapMut::RemoveFirst, MapMut::ShiftFirstKey, MapMut::AddKey];
    let cmap_cases: Vec<(usize, MapMut)> = (0..csh.maps.len()).flat_map(|i| map_muts.iter().map(move |m| (i, *m))).collect();
    par_for_chunk(cmap_cases.len(), 4, |k| {
        let (mi, m) = cmap_cases[k];
        let path = &csh.maps[mi];
        let case = format!("{name} compressed map {} {:?}", path_str(path), m);
        ctx.case(&format!("compressed-map:{}:{:?}", path_kind(path), m), &case, || {
            let Some(t) = mutate_map(&a.cjson, path, m) else { return Ok(String::new()) };
            let v = verdict_compressed(&a.data, t);
            // an ADDED entry under a key that no query uses is surplus data that verification never
            // reads (like `indices`); the statement only demands rejection for removed / changed components
            if v == "accepted" && m != MapMut::AddKey {
                return Err(format!("compressed proof with map {} mutated ({:?}) is still ACCEPTED", path_str(path), m));
            }
            Ok(format!("compressed-map:{}:{:?}:{v}", path_kind(path), m))
        });
    });
}

fn cross<Cfg: GenericConfig<D, F = F>>(ctx: &Ctx, subjects: &[Accepted<Cfg>]) {
    for (i, a) in subjects.iter().enumerate() {
        for (j, b) in subjects.iter().enumerate() {
            if i == j {
                continue;
            }
            if a.data.verifier_only.circuit_digest == b.data.verifier_only.circuit_digest {
                continue; // same circuit under another name
            }
            let combos: Vec<(&str, VerifierCircuitData<F, Cfg, D>)> = vec![
                ("other-verifier-data+other-common", b.data.verifier_data()),
                ("other-verifier-only", VerifierCircuitData { verifier_only: b.data.verifier_only.clone(), common: a.data.common.clone() }),
                ("other-common", VerifierCircuitData { verifier_only: a.data.verifier_only.clone(), common: b.data.common.clone() }),
            ];
            for (what, vd) in combos {
                if what == "other-common" && a.data.common == b.data.common {
                    continue;
                }
                let case = format!("{} proof under {} of {}", a.name, what, b.name);
                ctx.case("other-circuit", &case, || {
                    let r = guarded(|| vd.verify(a.proof.clone()));
                    match r {
                        Ok(Ok(())) => Err(format!("proof of circuit {} ACCEPTED under {} of circuit {}", a.name, what, b.name)),
                        Ok(Err(_)) => Ok(format!("cross:{what}:rejected")),
                        Err(_) => Ok(format!("cross:{what}:panic")),
                    }
                });
            }
        }
    }
}

pub fn run(ctx: &Ctx) -> i32 {
    let thorough = ctx.tier.thorough();
    let progs = subject_programs();
    let leaf_muts: Vec<LeafMut> =
        if thorough { vec![LeafMut::Add1, LeafMut::Zero, LeafMut::PMinus1, LeafMut::Flip63, LeafMut::Alias] } else { vec![LeafMut::Add1, LeafMut::Alias] };
    let n_prog = if thorough { progs.len() } else { 4 };
    let base = floor_config(8);
    let mut pc_subjects: Vec<Accepted<PC>> = Vec::new();
    let made: Vec<Option<Accepted<PC>>> = par_map(n_prog, |i| {
        let (prog, ivs) = &progs[i];
        let mut c = base.clone();
        // alternate the arity so that arity-2 and arity-4 cosets are both exercised
        if i % 2 == 1 {
            c.fri_config.reduction_strategy = plonky2::fri::reduction_strategies::FriReductionStrategy::ConstantArityBits(2, 1);
        }
        make_accepted::<PC>(ctx, &format!("{}@q8a{}", prog.name, 1 + i % 2), prog, &ivs[0], &c, ctx.seed + 1)
    });
    pc_subjects.extend(made.into_iter().flatten());
    // few public inputs with a zero tail: the public-input hash has no length padding, so only the
    // explicit count check separates [15, 0] from [15] and from [15, 0, 0]
    {
        use Op::*;
        let prog = Program::new("few_pis_zero_tail", vec![Ty::B, Ty::B], vec![Mul(0, 1), IsEqual(0, 1)]);
        if let Some(a) = make_accepted::<PC>(ctx, "few_pis_zero_tail@q8", &prog, &[3, 5], &base, ctx.seed + 5) {
            pc_subjects.push(a);
        }
        let prog = Program::new("one_pi_zero", vec![Ty::B, Ty::B], vec![Sub(0, 1)]);
        if let Some(a) = make_accepted::<PC>(ctx, "one_pi_zero@q8", &prog, &[7, 7], &base, ctx.seed + 6) {
            pc_subjects.push(a);
        }
    }
    // rare configuration corners in the quick tier as well: no grinding + cap height 0 + MinSize
    // schedule; narrow rows + 3 challenges + a commit-phase layer exactly as large as the cap
    {
        use plonky2::fri::reduction_strategies::FriReductionStrategy as S;
        let mut c1 = floor_config(8);
        c1.fri_config.proof_of_work_bits = 0;
        c1.fri_config.cap_height = 0;
        c1.fri_config.reduction_strategy = S::MinSize(None);
        fix_security(&mut c1);
        let (prog, ivs) = &progs[1];
        if let Some(a) = make_accepted::<PC>(ctx, &format!("{}@pow0cap0minsize", prog.name), prog, &ivs[0], &c1, ctx.seed + 7) {
            pc_subjects.push(a);
        }
        let mut c2 = floor_config(8);
        c2.num_routed_wires = 37;
        c2.num_challenges = 3;
        c2.fri_config.cap_height = 3;
        c2.fri_config.reduction_strategy = S::Fixed(vec![2, 1]); // 2^6 lde -> 2^4 -> 2^3 = cap size
        fix_security(&mut c2);
        let (prog, ivs) = &progs[0];
        if let Some(a) = make_accepted::<PC>(ctx, &format!("{}@narrow37chal3capfull", prog.name), prog, &ivs[0], &c2, ctx.seed + 8) {
            pc_subjects.push(a);
        }
    }
    // salted / blinded oracle
    {
        let mut zk = floor_config(8);
        zk.zero_knowledge = true;
        let (prog, ivs) = &progs[0];
        if let Some(a) = make_accepted::<PC>(ctx, &format!("{}@zk", prog.name), prog, &ivs[0], &zk, ctx.seed + 2) {
            pc_subjects.push(a);
        }
    }
    if thorough {
        for (cname, f) in [
            ("cap0", Box::new(|c: &mut CircuitConfig| c.fri_config.cap_height = 0) as Box<dyn Fn(&mut CircuitConfig)>),
            ("std_arity", Box::new(|c: &mut CircuitConfig| c.fri_config.reduction_strategy = plonky2::fri::reduction_strategies::FriReductionStrategy::ConstantArityBits(4, 5))),
            ("arity3", Box::new(|c: &mut CircuitConfig| c.fri_config.reduction_strategy = plonky2::fri::reduction_strategies::FriReductionStrategy::ConstantArityBits(3, 1))),
            ("chal3", Box::new(|c: &mut CircuitConfig| c.num_challenges = 3)),
            ("q28", Box::new(|c: &mut CircuitConfig| c.fri_config.num_query_rounds = 28)),
        ] {
            let mut c = base.clone();
            f(&mut c);
            fix_security(&mut c);
            for pi in [0usize, 2] {
                let (prog, ivs) = &progs[pi];
                if let Some(a) = make_accepted::<PC>(ctx, &format!("{}@{cname}", prog.name), prog, &ivs[1], &c, ctx.seed + 3) {
                    pc_subjects.push(a);
                }
            }
        }
    }
    let mut kc_subjects: Vec<Accepted<KC>> = Vec::new();
    for pi in [0usize, 2] {
        let (prog, ivs) = &progs[pi];
        if let Some(a) = make_accepted::<KC>(ctx, &format!("{}@keccak", prog.name), prog, &ivs[0], &base, ctx.seed + 4) {
            kc_subjects.push(a);
        }
        if !thorough {
            break;
        }
    }
    ctx.sample(json!({"subjects": pc_subjects.iter().map(|a| a.name.clone()).chain(kc_subjects.iter().map(|a| a.name.clone())).collect::<Vec<_>>() }));
    if let Some(a) = pc_subjects.first() {
        let sh = shape(&a.json);
        ctx.sample(json!({"example_leaf_paths": sh.leaves.iter().step_by(sh.leaves.len() / 8 + 1).map(path_str).collect::<Vec<_>>() }));
    }
    for a in &pc_subjects {
        run_subject(ctx, a, &leaf_muts, thorough);
    }
    for a in &kc_subjects {
        run_subject(ctx, a, &leaf_muts, thorough);
    }
    cross(ctx, &pc_subjects);
    cross(ctx, &kc_subjects);
    ctx.finish(Finish {
        level: "fault_enumeration",
        rule: "for each accepted proof (subject circuits x configurations meeting the verdict floor q*log2(lde) >= 40; incl. lookups, salted zero-knowledge oracles, Keccak): every numeric leaf of the proof's serde tree x value mutations, every list node x 5 structural mutations -> real verify must not accept; the same on the compressed proof through verify_compressed (the redundant `indices` list must leave the verdict unchanged), every map node x {remove, shift key, add}; every proof under every other circuit's verifier data / verifier-only / common data; every FRI-part, cap and opening leaf again under the honest proof's FIXED challenges via verify_fri_proof (pow_witness must then be irrelevant, everything else rejected). distinct_nontrivial = distinct (position kind, mutation, verdict) classes",
        exhaustive: true,
        assumptions: vec![
            "single-element edits only (deviation bound 1)".into(),
            "chance acceptance of a tampered proof is bounded by the verdict floor (<= 2^-40 per case through query-index coincidence, <= 2^-100 algebraically)".into(),
            "non-canonical aliases (v + p) of an element are the same field element: their verdict is recorded, not judged".into(),
            "an entry ADDED to a compressed-proof map under an unused key is surplus data and may be ignored by verification".into(),
        ],
        extra: json!({}),
    })
}
