//! C15 — transforms and polynomial algebra agree with their definitions.

use plonky2::util::transpose;
use plonky2_field::cosets::get_unique_coset_shifts;
use plonky2_field::fft::{fft_root_table, fft_with_options, ifft_with_options};
use plonky2_field::goldilocks_field::GoldilocksField as F;
use plonky2_field::interpolation::{barycentric_weights, interpolant, interpolate, interpolate2};
use plonky2_field::polynomial::{PolynomialCoeffs, PolynomialValues};
use plonky2_field::types::Field;
use plonky2_field::zero_poly_coset::ZeroPolyOnCoset;
use plonky2_util::{bits_u64, log2_ceil, log2_strict, log_floor, reverse_index_bits, reverse_index_bits_in_place};
use serde_json::json;

use crate::core::*;

fn fv(v: &[u64]) -> Vec<F> {
    v.iter().map(|x| F(*x)).collect()
}
fn cv(v: &[F]) -> Vec<u64> {
    v.iter().map(|x| x.0 % P).collect()
}

/// primitive 2^k-th root of unity from first principles: g^((p-1)/2^k) for the generator 7
/// (7 is a generator of F_p^*; verified in C14 for the library's generator, here 7 is checked to
/// have full two-adic order below).
fn root_of_unity(k: usize) -> u64 {
    powm(7, ((P - 1) >> k) as u128)
}

/// The library's root of unity of order 2^k must be *a* primitive root; all oracles below are
/// phrased with the library's own generator omega = primitive_root_of_unity(k), checked primitive
/// in C14, so that "direct evaluation on the corresponding subgroup" uses the same enumeration order.
fn lib_root(k: usize) -> u64 {
    F::primitive_root_of_unity(k).0 % P
}

fn naive_dft(c: &[u64], omega: u64, shift: u64) -> Vec<u64> {
    let n = c.len();
    let mut out = Vec::with_capacity(n);
    let mut x = shift % P;
    for _ in 0..n {
        // Horner
        let mut acc = 0u64;
        for &cj in c.iter().rev() {
            acc = addm(mulm(acc, x), cj);
        }
        out.push(acc);
        x = mulm(x, omega);
    }
    out
}

fn poly_eval(c: &[u64], x: u64) -> u64 {
    let mut acc = 0u64;
    for &cj in c.iter().rev() {
        acc = addm(mulm(acc, x), cj);
    }
    acc
}

fn poly_mul(a: &[u64], b: &[u64]) -> Vec<u64> {
    if a.is_empty() || b.is_empty() {
        return vec![];
    }
    let mut r = vec![0u64; a.len() + b.len() - 1];
    for (i, x) in a.iter().enumerate() {
        for (j, y) in b.iter().enumerate() {
            r[i + j] = addm(r[i + j], mulm(*x, *y));
        }
    }
    r
}
fn poly_trim(mut a: Vec<u64>) -> Vec<u64> {
    while a.last().map_or(false, |x| *x % P == 0) {
        a.pop();
    }
    a.iter().map(|x| x % P).collect()
}
fn poly_add(a: &[u64], b: &[u64]) -> Vec<u64> {
    let n = a.len().max(b.len());
    (0..n).map(|i| addm(*a.get(i).unwrap_or(&0), *b.get(i).unwrap_or(&0))).collect()
}
fn poly_sub(a: &[u64], b: &[u64]) -> Vec<u64> {
    let n = a.len().max(b.len());
    (0..n).map(|i| subm(*a.get(i).unwrap_or(&0), *b.get(i).unwrap_or(&0))).collect()
}
/// schoolbook long division
fn poly_divrem(a: &[u64], b: &[u64]) -> (Vec<u64>, Vec<u64>) {
    let b = poly_trim(b.to_vec());
    let mut r = poly_trim(a.to_vec());
    assert!(!b.is_empty());
    if r.len() < b.len() {
        return (vec![], r);
    }
    let mut q = vec![0u64; r.len() - b.len() + 1];
    let linv = invm(*b.last().unwrap()).unwrap();
    while r.len() >= b.len() {
        let d = r.len() - b.len();
        let c = mulm(*r.last().unwrap(), linv);
        q[d] = c;
        for (i, bc) in b.iter().enumerate() {
            r[d + i] = subm(r[d + i], mulm(c, *bc));
        }
        r = poly_trim(r);
        if r.is_empty() {
            break;
        }
    }
    (poly_trim(q), r)
}

pub fn run(ctx: &Ctx) -> i32 {
    fft_family(ctx);
    poly_algebra(ctx);
    poly_misc_api(ctx);
    interpolation(ctx);
    zero_poly_and_cosets(ctx);
    index_permutations(ctx);
    let variant = crate::variant_name();
    ctx.finish(Finish {
        level: "exploration",
        rule: "FFT family: every size 2^k (k up to the tier bound) x zero_factor option x root-table option x input family (every unit vector = every matrix entry, all-ones, all-(p-1), non-canonical, dense) against direct evaluation; polynomial algebra: all ordered pairs of coefficient vectors of length <= L over a small alphabet against schoolbook algebra; interpolation on all small point sets; bit-reversal / transpose for every size up to the bound with identity input. A class = (routine, option combination, size) that was compared and agreed",
        exhaustive: true,
        assumptions: vec![
            "vectors come from a spanning family (unit vectors span the input space; the transforms are linear) plus boundary-valued vectors; coefficient vectors for the algebra are all vectors over {0,1,p-1} (+2^32 in thorough) up to the length bound".into(),
            format!("build variant: {variant}"),
        ],
        extra: json!({"variant": variant}),
    })
}

fn fft_family(ctx: &Ctx) {
    let kmax = if ctx.tier.thorough() { 12 } else { 9 };
    // sanity of the harness' own root: 7 generates a subgroup of order 2^32
    assert!(powm(root_of_unity(32), 1u128 << 31) == P - 1);
    let mut jobs: Vec<(usize, Option<usize>, bool)> = Vec::new();
    for k in 0..=kmax {
        for zf in std::iter::once(None).chain((0..=k + 1).map(Some)) {
            for table in [false, true] {
                jobs.push((k, zf, table));
            }
        }
    }
    ctx.sample(json!({"fft_jobs": jobs.len(), "example": format!("{:?}", jobs[jobs.len() / 2])}));
    par_for(jobs.len(), |ji| {
        let (k, zf, with_table) = jobs[ji];
        let n = 1usize << k;
        let omega = lib_root(k);
        let table = fft_root_table::<F>(n);
        let tbl = if with_table { Some(&table) } else { None };
        let r = zf.unwrap_or(0);
        let nonzero = if r >= 64 { 1 } else { (n >> r.min(63)).max(if r > k { 1 } else { 1 }) };
        let nonzero = if r > k { 1 } else { nonzero };
        // input family
        let mut inputs: Vec<(String, Vec<u64>)> = Vec::new();
        for j in 0..nonzero {
            let mut v = vec![0u64; n];
            v[j] = 1;
            inputs.push((format!("e{j}"), v));
        }
        let fill = |val: &dyn Fn(usize) -> u64| -> Vec<u64> { (0..n).map(|i| if i < nonzero { val(i) } else { 0 }).collect() };
        inputs.push(("ones".into(), fill(&|_| 1)));
        inputs.push(("pm1".into(), fill(&|_| P - 1)));
        inputs.push(("noncanon".into(), fill(&|i| if i % 2 == 0 { u64::MAX } else { P })));
        let d = dense_vec(n, k as u64 + 1);
        inputs.push(("dense".into(), fill(&|i| d[i])));
        for (name, v) in &inputs {
            let case = format!("fft k={k} zf={zf:?} table={with_table} input={name}");
            if !ctx.want(&case) {
                continue;
            }
            ctx.tick(1);
            let got = guarded(|| cv(&fft_with_options(PolynomialCoeffs::new(fv(v)), zf, tbl).values));
            let want: Vec<u64> = if let Some(j) = name.strip_prefix('e').and_then(|s| s.parse::<usize>().ok()) {
                // column j of the DFT matrix: omega^(i*j) by repeated multiplication
                let step = powm(omega, j as u128);
                let mut x = 1u64;
                (0..n)
                    .map(|_| {
                        let y = x;
                        x = mulm(x, step);
                        y
                    })
                    .collect()
            } else if n <= 512 || name == "dense" && n <= 2048 {
                naive_dft(v, omega, 1)
            } else {
                // large structured vectors: compare against the transform without options
                cv(&fft_with_options(PolynomialCoeffs::new(fv(v)), None, None).values)
            };
            match got {
                Ok(g) => {
                    if g != want {
                        let idx = g.iter().zip(&want).position(|(a, b)| a != b);
                        ctx.violation("fft", case, format!("first differing index {idx:?}"));
                    } else {
                        ctx.class(format!("fft:k{k}:zf{zf:?}:t{with_table}"));
                    }
                }
                Err(p) => ctx.violation("fft:panic", case, p),
            }
            // inverse transform round trip (ifft also accepts the options)
            if zf.is_none() {
                ctx.tick(1);
                let case = format!("ifft k={k} table={with_table} input={name}");
                match guarded(|| cv(&ifft_with_options(PolynomialValues::new(fv(&want)), None, tbl).coeffs)) {
                    Ok(g) => {
                        if g != v.iter().map(|x| x % P).collect::<Vec<_>>() {
                            ctx.violation("ifft", case, "ifft(fft(v)) != v");
                        }
                    }
                    Err(p) => ctx.violation("ifft:panic", case, p),
                }
            }
        }
        // a root table built for another size: rejected (the documented precondition, a panic), or - should an
        // implementation choose to accept it - the values of direct evaluation; never silently other values
        if with_table && zf.is_none() {
            for mult in [2usize, 4, 8] {
                let wrong = fft_root_table::<F>(n * mult);
                let mut inputs: Vec<(String, Vec<u64>)> = vec![("ones".into(), vec![1; n]), ("dense".into(), dense_vec(n, 99 + k as u64))];
                if n >= 2 {
                    let mut e1 = vec![0; n];
                    e1[1] = 1;
                    inputs.push(("e1".into(), e1));
                }
                for (iname, inp) in inputs {
                    let case = format!("fft wrong table k={k} table_size={}n input={iname}", mult);
                    if !ctx.want(&case) {
                        continue;
                    }
                    ctx.tick(1);
                    let res = guarded(|| fft_with_options(PolynomialCoeffs::new(fv(&inp)), None, Some(&wrong)));
                    match res {
                        Err(msg) if msg.contains("Expected root table of length") => ctx.class("fft:wrong-table:panics"),
                        Err(msg) => ctx.violation("fft:wrong-table", case.clone(), format!("unexpected panic {msg}")),
                        Ok(vals) => {
                            if cv(&vals.values) != naive_dft(&inp, omega, 1) {
                                ctx.violation("fft:wrong-table", case.clone(), "a root table built for a larger size was accepted and produced values that differ from direct evaluation");
                            } else {
                                ctx.class("fft:wrong-table:accepted-and-correct");
                            }
                        }
                    }
                    let res = guarded(|| ifft_with_options(PolynomialValues::new(fv(&inp)), None, Some(&wrong)));
                    match res {
                        Err(msg) if msg.contains("Expected root table of length") => ctx.class("ifft:wrong-table:panics"),
                        Err(msg) => ctx.violation("ifft:wrong-table", case.clone(), format!("unexpected panic {msg}")),
                        Ok(c) => {
                            if naive_dft(&cv(&c.coeffs), omega, 1) != inp.iter().map(|x| x % P).collect::<Vec<_>>() {
                                ctx.violation("ifft:wrong-table", case, "a root table built for a larger size was accepted and the result does not interpolate the input");
                            }
                        }
                    }
                }
            }
        }
    });
    // coset transforms and LDE
    let kc = if ctx.tier.thorough() { 9 } else { 7 };
    let g = F::coset_shift().0 % P;
    let shifts = [1u64, g, invm(g).unwrap(), 7, P - 1];
    let mut jobs = Vec::new();
    for k in 0..=kc {
        for (si, _) in shifts.iter().enumerate() {
            jobs.push((k, si));
        }
    }
    par_for(jobs.len(), |ji| {
        let (k, si) = jobs[ji];
        let shift = shifts[si];
        let n = 1usize << k;
        let omega = lib_root(k);
        let mut inputs: Vec<Vec<u64>> = Vec::new();
        for j in 0..n.min(16) {
            let mut v = vec![0u64; n];
            v[(j * 37) % n] = 1 + j as u64;
            inputs.push(v);
        }
        inputs.push(dense_vec(n, 99 + k as u64));
        inputs.push(vec![u64::MAX; n]);
        for (ii, v) in inputs.iter().enumerate() {
            let case = format!("coset_fft k={k} shift={shift} input#{ii}");
            if !ctx.want(&case) {
                continue;
            }
            ctx.tick(1);
            let want = naive_dft(v, omega, shift);
            match guarded(|| cv(&PolynomialCoeffs::new(fv(v)).coset_fft(F(shift)).values)) {
                Ok(gv) => {
                    if gv != want {
                        ctx.violation("coset_fft", case.clone(), "differs from direct evaluation on the coset");
                    } else {
                        ctx.class(format!("coset_fft:k{k}:s{si}"));
                    }
                }
                Err(p) => ctx.violation("coset_fft:panic", case.clone(), p),
            }
            ctx.tick(1);
            match guarded(|| cv(&PolynomialValues::new(fv(&want)).coset_ifft(F(shift)).coeffs)) {
                Ok(gv) => {
                    if gv != v.iter().map(|x| x % P).collect::<Vec<_>>() {
                        ctx.violation("coset_ifft", case, "coset_ifft(coset_fft(v)) != v");
                    }
                }
                Err(p) => ctx.violation("coset_ifft:panic", case, p),
            }
        }
        // LDE (only once per k)
        if si == 0 {
            for rate_bits in 0..=3usize {
                let m = n << rate_bits;
                let kk = k + rate_bits;
                let big_omega = lib_root(kk);
                for (ii, v) in inputs.iter().enumerate() {
                    let case = format!("lde k={k} rate_bits={rate_bits} input#{ii}");
                    if !ctx.want(&case) {
                        continue;
                    }
                    ctx.tick(3);
                    // v are coefficients; values on H:
                    let vals_h = naive_dft(v, omega, 1);
                    let mut padded = v.clone();
                    padded.resize(m, 0);
                    let want_sub = naive_dft(&padded, big_omega, 1);
                    let want_coset = naive_dft(&padded, big_omega, g);
                    let r1 = guarded(|| cv(&PolynomialValues::new(fv(&vals_h)).lde(rate_bits).values));
                    let r2 = guarded(|| cv(&PolynomialValues::new(fv(&vals_h)).lde_onto_coset(rate_bits).values));
                    let r3 = guarded(|| cv(&PolynomialCoeffs::new(fv(v)).lde(rate_bits).coeffs));
                    if r1 != Ok(want_sub) {
                        ctx.violation("lde", case.clone(), "PolynomialValues::lde differs from direct evaluation on the larger subgroup");
                    }
                    if r2 != Ok(want_coset) {
                        ctx.violation("lde_onto_coset", case.clone(), "PolynomialValues::lde_onto_coset differs from direct evaluation on the coset");
                    }
                    if r3 != Ok(padded.iter().map(|x| x % P).collect()) {
                        ctx.violation("coeffs_lde", case.clone(), "PolynomialCoeffs::lde is not zero padding");
                    }
                    ctx.class(format!("lde:k{k}:r{rate_bits}"));
                }
            }
        }
    });
}

fn all_vectors(alpha: &[u64], max_len: usize) -> Vec<Vec<u64>> {
    let mut out = vec![vec![]];
    let mut layer: Vec<Vec<u64>> = vec![vec![]];
    for _ in 0..max_len {
        let mut next = Vec::new();
        for v in &layer {
            for &a in alpha {
                let mut w = v.clone();
                w.push(a);
                next.push(w);
            }
        }
        out.extend(next.iter().cloned());
        layer = next;
    }
    out
}

fn poly_algebra(ctx: &Ctx) {
    let (alpha, max_len): (Vec<u64>, usize) = if ctx.tier.thorough() { (vec![0, 1, P - 1, 1 << 32], 4) } else { (vec![0, 1, P - 1], 4) };
    let vs = all_vectors(&alpha, max_len);
    ctx.sample(json!({"poly_vectors": vs.len(), "alphabet": alpha, "max_len": max_len}));
    let z_alpha = a8();
    let m = vs.len();
    par_for(m, |i| {
        let a = &vs[i];
        let pa = PolynomialCoeffs::new(fv(a));
        let ta = poly_trim(a.clone());
        // unary
        ctx.tick(1);
        let case = format!("poly unary {a:?}");
        if ctx.want(&case) {
            let r = guarded(|| {
                let mut errs = Vec::new();
                if pa.degree_plus_one() != ta.len() {
                    errs.push("degree_plus_one");
                }
                if cv(&pa.trimmed().coeffs) != ta {
                    errs.push("trimmed");
                }
                let mut t = pa.clone();
                t.trim();
                if cv(&t.coeffs) != ta {
                    errs.push("trim");
                }
                if pa.lead().0 % P != *ta.last().unwrap_or(&0) {
                    errs.push("lead");
                }
                if pa.is_zero() != ta.is_empty() {
                    errs.push("is_zero");
                }
                if cv(&pa.padded(a.len() + 3).coeffs)[..a.len()] != cv(&pa.coeffs)[..] || pa.padded(a.len() + 3).len() != a.len() + 3 {
                    errs.push("padded");
                }
                // PartialEq ignores zero tails
                if pa != PolynomialCoeffs::new(fv(&ta)) {
                    errs.push("eq-ignores-tail");
                }
                let mut p2 = pa.clone();
                if p2.trim_to_len(ta.len()).is_err() || p2.len() != ta.len() {
                    errs.push("trim_to_len(ok)");
                }
                if !ta.is_empty() {
                    let mut p3 = pa.clone();
                    if p3.trim_to_len(ta.len() - 1).is_ok() {
                        errs.push("trim_to_len(must fail)");
                    }
                }
                for &z in &z_alpha {
                    if pa.eval(F(z)).0 % P != poly_eval(a, z) {
                        errs.push("eval");
                    }
                    let powers: Vec<F> = F(z).powers().take(a.len().saturating_sub(1).max(0) + 1).collect();
                    // eval_with_powers takes x^1.. powers (see doc): powers[i] = x^(i+1)
                    if a.len() >= 1 {
                        let pw: Vec<F> = powers[1..].to_vec();
                        if pa.eval_with_powers(&pw).0 % P != poly_eval(a, z) {
                            errs.push("eval_with_powers");
                        }
                    }
                    // divide_by_linear: q*(X-z) + p(z) == p
                    let q = cv(&pa.divide_by_linear(F(z)).coeffs);
                    let back = poly_add(&poly_mul(&q, &[negm(z), 1]), &[poly_eval(a, z)]);
                    if poly_trim(back) != ta {
                        errs.push("divide_by_linear");
                    }
                }
                errs
            });
            match r {
                Ok(e) if e.is_empty() => ctx.class("poly:unary"),
                Ok(e) => ctx.violation(format!("poly:{}", e[0]), case, format!("{e:?}")),
                Err(p) => ctx.violation("poly:unary:panic", case, p),
            }
        }
        // inv_mod_xn
        if !a.is_empty() && a[0] % P != 0 {
            for n in 1..=8usize {
                let case = format!("inv_mod_xn {a:?} n={n}");
                if !ctx.want(&case) {
                    continue;
                }
                ctx.tick(1);
                match guarded(|| cv(&pa.inv_mod_xn(n).coeffs)) {
                    Ok(inv) => {
                        let mut prod = poly_mul(&inv, a);
                        prod.truncate(n);
                        let mut one = vec![0u64; prod.len()];
                        if !one.is_empty() {
                            one[0] = 1;
                        }
                        if poly_trim(prod) != vec![1] || inv.len() > n {
                            ctx.violation("inv_mod_xn", case, format!("inverse {inv:?}"));
                        } else {
                            ctx.class("poly:inv_mod_xn");
                        }
                    }
                    Err(p) => ctx.violation("inv_mod_xn:panic", case, p),
                }
            }
        }
        // binary
        for b in &vs {
            let case = format!("poly binary {a:?} {b:?}");
            if !ctx.want(&case) {
                continue;
            }
            ctx.tick(1);
            let pb = PolynomialCoeffs::new(fv(b));
            let tb = poly_trim(b.clone());
            let r = guarded(|| {
                let mut errs: Vec<String> = Vec::new();
                if poly_trim(cv(&(&pa * &pb).coeffs)) != poly_trim(poly_mul(a, b)) {
                    errs.push("mul".into());
                }
                if poly_trim(cv(&(&pa + &pb).coeffs)) != poly_trim(poly_add(a, b)) {
                    errs.push("add".into());
                }
                if poly_trim(cv(&(&pa - &pb).coeffs)) != poly_trim(poly_sub(a, b)) {
                    errs.push("sub".into());
                }
                let mut x = pa.clone();
                x += &pb;
                if poly_trim(cv(&x.coeffs)) != poly_trim(poly_add(a, b)) {
                    errs.push("add_assign".into());
                }
                let mut x = pa.clone();
                x -= pb.clone();
                if poly_trim(cv(&x.coeffs)) != poly_trim(poly_sub(a, b)) {
                    errs.push("sub_assign".into());
                }
                if (pa == pb) != (ta == tb) {
                    errs.push("eq".into());
                }
                errs
            });
            match r {
                Ok(e) if e.is_empty() => {}
                Ok(e) => ctx.violation(format!("poly:{}", e[0]), case.clone(), format!("{e:?}")),
                Err(p) => ctx.violation("poly:binary:panic", case.clone(), p),
            }
            // division
            if tb.is_empty() {
                if !ta.is_empty() {
                    // zero divisor with non-zero dividend: documented panic
                    let r1 = guarded(|| pa.div_rem(&pb));
                    let r2 = guarded(|| pa.div_rem_long_division(&pb));
                    if r1.is_ok() || r2.is_ok() {
                        ctx.violation("poly:div_by_zero", case.clone(), "division by the zero polynomial returned a value");
                    } else {
                        ctx.class("poly:div_by_zero:panics");
                    }
                }
            } else {
                let (wq, wr) = poly_divrem(a, b);
                for (name, res) in [("div_rem", guarded(|| pa.div_rem(&pb))), ("div_rem_long_division", guarded(|| pa.div_rem_long_division(&pb)))] {
                    match res {
                        Ok((q, r)) => {
                            let (q, r) = (poly_trim(cv(&q.coeffs)), poly_trim(cv(&r.coeffs)));
                            if q != wq || r != wr {
                                ctx.violation(format!("poly:{name}"), case.clone(), format!("got q={q:?} r={r:?}, expected q={wq:?} r={wr:?}"));
                            } else {
                                ctx.class(format!("poly:{name}:degs{}-{}", ta.len(), tb.len()));
                            }
                        }
                        Err(p) => ctx.violation(format!("poly:{name}:panic"), case.clone(), p),
                    }
                }
            }
        }
    });
    // structured large operands for the FFT-based product and Newton division
    let degs = [15usize, 16, 17, 31, 33, 63, 64, 65, 100];
    let mut pairs = Vec::new();
    for &da in &degs {
        for &db in &degs {
            pairs.push((da, db));
        }
    }
    par_for(pairs.len(), |i| {
        let (da, db) = pairs[i];
        let fams: Vec<(Vec<u64>, Vec<u64>)> = vec![
            (dense_vec(da, 1), dense_vec(db, 2)),
            (vec![P - 1; da], vec![u64::MAX; db]),
            ((0..da).map(|i| if i == da - 1 { 1 } else { 0 }).collect(), (0..db).map(|i| if i == 0 || i == db - 1 { 1 } else { 0 }).collect()),
        ];
        for (fi, (a, b)) in fams.iter().enumerate() {
            let case = format!("poly large da={da} db={db} fam={fi}");
            if !ctx.want(&case) {
                continue;
            }
            ctx.tick(1);
            let pa = PolynomialCoeffs::new(fv(a));
            let pb = PolynomialCoeffs::new(fv(b));
            let r = guarded(|| {
                let prod = poly_trim(cv(&(&pa * &pb).coeffs));
                let (q, r) = pa.div_rem(&pb);
                let (q2, r2) = pa.div_rem_long_division(&pb);
                (prod, poly_trim(cv(&q.coeffs)), poly_trim(cv(&r.coeffs)), poly_trim(cv(&q2.coeffs)), poly_trim(cv(&r2.coeffs)))
            });
            match r {
                Ok((prod, q, r, q2, r2)) => {
                    let (wq, wr) = poly_divrem(a, b);
                    if prod != poly_trim(poly_mul(a, b)) {
                        ctx.violation("poly:mul:large", case, "product differs from schoolbook");
                    } else if q != wq || r != wr {
                        ctx.violation("poly:div_rem:large", case, "div_rem differs from long division reference");
                    } else if q2 != wq || r2 != wr {
                        ctx.violation("poly:div_rem_long_division:large", case, "differs from reference");
                    } else {
                        ctx.class(format!("poly:large:{da}:{db}"));
                    }
                }
                Err(p) => ctx.violation("poly:large:panic", case, p),
            }
        }
    });
}

/// The remaining public routines of `PolynomialValues` / `PolynomialCoeffs` (constructors, chunking, the
/// extension-coefficient evaluators, bulk / in-place variants), each against its defining identity.
fn poly_misc_api(ctx: &Ctx) {
    use plonky2_field::extension::quadratic::QuadraticExtension;
    use plonky2_field::extension::FieldExtension;
    type E = QuadraticExtension<F>;
    let th = ctx.tier.thorough();
    let alpha: Vec<u64> = vec![0, 1, P - 1, 1 << 32, 7];
    let chk = |site: &str, case: String, ok: Result<bool, String>| {
        if !ctx.want(&case) {
            return;
        }
        ctx.tick(1);
        match ok {
            Ok(true) => ctx.class(format!("{site}:ok")),
            Ok(false) => ctx.violation(site, case, "differs from the defining identity"),
            Err(p) => ctx.violation(format!("{site}:panic"), case, p),
        }
    };
    // --- PolynomialValues
    for k in 0..=(if th { 6 } else { 4 }) {
        let n = 1usize << k;
        for &v in &alpha {
            chk("values.constant", format!("values.constant {v} len={n}"), guarded(|| cv(&PolynomialValues::constant(F(v), n).values) == vec![v % P; n]));
        }
        chk("values.zero", format!("values.zero len={n}"), guarded(|| PolynomialValues::<F>::zero(n).is_zero() && PolynomialValues::<F>::zero(n).len() == n));
        for idx in 0..n {
            chk("values.selector", format!("values.selector len={n} index={idx}"), guarded(|| {
                let s = PolynomialValues::<F>::selector(n, idx);
                (0..n).all(|i| s.values[i].0 % P == (i == idx) as u64) && (n == 1 || !s.is_zero())
            }));
        }
        // degree of the interpolant: values of x^d on the subgroup, d = 0..n-1, and the zero vector
        let omega = lib_root(k);
        for d in 0..n {
            let vals: Vec<u64> = (0..n).map(|i| powm(powm(omega, i as u128), d as u128)).collect();
            chk("values.degree", format!("values.degree len={n} monomial {d}"), guarded(|| {
                let pv = PolynomialValues::new(fv(&vals));
                pv.degree() == d && pv.degree_plus_one() == d + 1
            }));
        }
        chk("values.degree", format!("values.degree len={n} zero"), guarded(|| PolynomialValues::<F>::zero(n).degree() == 0 && PolynomialValues::<F>::zero(n).degree_plus_one() == 0));
        // add_assign_scaled, lde_multiple
        let a = dense_vec(n, 31 + k as u64);
        let b = dense_vec(n, 77 + k as u64);
        for &w in &alpha {
            let want: Vec<u64> = (0..n).map(|i| addm(a[i], mulm(b[i], w))).collect();
            chk("values.add_assign_scaled", format!("values.add_assign_scaled len={n} w={w}"), guarded(|| {
                let mut x = PolynomialValues::new(fv(&a));
                x.add_assign_scaled(&PolynomialValues::new(fv(&b)), F(w));
                cv(&x.values) == want
            }));
        }
        for r in 0..=2usize {
            chk("values.lde_multiple", format!("values.lde_multiple len={n} rate_bits={r}"), guarded(|| {
                let out = PolynomialValues::lde_multiple(vec![PolynomialValues::new(fv(&a)), PolynomialValues::new(fv(&b)), PolynomialValues::zero(n)], r);
                let each = [PolynomialValues::new(fv(&a)).lde(r), PolynomialValues::new(fv(&b)).lde(r), PolynomialValues::<F>::zero(n).lde(r)];
                // lde itself is decided against direct evaluation in fft_family; here: element-wise, in order
                out.len() == 3 && (0..3).all(|i| cv(&out[i].values) == cv(&each[i].values)) && {
                    let c = naive_idft(&a, omega);
                    let big = lib_root(k + r);
                    cv(&out[0].values) == naive_dft(&[c.clone(), vec![0; (n << r) - n]].concat(), big, 1)
                }
            }));
            chk("coeffs.lde_multiple", format!("coeffs.lde_multiple len={n} rate_bits={r}"), guarded(|| {
                let (pa, pb) = (PolynomialCoeffs::new(fv(&a)), PolynomialCoeffs::new(fv(&b)));
                let out = PolynomialCoeffs::lde_multiple(vec![&pa, &pb], r);
                out.len() == 2 && out[0].len() == n << r && cv(&out[0].coeffs)[..n] == a[..] && cv(&out[1].coeffs)[..n] == b[..] && out.iter().all(|o| o.coeffs[n..].iter().all(|x| x.0 % P == 0))
            }));
        }
        // --- PolynomialCoeffs
        chk("coeffs.log_len", format!("coeffs.log_len len={n}"), guarded(|| PolynomialCoeffs::new(fv(&a)).log_len() == k));
        for cs in 1..=n + 1 {
            chk("coeffs.chunks", format!("coeffs.chunks len={n} chunk={cs}"), guarded(|| {
                let ch = PolynomialCoeffs::new(fv(&a)).chunks(cs);
                let flat: Vec<u64> = ch.iter().flat_map(|c| cv(&c.coeffs)).collect();
                flat == a && ch.len() == n.div_ceil(cs) && ch.iter().take(ch.len() - 1).all(|c| c.len() == cs)
            }));
        }
        for new_len in [n, n + 1, 2 * n, n.saturating_sub(1)] {
            chk("coeffs.pad", format!("coeffs.pad len={n} new_len={new_len}"), guarded(|| {
                let mut pa = PolynomialCoeffs::new(fv(&a));
                let r = pa.pad(new_len);
                if new_len >= n {
                    r.is_ok() && pa.len() == new_len && cv(&pa.coeffs)[..n] == a[..] && pa.coeffs[n..].iter().all(|x| x.0 == 0)
                } else {
                    r.is_err() && cv(&pa.coeffs) == a
                }
            }));
        }
        // coset_fft_with_options against direct evaluation, every zero-factor that divides the length
        for &shift in &[1u64, 7, P - 1, 1 << 32] {
            for zf in 0..=k.min(2) {
                let mut c = a.clone();
                for x in c.iter_mut().skip(n >> zf) {
                    *x = 0;
                }
                chk("coeffs.coset_fft_with_options", format!("coset_fft_with_options len={n} shift={shift} zero_factor={zf}"), guarded(|| {
                    let got = PolynomialCoeffs::new(fv(&c)).coset_fft_with_options(F(shift), if zf == 0 { None } else { Some(zf) }, None);
                    cv(&got.values) == naive_dft(&c, omega, shift)
                }));
            }
        }
        // extension-coefficient helpers (coefficients in the quadratic extension, point in the base field)
        let ec: Vec<[u64; 2]> = (0..n).map(|i| [a[i], b[(i * 3 + 1) % n]]).collect();
        let pe = PolynomialCoeffs::new(ec.iter().map(|c| E::from_basefield_array([F(c[0]), F(c[1])])).collect::<Vec<E>>());
        for &x in &alpha {
            let want = [poly_eval(&ec.iter().map(|c| c[0]).collect::<Vec<_>>(), x), poly_eval(&ec.iter().map(|c| c[1]).collect::<Vec<_>>(), x)];
            chk("coeffs.eval_base", format!("coeffs.eval_base len={n} x={x}"), guarded(|| {
                let g: [F; 2] = pe.eval_base::<2>(F(x)).to_basefield_array();
                [g[0].0 % P, g[1].0 % P] == want
            }));
            chk("coeffs.eval_base_with_powers", format!("coeffs.eval_base_with_powers len={n} x={x}"), guarded(|| {
                let powers: Vec<F> = (1..n).map(|i| F(powm(x, i as u128))).collect();
                let g: [F; 2] = pe.eval_base_with_powers::<2>(&powers).to_basefield_array();
                [g[0].0 % P, g[1].0 % P] == want
            }));
            chk("coeffs.eval_with_powers", format!("coeffs.eval_with_powers len={n} x={x}"), guarded(|| {
                let powers: Vec<F> = (1..n).map(|i| F(powm(x, i as u128))).collect();
                PolynomialCoeffs::new(fv(&a)).eval_with_powers(&powers).0 % P == poly_eval(&a, x)
            }));
        }
        chk("coeffs.to_extension", format!("coeffs.to_extension len={n}"), guarded(|| {
            let e = PolynomialCoeffs::new(fv(&a)).to_extension::<2>();
            e.len() == n && (0..n).all(|i| { let c: [F; 2] = e.coeffs[i].to_basefield_array(); c[0].0 % P == a[i] % P && c[1].0 % P == 0 })
        }));
        for rhs in [[0u64, 1], [3, 0], [P - 1, 1 << 32]] {
            chk("coeffs.mul_extension", format!("coeffs.mul_extension len={n} rhs={rhs:?}"), guarded(|| {
                let e = PolynomialCoeffs::new(fv(&a)).mul_extension::<2>(E::from_basefield_array([F(rhs[0]), F(rhs[1])]));
                e.len() == n && (0..n).all(|i| { let c: [F; 2] = e.coeffs[i].to_basefield_array(); c[0].0 % P == mulm(a[i], rhs[0]) && c[1].0 % P == mulm(a[i], rhs[1]) })
            }));
        }
    }
    chk("coeffs.empty", "coeffs.empty".into(), guarded(|| {
        let e = PolynomialCoeffs::<F>::empty();
        e.len() == 0 && e.is_zero() && e.degree_plus_one() == 0 && e.eval(F(5)).0 == 0 && e.lead().0 == 0
    }));
    // Sum over an iterator of polynomials of different lengths
    chk("coeffs.sum", "coeffs.sum".into(), guarded(|| {
        let ps = vec![PolynomialCoeffs::new(fv(&[1, 2, 3])), PolynomialCoeffs::new(fv(&[P - 1])), PolynomialCoeffs::new(fv(&[0, 0, 0, 5])), PolynomialCoeffs::<F>::empty()];
        let s: PolynomialCoeffs<F> = ps.into_iter().sum();
        s == PolynomialCoeffs::new(fv(&[0, 2, 3, 5]))
    }));
}

/// coefficients of the interpolant of `vals` on the subgroup generated by omega (O(n^2) inverse DFT)
fn naive_idft(vals: &[u64], omega: u64) -> Vec<u64> {
    let n = vals.len();
    let ninv = invm(n as u64 % P).unwrap();
    let winv = invm(omega).unwrap();
    (0..n).map(|j| {
        let mut acc = 0u64;
        for (i, &v) in vals.iter().enumerate() {
            acc = addm(acc, mulm(v, powm(winv, (i * j) as u128)));
        }
        mulm(acc, ninv)
    }).collect()
}

fn interpolation(ctx: &Ctx) {
    let xs: Vec<u64> = vec![0, 1, 2, P - 1, 1 << 32, 7];
    let ys: Vec<u64> = vec![0, 1, P - 1];
    // all subsets of xs of size 1..=4 (ordered as listed), all ordinate vectors
    let mut sets: Vec<Vec<u64>> = Vec::new();
    for mask in 1u32..(1 << xs.len()) {
        if mask.count_ones() <= 4 {
            sets.push((0..xs.len()).filter(|i| mask >> i & 1 == 1).map(|i| xs[i]).collect());
        }
    }
    ctx.sample(json!({"interpolation_point_sets": sets.len()}));
    par_for(sets.len(), |si| {
        let absc = &sets[si];
        let k = absc.len();
        for yv in all_vectors(&ys, k).into_iter().filter(|v| v.len() == k) {
            let case = format!("interpolate xs={absc:?} ys={yv:?}");
            if !ctx.want(&case) {
                continue;
            }
            ctx.tick(1);
            let pts: Vec<(F, F)> = absc.iter().zip(&yv).map(|(x, y)| (F(*x), F(*y))).collect();
            // reference Lagrange coefficients
            let mut want = vec![0u64; k];
            for i in 0..k {
                let mut num = vec![1u64];
                let mut den = 1u64;
                for j in 0..k {
                    if j != i {
                        num = poly_mul(&num, &[negm(absc[j]), 1]);
                        den = mulm(den, subm(absc[i], absc[j]));
                    }
                }
                let c = mulm(yv[i], invm(den).unwrap());
                for (t, nc) in num.iter().enumerate() {
                    want[t] = addm(want[t], mulm(*nc, c));
                }
            }
            let want_t = poly_trim(want.clone());
            let r = guarded(|| {
                let poly = poly_trim(cv(&interpolant(&pts).coeffs));
                let w = barycentric_weights(&pts);
                let mut evals = Vec::new();
                for &q in &[0u64, 1, 2, 3, P - 1, 1 << 32, 7, 11, u64::MAX] {
                    evals.push((q, interpolate(&pts, F(q), &w).0 % P));
                }
                (poly, evals)
            });
            match r {
                Ok((poly, evals)) => {
                    if poly != want_t {
                        ctx.violation("interpolant", case.clone(), format!("got {poly:?}, expected {want_t:?}"));
                    }
                    for (q, e) in evals {
                        if e != poly_eval(&want, q) {
                            ctx.violation("interpolate", case.clone(), format!("at x={q}: got {e}"));
                        }
                    }
                    ctx.class(format!("interp:k{k}"));
                }
                Err(p) => ctx.violation("interpolate:panic", case.clone(), p),
            }
            if k == 2 {
                for &q in &[0u64, 1, 5, P - 1, u64::MAX] {
                    ctx.tick(1);
                    match guarded(|| interpolate2([pts[0], pts[1]], F(q)).0 % P) {
                        Ok(v) => {
                            if v != poly_eval(&want, q) {
                                ctx.violation("interpolate2", case.clone(), format!("at {q}"));
                            }
                        }
                        Err(p) => ctx.violation("interpolate2:panic", case.clone(), p),
                    }
                }
            }
        }
    });
}

fn zero_poly_and_cosets(ctx: &Ctx) {
    let g = F::coset_shift().0 % P;
    for n_log in 0..=5usize {
        for rate_bits in 0..=3usize {
            let case = format!("zero_poly n_log={n_log} rate_bits={rate_bits}");
            if !ctx.want(&case) {
                continue;
            }
            let z = ZeroPolyOnCoset::<F>::new(n_log, rate_bits);
            let w = lib_root(n_log + rate_bits);
            let n = 1u64 << n_log;
            let mut x = g;
            for i in 0..(1usize << (n_log + rate_bits)) {
                ctx.tick(1);
                let zh = subm(powm(x, n as u128), 1);
                let mut bad = Vec::new();
                if z.eval(i).0 % P != zh {
                    bad.push("eval");
                }
                if mulm(z.eval_inverse(i).0, zh) != 1 {
                    bad.push("eval_inverse");
                }
                // L_0(x) = Z_H(x) / (n (x-1))
                let l0 = mulm(zh, invm(mulm(n, subm(x, 1))).unwrap());
                if z.eval_l_0(i, F(x)).0 % P != l0 {
                    bad.push("eval_l_0");
                }
                if !bad.is_empty() {
                    ctx.violation(format!("zero_poly:{}", bad[0]), case.clone(), format!("index {i}: {bad:?}"));
                }
                x = mulm(x, w);
            }
            ctx.class(format!("zero_poly:{n_log}:{rate_bits}"));
        }
    }
    // unique coset shifts: cosets pairwise disjoint, by explicit set intersection
    for bits in 0..=6usize {
        for num in 1..=8usize {
            let case = format!("coset_shifts bits={bits} num={num}");
            if !ctx.want(&case) {
                continue;
            }
            ctx.tick(1);
            let shifts = get_unique_coset_shifts::<F>(1 << bits, num);
            let w = lib_root(bits);
            let mut seen = std::collections::BTreeSet::new();
            let mut ok = shifts.len() == num;
            for s in &shifts {
                let mut x = s.0 % P;
                for _ in 0..(1 << bits) {
                    if !seen.insert(x) {
                        ok = false;
                    }
                    x = mulm(x, w);
                }
            }
            if !ok {
                ctx.violation("coset_shifts", case, "cosets overlap");
            } else {
                ctx.class("coset_shifts:ok");
            }
        }
    }
}

#[derive(Clone, Copy, PartialEq, Debug)]
struct Quad([u64; 4]);
#[derive(Clone, Copy)]
struct Big([u64; 2048]); // 16 KiB = BIG_T_SIZE

fn rev_bits(i: usize, bits: usize) -> usize {
    let mut r = 0;
    for b in 0..bits {
        if i >> b & 1 == 1 {
            r |= 1 << (bits - 1 - b);
        }
    }
    r
}

fn index_permutations(ctx: &Ctx) {
    let max_lb = if ctx.tier.thorough() { 20 } else { 17 };
    let jobs: Vec<usize> = (0..=max_lb).collect();
    par_for(jobs.len(), |ji| {
        let lb = jobs[ji];
        let n = 1usize << lb;
        let case = format!("reverse_index_bits lb={lb}");
        if !ctx.want(&case) {
            return;
        }
        ctx.tick(6);
        let r = guarded(|| {
            let mut errs = Vec::new();
            let want: Vec<u64> = (0..n).map(|i| rev_bits(i, lb) as u64).collect();
            let id64: Vec<u64> = (0..n as u64).collect();
            if reverse_index_bits(&id64) != want {
                errs.push("reverse_index_bits<u64>");
            }
            let mut a = id64.clone();
            reverse_index_bits_in_place(&mut a);
            if a != want {
                errs.push("in_place<u64>");
            }
            if lb <= 16 {
                let id16: Vec<u16> = (0..n).map(|i| i as u16).collect();
                let mut a = id16.clone();
                reverse_index_bits_in_place(&mut a);
                if a.iter().zip(&want).any(|(x, y)| *x as u64 != *y) || reverse_index_bits(&id16).iter().zip(&want).any(|(x, y)| *x as u64 != *y) {
                    errs.push("u16");
                }
            }
            let idq: Vec<Quad> = (0..n as u64).map(|i| Quad([i, !i, i ^ 0x55, 7])).collect();
            let mut a = idq.clone();
            reverse_index_bits_in_place(&mut a);
            let rq = reverse_index_bits(&idq);
            for i in 0..n {
                let w = want[i];
                if a[i] != Quad([w, !w, w ^ 0x55, 7]) || rq[i] != a[i] {
                    errs.push("[u64;4]");
                    break;
                }
            }
            // u8 payload = index mod 251 with a checksum on position
            let id8: Vec<u8> = (0..n).map(|i| (i % 251) as u8).collect();
            let mut a = id8.clone();
            reverse_index_bits_in_place(&mut a);
            if (0..n).any(|i| a[i] != (want[i] % 251) as u8) {
                errs.push("u8");
            }
            if lb <= 4 {
                let idb: Vec<Big> = (0..n).map(|i| Big([i as u64; 2048])).collect();
                let mut a = idb.clone();
                reverse_index_bits_in_place(&mut a);
                if (0..n).any(|i| a[i].0[0] != want[i] || a[i].0[2047] != want[i]) {
                    errs.push("big-T");
                }
            }
            errs
        });
        match r {
            Ok(e) if e.is_empty() => ctx.class(format!("rib:{lb}")),
            Ok(e) => ctx.violation(format!("reverse_index_bits:{}", e[0]), case, format!("{e:?}")),
            Err(p) => ctx.violation("reverse_index_bits:panic", case, p),
        }
    });
    // transpose
    for r in 1..=9usize {
        for c in 1..=9usize {
            ctx.tick(1);
            let m: Vec<Vec<u64>> = (0..r).map(|i| (0..c).map(|j| (i * 100 + j) as u64).collect()).collect();
            match guarded(|| transpose(&m)) {
                Ok(t) => {
                    let ok = t.len() == c && t.iter().enumerate().all(|(j, row)| row.len() == r && row.iter().enumerate().all(|(i, v)| *v == (i * 100 + j) as u64));
                    if !ok {
                        ctx.violation("transpose", format!("transpose {r}x{c}"), "wrong");
                    }
                }
                Err(p) => ctx.violation("transpose:panic", format!("transpose {r}x{c}"), p),
            }
        }
    }
    for (r, c) in [(3usize, 1000usize), (1000, 3), (64, 65), (127, 129)] {
        ctx.tick(1);
        let m: Vec<Vec<u64>> = (0..r).map(|i| (0..c).map(|j| (i * 10000 + j) as u64).collect()).collect();
        let t = transpose(&m);
        if !(t.len() == c && t.iter().enumerate().all(|(j, row)| row.iter().enumerate().all(|(i, v)| *v == (i * 10000 + j) as u64))) {
            ctx.violation("transpose", format!("transpose {r}x{c}"), "wrong");
        }
    }
    ctx.class("transpose");
    // integer helpers
    let mut ns: Vec<u64> = (0..=(1u64 << 16)).collect();
    for k in 0..64u32 {
        let p2 = 1u64 << k;
        ns.extend_from_slice(&[p2, p2.wrapping_sub(1), p2.wrapping_add(1)]);
    }
    ns.push(u64::MAX);
    for &n in &ns {
        ctx.tick(1);
        let bits = (0..64).rev().find(|b| n >> b & 1 == 1).map_or(0, |b| b + 1);
        if bits_u64(n) != bits {
            ctx.violation("bits_u64", format!("bits_u64 {n}"), "wrong");
        }
        let nu = n as usize;
        // log2_ceil: smallest k with 2^k >= n (n=0 -> 0)
        let mut k = 0usize;
        while k < 64 && (1u128 << k) < nu as u128 {
            k += 1;
        }
        if log2_ceil(nu) != k {
            ctx.violation("log2_ceil", format!("log2_ceil {n}"), format!("got {}, expected {k}", log2_ceil(nu)));
        }
        let is_pow2 = nu != 0 && nu & (nu - 1) == 0;
        match guarded(|| log2_strict(nu)) {
            Ok(v) => {
                if !is_pow2 || 1usize << v != nu {
                    ctx.violation("log2_strict", format!("log2_strict {n}"), format!("returned {v}"));
                }
            }
            Err(_) => {
                if is_pow2 {
                    ctx.violation("log2_strict", format!("log2_strict {n}"), "panicked on a power of two");
                }
            }
        }
        if n > 0 {
            for base in [2u64, 3, 10, 1 << 32] {
                let mut i = 0usize;
                let mut cur: u128 = 1;
                while cur * base as u128 <= n as u128 {
                    cur *= base as u128;
                    i += 1;
                }
                if log_floor(n, base) != i {
                    ctx.violation("log_floor", format!("log_floor {n} {base}"), "wrong");
                }
            }
        }
    }
    ctx.class("int-helpers");
}
