//! C12 — Merkle commitments open only to the committed leaf at the committed position.
//!
//! Four bounded-exhaustive sections, all against the real `plonky2::hash` code:
//!   tree     MerkleTree::new / prove / verify_merkle_proof(_to_cap): every (hasher, 2^k leaves, cap height,
//!            leaf width, leaf family) x every position, the complete single-deviation negative set;
//!   batch    BatchMerkleTree::new / open_batch / values / verify_batch_merkle_proof_to_cap over every strictly
//!            decreasing height profile, same negative set per layer of leaves;
//!   compress path_compression::{compress,decompress}_merkle_proofs over every index tuple (repetitions included);
//!   sched    every fork-join order of fill_subtree (stateless choice-point DFS over the `join` chooser), for
//!            MerkleTree and BatchMerkleTree; plus all orders with <= 2 "right first" answers for larger trees.
//! Oracle: a level-by-level reference tree (height-indexed node table) that uses only the hasher primitives
//! `H::hash_or_noop`, `H::two_to_one`, `Hash::to_vec`; the hash functions themselves are C13's subject.

use std::cell::Cell;
use std::collections::{BTreeMap, BTreeSet};
use std::rc::Rc;

use plonky2::field::goldilocks_field::GoldilocksField as F;
use plonky2::field::types::{Field, PrimeField64};
use plonky2::hash::batch_merkle_tree::BatchMerkleTree;
use plonky2::hash::keccak::KeccakHash;
use plonky2::hash::merkle_proofs::{verify_batch_merkle_proof_to_cap, verify_merkle_proof, verify_merkle_proof_to_cap, MerkleProof};
use plonky2::hash::merkle_tree::{MerkleCap, MerkleTree};
use plonky2::hash::poseidon::PoseidonHash;
use plonky2::plonk::config::{GenericHashOut, Hasher};
use plonky2::verif_hooks::{compress_merkle_proofs, decompress_merkle_proofs};
use plonky2_maybe_rayon::sched::set_chooser;
use serde_json::json;

use crate::core::*;

// ---------------------------------------------------------------------------------------------
// Hashers under test and how to tamper with one "element" of their digests.

pub trait HX: Hasher<F> + 'static {
    const NAME: &'static str;
    /// Number of independently editable digest elements (field elements resp. bytes).
    const ELEMS: usize;
    fn bump(h: Self::Hash, e: usize) -> Self::Hash;
}
impl HX for PoseidonHash {
    const NAME: &'static str = "poseidon";
    const ELEMS: usize = 4;
    fn bump(h: Self::Hash, e: usize) -> Self::Hash {
        let mut x = h;
        x.elements[e] = F::from_canonical_u64(addm(x.elements[e].to_canonical_u64(), 1));
        x
    }
}
impl HX for KeccakHash<25> {
    const NAME: &'static str = "keccak25";
    const ELEMS: usize = 25;
    fn bump(h: Self::Hash, e: usize) -> Self::Hash {
        let mut x = h;
        x.0[e] = x.0[e].wrapping_add(1);
        x
    }
}
const HASHERS: [&str; 2] = ["poseidon", "keccak25"];

// ---------------------------------------------------------------------------------------------
// Deterministic leaves. For width >= 1 the rows of one matrix are pairwise distinct (element 0 is injective
// in the row number and walks 0, p-2, 2, p-4, ...); the last element cycles through the boundary alphabet A8.

fn row(tag: u64, i: usize, w: usize) -> Vec<F> {
    let a = a8();
    (0..w)
        .map(|e| {
            let v = if e == 0 {
                if i % 2 == 0 { i as u64 + tag } else { P - 1 - i as u64 - tag }
            } else if e == w - 1 {
                a[(i + e) % a.len()]
            } else {
                let mut s = tag.wrapping_mul(1_000_003) ^ ((i as u64) << 20) ^ e as u64;
                splitmix(&mut s) % P
            };
            F::from_canonical_u64(v)
        })
        .collect()
}

fn matrix(tag: u64, n: usize, w: usize, fam: &str) -> Vec<Vec<F>> {
    let mut v: Vec<Vec<F>> = (0..n).map(|i| row(tag, i, w)).collect();
    match fam {
        "distinct" => {}
        "eq-sib" => {
            if n >= 2 {
                v[1] = v[0].clone()
            }
        }
        "eq-far" => v[n - 1] = v[0].clone(),
        "all-eq" => {
            for i in 1..n {
                v[i] = v[0].clone()
            }
        }
        _ => unreachable!(),
    }
    v
}

fn pairwise_distinct(m: &[Vec<F>]) -> bool {
    let s: BTreeSet<Vec<u64>> = m.iter().map(|r| r.iter().map(|x| x.to_canonical_u64()).collect()).collect();
    s.len() == m.len()
}

// ---------------------------------------------------------------------------------------------
// Reference model: node table indexed by height (height h has 2^h nodes; the leaves of layer 0 sit at height
// h0). `post[h][i]` is the digest of node i at height h after the rows of a leaf layer sitting at that height
// (if any) have been absorbed. An ordinary Merkle tree is the one-layer case.

struct RefTree<H: HX> {
    h0: usize,
    cap_h: usize,
    heights: Vec<usize>,
    post: Vec<Vec<H::Hash>>,
}

fn lg(n: usize) -> usize {
    assert!(n.is_power_of_two());
    n.trailing_zeros() as usize
}

fn ref_build<H: HX>(layers: &[Vec<Vec<F>>], cap_h: usize) -> RefTree<H> {
    let heights: Vec<usize> = layers.iter().map(|m| lg(m.len())).collect();
    let h0 = heights[0];
    let mut post: Vec<Vec<H::Hash>> = vec![Vec::new(); h0 + 1];
    post[h0] = layers[0].iter().map(|r| H::hash_or_noop(r)).collect();
    let mut next = 1;
    let mut h = h0;
    while h > cap_h {
        let below = &post[h];
        let mut cur: Vec<H::Hash> = (0..below.len() / 2).map(|i| H::two_to_one(below[2 * i], below[2 * i + 1])).collect();
        h -= 1;
        if next < layers.len() && heights[next] == h {
            for (i, d) in cur.iter_mut().enumerate() {
                let mut v: Vec<F> = d.to_vec();
                v.extend_from_slice(&layers[next][i]);
                *d = H::hash_or_noop(&v);
            }
            next += 1;
        }
        post[h] = cur;
    }
    assert_eq!(next, layers.len(), "reference: every layer must sit at or above the cap");
    RefTree { h0, cap_h, heights, post }
}

impl<H: HX> RefTree<H> {
    fn cap(&self) -> Vec<H::Hash> {
        self.post[self.cap_h].clone()
    }
    fn proof(&self, i: usize) -> Vec<H::Hash> {
        (self.cap_h + 1..=self.h0).rev().map(|h| self.post[h][(i >> (self.h0 - h)) ^ 1]).collect()
    }
    /// The documented `digests` layout: per sub-tree, left sub-tree || left child || right child || right sub-tree;
    /// sub-trees of one cap entry after another; for batch trees one such segment per layer of leaves.
    fn layout(&self) -> Vec<H::Hash> {
        fn lay<H: HX>(t: &RefTree<H>, h: usize, idx: usize, bottom: usize, out: &mut Vec<H::Hash>) {
            if h == bottom {
                return;
            }
            lay(t, h + 1, 2 * idx, bottom, out);
            out.push(t.post[h + 1][2 * idx]);
            out.push(t.post[h + 1][2 * idx + 1]);
            lay(t, h + 1, 2 * idx + 1, bottom, out);
        }
        let mut bounds = self.heights.clone();
        bounds.push(self.cap_h);
        let mut out = Vec::new();
        for w in bounds.windows(2) {
            for c in 0..(1usize << w[1]) {
                lay(self, w[1], c, w[0], &mut out);
            }
        }
        out
    }
}

/// Reference verdict.
#[derive(Clone, Copy, PartialEq, Eq, Debug)]
enum R {
    Accept,
    Mismatch,
    /// index / sibling count / layer heights do not describe a path of this cap: precondition of the component
    /// API is violated; anything but acceptance is fine.
    Malformed,
}
/// Implementation verdict.
#[derive(Clone, Copy, PartialEq, Eq, Debug)]
enum V {
    Accept,
    Reject,
    Panic,
}
impl V {
    fn s(self) -> &'static str {
        match self {
            V::Accept => "accepted",
            V::Reject => "rejected",
            V::Panic => "panic",
        }
    }
}

fn ref_verify<H: HX>(values: &[Vec<F>], heights: &[usize], index: usize, siblings: &[H::Hash], cap: &[H::Hash]) -> R {
    let mut d = H::hash_or_noop(&values[0]);
    let mut h = heights[0] as i64;
    let mut next = 1;
    let mut idx = index;
    for &s in siblings {
        d = if idx & 1 == 1 { H::two_to_one(s, d) } else { H::two_to_one(d, s) };
        idx >>= 1;
        h -= 1;
        if next < values.len() && h == heights[next] as i64 {
            let mut v: Vec<F> = d.to_vec();
            v.extend_from_slice(&values[next]);
            d = H::hash_or_noop(&v);
            next += 1;
        }
    }
    // Preconditions of the component API: all layers absorbed, cap index in range, not more siblings than the
    // height of the first layer (the implementation's height counter is unsigned).
    if next != values.len() || idx >= cap.len() || h < 0 {
        return R::Malformed;
    }
    if d == cap[idx] {
        R::Accept
    } else {
        R::Mismatch
    }
}

fn impl_verify<H: HX>(plain: bool, values: &[Vec<F>], heights: &[usize], index: usize, siblings: &[H::Hash], cap: &[H::Hash]) -> V {
    let proof = MerkleProof::<F, H> { siblings: siblings.to_vec() };
    let cap = MerkleCap::<F, H>(cap.to_vec());
    let r = if plain {
        guarded(|| verify_merkle_proof_to_cap::<F, H>(values[0].clone(), index, &cap, &proof))
    } else {
        guarded(|| verify_batch_merkle_proof_to_cap::<F, H>(values, heights, index, &cap, &proof))
    };
    match r {
        Ok(Ok(())) => V::Accept,
        Ok(Err(_)) => V::Reject,
        Err(_) => V::Panic,
    }
}

// ---------------------------------------------------------------------------------------------
// Per-job report (merged into the Ctx in job order, so the run is deterministic).

#[derive(Default)]
struct Rep {
    fails: Vec<(String, String)>,
    machinery: Vec<String>,
    evals: u64,
    classes: BTreeSet<String>,
    counts: BTreeMap<String, u64>,
    states: u64,
    transitions: u64,
    traces: u64,
    sample: Option<serde_json::Value>,
}
impl Rep {
    /// One violation per site and job (the first, i.e. smallest, witness).
    fn fail(&mut self, site: String, detail: String) {
        if !self.fails.iter().any(|(s, _)| *s == site) {
            self.fails.push((site, detail));
        }
    }
    fn class(&mut self, c: String) {
        self.classes.insert(c);
    }
    fn count(&mut self, k: &str, n: u64) {
        *self.counts.entry(k.to_string()).or_insert(0) += n;
    }
}

fn run_job(case: &str, f: &dyn Fn(&mut Rep)) -> Rep {
    let go = || {
        let mut r = Rep::default();
        if let Err(p) = guarded(|| f(&mut r)) {
            r.machinery.push(format!("harness-side panic in {case}: {p}"));
        }
        r
    };
    let r = go();
    if !r.fails.is_empty() {
        // Determinism is judged on the failing sites; the witness text may legitimately vary when a defect makes
        // the implementation read uninitialised digests (MaybeUninit + set_len).
        let again = go();
        let sites = |x: &Rep| x.fails.iter().map(|(s, _)| s.clone()).collect::<BTreeSet<_>>();
        if sites(&again) != sites(&r) {
            let mut r = r;
            r.machinery.push(format!("non-deterministic failure in {case}: {:?} then {:?}", r.fails, again.fails));
            r.fails.clear();
            return r;
        }
    }
    r
}

fn merge(ctx: &Ctx, case: &str, r: Rep) {
    ctx.tick(r.evals);
    ctx.state(r.states);
    ctx.transition(r.transitions);
    ctx.trace(r.traces);
    for c in r.classes {
        ctx.class(c);
    }
    for (k, n) in r.counts {
        ctx.count(&k, n);
    }
    for m in r.machinery {
        ctx.machinery_error(m);
    }
    for (site, detail) in r.fails {
        ctx.violation(site, case, detail);
    }
    if let Some(s) = r.sample {
        ctx.sample(s);
    }
}

/// Runs the jobs whose descriptor passes the replay filter on the worker pool, merges in job order.
fn run_jobs<J: Sync>(ctx: &Ctx, jobs: &[J], name: impl Fn(&J) -> String + Sync, body: impl Fn(&J, &mut Rep) + Sync) {
    let wanted: Vec<(usize, String)> = jobs.iter().enumerate().map(|(i, j)| (i, name(j))).filter(|(_, n)| ctx.want(n)).collect();
    // Job lists are ordered smallest first (so the first reported witness is the smallest); the workers take
    // them from the costly end for load balance and the reports are merged in list order.
    let last = wanted.len().saturating_sub(1);
    let mut reps = par_map(wanted.len(), |w| {
        let (i, case) = &wanted[last - w];
        run_job(case, &|r: &mut Rep| body(&jobs[*i], r))
    });
    reps.reverse();
    for ((_, case), r) in wanted.iter().zip(reps) {
        merge(ctx, case, r);
    }
}

// ---------------------------------------------------------------------------------------------
// The opening checks shared by plain and batch trees: for every position the honest opening and the complete
// single-deviation negative set, each judged by the reference verdict on identical inputs and, where the
// structure decides it, by the expectation the property states (must reject / must accept).

struct Opened<'a, H: HX> {
    api: &'static str,
    plain: bool,
    layers: &'a [Vec<Vec<F>>],
    rt: &'a RefTree<H>,
    /// all rows of every layer pairwise distinct
    distinct: bool,
    cap: Vec<H::Hash>,
    proofs: Vec<Vec<H::Hash>>,
    /// cap and proofs equal the reference
    inputs_honest: bool,
}

fn judge<H: HX>(o: &Opened<H>, rep: &mut Rep, what: &str, expect: Option<bool>, detail: &dyn Fn() -> String, values: &[Vec<F>], index: usize, sib: &[H::Hash], cap: &[H::Hash]) {
    rep.evals += 1;
    let v = impl_verify::<H>(o.plain, values, &o.rt.heights, index, sib, cap);
    let r = ref_verify::<H>(values, &o.rt.heights, index, sib, cap);
    if v == V::Panic {
        rep.count(if o.plain { "tree_verify_panics" } else { "batch_verify_panics" }, 1);
    }
    let agree = match r {
        R::Accept => v == V::Accept,
        R::Mismatch => v == V::Reject,
        R::Malformed => v != V::Accept,
    };
    let mut bad = !agree;
    // The structural expectations presuppose that cap and siblings are the ones of the reference tree; if the
    // implementation produced something else (already reported), only "the produced proof must verify" remains.
    let expect = if o.inputs_honest || what == "honest" { expect } else { None };
    match expect {
        Some(true) => {
            // the property demands acceptance
            if r != R::Accept && o.inputs_honest {
                rep.machinery.push(format!("oracle inconsistency ({what}): reference {r:?} where the structure demands acceptance; {}", detail()));
            }
            bad |= v != V::Accept;
        }
        Some(false) => {
            if r == R::Accept {
                rep.machinery.push(format!("oracle inconsistency ({what}): reference accepts where the structure demands rejection; {}", detail()));
            }
            bad |= v == V::Accept;
        }
        None => {}
    }
    if bad {
        rep.fail(format!("{}/{}:{}", o.api, what, v.s()), format!("{}; implementation {}, reference {:?}", detail(), v.s(), r));
    } else {
        let why = match (expect, r) {
            (None, R::Accept) => "-equal-data",
            (_, R::Malformed) => "-malformed",
            _ => "",
        };
        rep.class(format!("{}:{}:{}:{}{}", H::NAME, if o.plain { "tree" } else { "batch" }, what, v.s(), why));
    }
}

fn check_openings<H: HX>(o: &Opened<H>, rep: &mut Rep) {
    let rt = o.rt;
    let n = 1usize << rt.h0;
    let own_row = |l: usize, i: usize| i >> (rt.h0 - rt.heights[l]);
    for i in 0..n {
        let values: Vec<Vec<F>> = (0..o.layers.len()).map(|l| o.layers[l][own_row(l, i)].clone()).collect();
        let sib = &o.proofs[i];
        let cap = &o.cap;
        // (b) honest opening
        judge(o, rep, "honest", Some(true), &|| format!("position {i}"), &values, i, sib, cap);
        if o.plain && rt.cap_h == 0 && cap.len() == 1 {
            rep.evals += 1;
            let proof = MerkleProof::<F, H> { siblings: sib.clone() };
            match guarded(|| verify_merkle_proof::<F, H>(values[0].clone(), i, cap[0], &proof)) {
                Ok(Ok(())) => {}
                other => rep.fail("verify_merkle_proof/honest".into(), format!("position {i}: {:?}", other.map(|r| r.map_err(|e| e.to_string())))),
            }
        }
        // (c) every other row of the same layer in place of the committed one
        for l in 0..o.layers.len() {
            let own = own_row(l, i);
            for r in 0..o.layers[l].len() {
                if r == own {
                    continue;
                }
                let mut vals = values.clone();
                vals[l] = o.layers[l][r].clone();
                let differs = o.layers[l][r] != o.layers[l][own];
                let expect = if differs { Some(false) } else { Some(true) };
                judge(o, rep, "wrong-leaf", expect, &|| format!("proof of position {i}, layer {l}: row {r} instead of row {own}"), &vals, i, sib, cap);
            }
        }
        // (c) every other position with the committed data
        for j in 0..n {
            if j == i {
                continue;
            }
            let expect = if o.distinct { Some(false) } else { None };
            judge(o, rep, "wrong-index", expect, &|| format!("proof and data of position {i} presented for index {j}"), &values, j, sib, cap);
        }
        for j in [i + n, i + 2 * n] {
            judge(o, rep, "index-out-of-range", Some(false), &|| format!("proof and data of position {i} presented for index {j}"), &values, j, sib, cap);
        }
        // (d) every sibling element
        for s in 0..sib.len() {
            for e in 0..H::ELEMS {
                let mut t = sib.clone();
                t[s] = H::bump(t[s], e);
                judge(o, rep, "sibling+1", Some(false), &|| format!("position {i}, sibling {s}, element {e}"), &values, i, &t, cap);
            }
        }
        // (e) the cap entry of the path, and every other cap entry
        let own_cap = i >> (rt.h0 - rt.cap_h);
        for e in 0..H::ELEMS {
            let mut c = cap.clone();
            c[own_cap] = H::bump(c[own_cap], e);
            judge(o, rep, "cap-own+1", Some(false), &|| format!("position {i}, cap entry {own_cap}, element {e}"), &values, i, sib, &c);
        }
        for ce in 0..cap.len() {
            if ce == own_cap {
                continue;
            }
            for e in [0, H::ELEMS - 1] {
                let mut c = cap.clone();
                c[ce] = H::bump(c[ce], e);
                judge(o, rep, "cap-other+1", Some(true), &|| format!("position {i}, unrelated cap entry {ce}, element {e}"), &values, i, sib, &c);
            }
        }
        // (f) truncated / extended sibling lists
        let filler = rt.post[rt.h0][0];
        let mut shapes: Vec<(&str, Vec<H::Hash>)> = Vec::new();
        if !sib.is_empty() {
            shapes.push(("truncated", sib[..sib.len() - 1].to_vec()));
            shapes.push(("truncated", sib[1..].to_vec()));
            if sib.len() >= 2 {
                shapes.push(("truncated", Vec::new()));
            }
        }
        let mut ext = sib.clone();
        ext.push(*sib.last().unwrap_or(&filler));
        shapes.push(("extended", ext));
        let mut ext = vec![filler];
        ext.extend_from_slice(sib);
        shapes.push(("extended", ext));
        for (what, t) in shapes {
            judge(o, rep, what, Some(false), &|| format!("position {i}, {} siblings instead of {}", t.len(), sib.len()), &values, i, &t, cap);
        }
    }
}

// ---------------------------------------------------------------------------------------------
// Section 1+2: MerkleTree.

#[derive(Clone, Debug)]
struct TreeJob {
    hasher: usize,
    k: usize,
    cap_h: usize,
    w: usize,
    fam: &'static str,
}
fn tree_name(j: &TreeJob) -> String {
    format!("tree H={} leaves=2^{} cap={} width={} family={}", HASHERS[j.hasher], j.k, j.cap_h, j.w, j.fam)
}

const WIDTHS: [usize; 7] = [0, 1, 3, 4, 5, 9, 135];

fn tree_jobs(kmax: usize) -> Vec<TreeJob> {
    let mut v = Vec::new();
    for k in 0..=kmax {
        for hasher in 0..2 {
            for cap_h in 0..=k {
                for w in WIDTHS {
                    let n = 1usize << k;
                    let fams: Vec<&'static str> = if w == 0 {
                        vec!["all-eq"]
                    } else {
                        let mut f = vec!["distinct"];
                        if n >= 2 {
                            f.push("eq-sib");
                            f.push("all-eq");
                        }
                        if n >= 4 {
                            f.push("eq-far");
                        }
                        f
                    };
                    for fam in fams {
                        v.push(TreeJob { hasher, k, cap_h, w, fam });
                    }
                }
            }
        }
    }
    v
}

fn compare_tree<H: HX>(rep: &mut Rep, api: &str, rt: &RefTree<H>, cap: &[H::Hash], digests: &[H::Hash]) {
    rep.evals += 2;
    let want_cap = rt.cap();
    if cap != &want_cap[..] {
        let at = cap.iter().zip(&want_cap).position(|(a, b)| a != b);
        rep.fail(format!("{api}/cap"), format!("cap differs from the level-by-level reference (len {} vs {}, first differing entry {at:?})", cap.len(), want_cap.len()));
    }
    let want = rt.layout();
    if digests != &want[..] {
        let at = digests.iter().zip(&want).position(|(a, b)| a != b);
        rep.fail(format!("{api}/digests"), format!("digests differ from the documented layout (len {} vs {}, first differing slot {at:?})", digests.len(), want.len()));
    }
}

fn tree_job<H: HX>(j: &TreeJob, rep: &mut Rep) {
    let n = 1usize << j.k;
    let leaves = matrix(0, n, j.w, j.fam);
    let layers = vec![leaves.clone()];
    let rt = ref_build::<H>(&layers, j.cap_h);
    // Leaf digests: a leaf that fits into a digest is used verbatim (little-endian, zero padded), a longer one is
    // hashed without padding. Pins the threshold of `hash_or_noop`, on which tree, verifier and reference rely.
    for (i, leaf) in leaves.iter().enumerate() {
        rep.evals += 1;
        let got = rt.post[j.k][i];
        let ok = if j.w * 8 <= H::HASH_SIZE {
            let mut bytes = vec![0u8; H::HASH_SIZE];
            for (e, x) in leaf.iter().enumerate() {
                bytes[8 * e..8 * e + 8].copy_from_slice(&x.to_canonical_u64().to_le_bytes());
            }
            got.to_bytes() == bytes
        } else {
            got == H::hash_no_pad(leaf)
        };
        if !ok {
            rep.fail("Hasher::hash_or_noop/threshold".into(), format!("leaf {i} of width {} (digest size {} bytes): neither verbatim nor hash_no_pad as documented", j.w, H::HASH_SIZE));
        }
    }
    rep.evals += 1;
    let tree = match guarded(|| MerkleTree::<F, H>::new(leaves.clone(), j.cap_h)) {
        Ok(t) => t,
        Err(p) => {
            rep.fail("MerkleTree::new/panic".into(), p);
            return;
        }
    };
    compare_tree(rep, "MerkleTree::new", &rt, &tree.cap.0, &tree.digests);
    if tree.leaves != leaves {
        rep.fail("MerkleTree::new/leaves".into(), "stored leaves differ from the input".into());
    }
    let mut proofs = Vec::new();
    for i in 0..n {
        rep.evals += 1;
        match guarded(|| tree.prove(i)) {
            Ok(p) => {
                if p.siblings != rt.proof(i) {
                    rep.fail("MerkleTree::prove/siblings".into(), format!("position {i}: siblings differ from the reference path ({} vs {} entries)", p.siblings.len(), rt.proof(i).len()));
                }
                proofs.push(p.siblings);
            }
            Err(p) => {
                rep.fail("MerkleTree::prove/panic".into(), format!("position {i}: {p}"));
                return;
            }
        }
    }
    if j.k == 3 && j.cap_h == 1 && j.w == 5 && j.fam == "distinct" {
        rep.sample = Some(json!({"case": tree_name(j), "cap": format!("{:?}", tree.cap.0), "proof_of_5": format!("{:?}", proofs[5]), "digests": tree.digests.len()}));
    }
    let inputs_honest = tree.cap.0 == rt.cap() && (0..n).all(|i| proofs[i] == rt.proof(i));
    let o = Opened { api: "verify_merkle_proof_to_cap", plain: true, layers: &layers, rt: &rt, distinct: pairwise_distinct(&leaves), cap: tree.cap.0.clone(), proofs, inputs_honest };
    check_openings(&o, rep);
}

fn section_tree(ctx: &Ctx) {
    let kmax = if ctx.tier.thorough() { 7 } else { 5 };
    let jobs = tree_jobs(kmax);
    ctx.count("tree_jobs", jobs.len() as u64);
    run_jobs(ctx, &jobs, tree_name, |j, rep| match j.hasher {
        0 => tree_job::<PoseidonHash>(j, rep),
        _ => tree_job::<KeccakHash<25>>(j, rep),
    });
}

// ---------------------------------------------------------------------------------------------
// Section 3: BatchMerkleTree. Input contract (read off `BatchMerkleTree::new`): non-empty list of matrices, every
// row count a power of two, strictly decreasing, cap_height <= log2(rows of the last matrix).

#[derive(Clone, Debug)]
struct BatchJob {
    hasher: usize,
    heights: Vec<usize>,
    widths: Vec<usize>,
    cap_h: usize,
    fam: &'static str,
}
fn batch_name(j: &BatchJob) -> String {
    format!("batch H={} heights={:?} widths={:?} cap={} family={}", HASHERS[j.hasher], j.heights, j.widths, j.cap_h, j.fam)
}

/// All strictly decreasing sequences of 1..=max_layers heights in 0..=hmax, tallest first.
fn profiles(hmax: usize, max_layers: usize) -> Vec<Vec<usize>> {
    let mut out = Vec::new();
    for mask in 1u32..(1 << (hmax + 1)) {
        if mask.count_ones() as usize > max_layers {
            continue;
        }
        let p: Vec<usize> = (0..=hmax).rev().filter(|h| mask >> h & 1 == 1).collect();
        out.push(p);
    }
    out.sort();
    out
}

fn batch_layers(j: &BatchJob) -> Vec<Vec<Vec<F>>> {
    j.heights
        .iter()
        .zip(&j.widths)
        .enumerate()
        .map(|(l, (&h, &w))| {
            let n = 1usize << h;
            let fam = if j.fam == "eq-sib" && n >= 2 { "eq-sib" } else { "distinct" };
            matrix(1 + l as u64, n, w, fam)
        })
        .collect()
}

fn batch_jobs(hmax: usize) -> Vec<BatchJob> {
    const BW: [usize; 4] = [0, 1, 4, 9];
    let mut v = Vec::new();
    for heights in profiles(hmax, 3) {
        let nl = heights.len();
        for hasher in 0..2 {
            for cap_h in 0..=*heights.last().unwrap() {
                for wi in 0..BW.len().pow(nl as u32) {
                    let widths: Vec<usize> = (0..nl).map(|l| BW[wi / BW.len().pow(l as u32) % BW.len()]).collect();
                    for fam in ["distinct", "eq-sib"] {
                        if fam == "eq-sib" && heights[0] == 0 {
                            continue;
                        }
                        v.push(BatchJob { hasher, heights: heights.clone(), widths: widths.clone(), cap_h, fam });
                    }
                }
            }
        }
    }
    v
}

fn batch_job<H: HX>(j: &BatchJob, rep: &mut Rep) {
    let layers = batch_layers(j);
    let rt = ref_build::<H>(&layers, j.cap_h);
    let n = 1usize << j.heights[0];
    rep.evals += 1;
    let tree = match guarded(|| BatchMerkleTree::<F, H>::new(layers.clone(), j.cap_h)) {
        Ok(t) => t,
        Err(p) => {
            rep.fail("BatchMerkleTree::new/panic".into(), p);
            return;
        }
    };
    compare_tree(rep, "BatchMerkleTree::new", &rt, &tree.cap.0, &tree.digests);
    if tree.leaf_heights != j.heights {
        rep.fail("BatchMerkleTree::new/leaf_heights".into(), format!("{:?} instead of {:?}", tree.leaf_heights, j.heights));
    }
    if tree.leaves != layers {
        rep.fail("BatchMerkleTree::new/leaves".into(), "stored leaves differ from the input".into());
    }
    let mut proofs = Vec::new();
    for i in 0..n {
        rep.evals += 2;
        match guarded(|| (tree.open_batch(i), tree.values(i))) {
            Ok((p, vals)) => {
                if p.siblings != rt.proof(i) {
                    rep.fail("BatchMerkleTree::open_batch/siblings".into(), format!("position {i}: siblings differ from the reference path ({} vs {} entries)", p.siblings.len(), rt.proof(i).len()));
                }
                let want: Vec<Vec<F>> = (0..layers.len()).map(|l| layers[l][i >> (j.heights[0] - j.heights[l])].clone()).collect();
                if vals != want {
                    rep.fail("BatchMerkleTree::values".into(), format!("position {i}: opened rows are not the committed rows of that position"));
                }
                proofs.push(p.siblings);
            }
            Err(p) => {
                rep.fail("BatchMerkleTree::open_batch/panic".into(), format!("position {i}: {p}"));
                return;
            }
        }
    }
    if j.heights == [3, 1] && j.widths == [1, 9] && j.cap_h == 0 && j.fam == "distinct" {
        rep.sample = Some(json!({"case": batch_name(j), "cap": format!("{:?}", tree.cap.0), "proof_of_6_len": proofs[6].len(), "digests": tree.digests.len()}));
    }
    let distinct = layers.iter().all(|m| pairwise_distinct(m));
    let inputs_honest = tree.cap.0 == rt.cap() && (0..n).all(|i| proofs[i] == rt.proof(i));
    let o = Opened { api: "verify_batch_merkle_proof_to_cap", plain: false, layers: &layers, rt: &rt, distinct, cap: tree.cap.0.clone(), proofs, inputs_honest };
    check_openings(&o, rep);
}

fn section_batch(ctx: &Ctx) {
    let hmax = if ctx.tier.thorough() { 5 } else { 4 };
    let jobs = batch_jobs(hmax);
    ctx.count("batch_jobs", jobs.len() as u64);
    run_jobs(ctx, &jobs, batch_name, |j, rep| match j.hasher {
        0 => batch_job::<PoseidonHash>(j, rep),
        _ => batch_job::<KeccakHash<25>>(j, rep),
    });
}

// ---------------------------------------------------------------------------------------------
// Section 4: compressed multi-proofs (path_compression through the read-only re-exports).

#[derive(Clone, Debug)]
struct CompJob {
    hasher: usize,
    h: usize,
    cap_h: usize,
    w: usize,
    len: usize,
}
fn comp_name(j: &CompJob) -> String {
    format!("compress H={} leaves=2^{} cap={} width={} tuple_len={}", HASHERS[j.hasher], j.h, j.cap_h, j.w, j.len)
}

fn comp_jobs(thorough: bool) -> Vec<CompJob> {
    let mut v = Vec::new();
    for h in 0..=4usize {
        let max_len = match (thorough, h <= 3) {
            (false, false) => 3,
            (false, true) => 4,
            (true, false) => 4,
            (true, true) => 5,
        };
        for len in 1..=max_len {
            for hasher in 0..2 {
                for cap_h in 0..=h {
                    for w in [1usize, 5] {
                        v.push(CompJob { hasher, h, cap_h, w, len });
                    }
                }
            }
        }
    }
    v
}

fn comp_job<H: HX>(j: &CompJob, rep: &mut Rep) {
    let n = 1usize << j.h;
    let leaves = matrix(0, n, j.w, "distinct");
    let rt = ref_build::<H>(&[leaves.clone()], j.cap_h);
    let cap = rt.cap();
    let tree = match guarded(|| MerkleTree::<F, H>::new(leaves.clone(), j.cap_h)) {
        Ok(t) => t,
        Err(p) => {
            rep.fail("MerkleTree::new/panic".into(), p);
            return;
        }
    };
    let all_proofs: Vec<MerkleProof<F, H>> = match guarded(|| (0..n).map(|i| tree.prove(i)).collect::<Vec<_>>()) {
        Ok(p) => p,
        Err(p) => {
            rep.fail("MerkleTree::prove/panic".into(), p);
            return;
        }
    };
    for i in 0..n {
        if all_proofs[i].siblings != rt.proof(i) {
            rep.fail("MerkleTree::prove/siblings".into(), format!("position {i}"));
            return;
        }
    }
    let path_len = j.h - j.cap_h;
    let total = n.pow(j.len as u32);
    for t in 0..total {
        let indices: Vec<usize> = (0..j.len).map(|p| t / n.pow(p as u32) % n).collect();
        let proofs: Vec<MerkleProof<F, H>> = indices.iter().map(|&i| all_proofs[i].clone()).collect();
        let data: Vec<Vec<F>> = indices.iter().map(|&i| leaves[i].clone()).collect();
        rep.evals += 1;
        let comp = match guarded(|| compress_merkle_proofs::<F, H>(j.cap_h, &indices, &proofs)) {
            Ok(c) => c,
            Err(p) => {
                rep.fail("compress_merkle_proofs/panic".into(), format!("indices {indices:?}: {p}"));
                continue;
            }
        };
        let orig_total = j.len * path_len;
        let comp_total: usize = comp.iter().map(|p| p.siblings.len()).sum();
        if comp.len() != proofs.len() || comp_total > orig_total {
            rep.fail("compress_merkle_proofs/size".into(), format!("indices {indices:?}: {} proofs with {comp_total} siblings from {} proofs with {orig_total}", comp.len(), proofs.len()));
        }
        // the number of siblings that are really needed: siblings of path nodes that are not path nodes
        let mut path = BTreeSet::new();
        let mut sibs = BTreeSet::new();
        for &i in &indices {
            for l in 0..path_len {
                path.insert((l, i >> l));
                sibs.insert((l, (i >> l) ^ 1));
            }
        }
        let needed = sibs.difference(&path).count();
        if comp_total != needed {
            rep.count("compress_not_minimal", 1);
        }
        let dec = match guarded(|| decompress_merkle_proofs::<F, H>(&data, &indices, &comp, j.h, j.cap_h)) {
            Ok(d) => d,
            Err(p) => {
                rep.fail("decompress_merkle_proofs/panic".into(), format!("indices {indices:?}: {p}"));
                continue;
            }
        };
        if dec != proofs {
            rep.fail("decompress_merkle_proofs/roundtrip".into(), format!("indices {indices:?}: decompress(compress(proofs)) != proofs"));
        }
        for (p, &i) in dec.iter().zip(&indices) {
            rep.evals += 1;
            let v = impl_verify::<H>(true, &[leaves[i].clone()], &[j.h], i, &p.siblings, &cap);
            if v != V::Accept {
                rep.fail("decompress_merkle_proofs/verify".into(), format!("indices {indices:?}: decompressed proof of position {i} is {}", v.s()));
            }
        }
        let distinct_idx = indices.iter().collect::<BTreeSet<_>>().len();
        rep.class(format!("{}:compress:h{}:c{}:k{}:distinct{}:kept{}of{}", H::NAME, j.h, j.cap_h, j.len, distinct_idx, comp_total, orig_total));
        // single deviation: one element of one compressed sibling edited -> the decompressed set must differ and
        // at least one decompressed opening must stop verifying
        if j.len <= 2 {
            for (pi, p) in comp.iter().enumerate() {
                for si in 0..p.siblings.len() {
                    for e in [0, H::ELEMS - 1] {
                        rep.evals += 1;
                        let mut c2 = comp.clone();
                        c2[pi].siblings[si] = H::bump(c2[pi].siblings[si], e);
                        match guarded(|| decompress_merkle_proofs::<F, H>(&data, &indices, &c2, j.h, j.cap_h)) {
                            Err(_) => rep.class(format!("{}:compress:tampered:panic", H::NAME)),
                            Ok(d2) => {
                                let all_ok = d2.len() == indices.len() && d2.iter().zip(&indices).all(|(p, &i)| impl_verify::<H>(true, &[leaves[i].clone()], &[j.h], i, &p.siblings, &cap) == V::Accept);
                                if all_ok || d2 == proofs {
                                    rep.fail("decompress_merkle_proofs/tampered-accepted".into(), format!("indices {indices:?}: compressed proof {pi} sibling {si} element {e} edited, all decompressed openings still verify"));
                                } else {
                                    rep.class(format!("{}:compress:tampered:rejected", H::NAME));
                                }
                            }
                        }
                    }
                }
            }
        }
        if j.h == 3 && j.cap_h == 0 && j.len == 3 && j.w == 5 && indices == [5, 4, 5] {
            rep.sample = Some(json!({"case": comp_name(j), "indices": indices, "compressed_lens": comp.iter().map(|p| p.siblings.len()).collect::<Vec<_>>(), "original_lens": proofs.iter().map(|p| p.siblings.len()).collect::<Vec<_>>(), "needed": needed}));
        }
    }
}

fn section_compress(ctx: &Ctx) {
    let jobs = comp_jobs(ctx.tier.thorough());
    ctx.count("compress_jobs", jobs.len() as u64);
    run_jobs(ctx, &jobs, comp_name, |j, rep| match j.hasher {
        0 => comp_job::<PoseidonHash>(j, rep),
        _ => comp_job::<KeccakHash<25>>(j, rep),
    });
}

// ---------------------------------------------------------------------------------------------
// Section 5: schedules. The sequential `join` of plonky2_maybe_rayon (feature verif_sched) asks a thread-local
// chooser which closure runs first. Stateless choice-point DFS: replay a prefix, answer `false` afterwards,
// count the choice points, backtrack over the last `false` that may still be flipped.

/// Runs `f` with a chooser that replays `prefix` and then answers `false`; returns (result, #choice points).
fn with_schedule<T>(prefix: &[bool], f: impl FnOnce() -> T) -> (Result<T, String>, usize) {
    let asked = Rc::new(Cell::new(0usize));
    let a2 = asked.clone();
    let pfx = prefix.to_vec();
    set_chooser(Some(Box::new(move || {
        let k = a2.get();
        a2.set(k + 1);
        k < pfx.len() && pfx[k]
    })));
    let r = guarded(f);
    set_chooser(None);
    (r, asked.get())
}

/// Enumerates every decision vector (with at most `max_true` `true` answers if bounded). `run` executes one
/// schedule and returns the number of choice points it met. Returns (schedules, decisions).
fn dfs(max_true: Option<usize>, mut run: impl FnMut(&[bool]) -> Result<usize, String>) -> Result<(u64, u64), String> {
    let mut prefix: Vec<bool> = Vec::new();
    let (mut schedules, mut decisions) = (0u64, 0u64);
    loop {
        let c = run(&prefix)?;
        if c < prefix.len() {
            return Err(format!("replay divergence: prefix of {} decisions but only {c} choice points occurred", prefix.len()));
        }
        schedules += 1;
        decisions += c as u64;
        let mut d = prefix.clone();
        d.resize(c, false);
        let mut p = d.len();
        loop {
            if p == 0 {
                return Ok((schedules, decisions));
            }
            p -= 1;
            if !d[p] {
                let trues = d[..p].iter().filter(|x| **x).count();
                if max_true.map_or(true, |m| trues < m) {
                    d[p] = true;
                    d.truncate(p + 1);
                    break;
                }
            }
        }
        prefix = d;
    }
}

#[derive(Clone, Debug)]
struct SchedJob {
    hasher: usize,
    heights: Vec<usize>,
    widths: Vec<usize>,
    cap_h: usize,
    batch: bool,
    bound: Option<usize>,
}
fn sched_name(j: &SchedJob) -> String {
    format!(
        "sched {} H={} heights={:?} widths={:?} cap={} orders={}",
        if j.batch { "batch" } else { "tree" },
        HASHERS[j.hasher],
        j.heights,
        j.widths,
        j.cap_h,
        match j.bound {
            None => "all".to_string(),
            Some(b) => format!("<={b} right-first"),
        }
    )
}

fn sched_jobs(thorough: bool) -> Vec<SchedJob> {
    let mut v = Vec::new();
    let full_k = if thorough { 4 } else { 3 };
    let bounded_k: Vec<usize> = if thorough { vec![5, 6, 7] } else { vec![4, 5, 6] };
    for hasher in 0..2 {
        for w in [1usize, 5] {
            for k in 0..=full_k {
                for cap_h in 0..=k {
                    v.push(SchedJob { hasher, heights: vec![k], widths: vec![w], cap_h, batch: false, bound: None });
                }
            }
            for &k in &bounded_k {
                for cap_h in 0..=k {
                    v.push(SchedJob { hasher, heights: vec![k], widths: vec![w], cap_h, batch: false, bound: Some(2) });
                }
            }
        }
        let bw = [5usize, 1, 4];
        for heights in profiles(full_k, 3) {
            for cap_h in 0..=*heights.last().unwrap() {
                let widths = bw[..heights.len()].to_vec();
                v.push(SchedJob { hasher, heights: heights.clone(), widths, cap_h, batch: true, bound: None });
            }
        }
        for heights in [vec![5, 3, 0], vec![6, 2], vec![5, 4, 3]] {
            for cap_h in 0..=*heights.last().unwrap() {
                let widths = bw[..heights.len()].to_vec();
                v.push(SchedJob { hasher, heights: heights.clone(), widths, cap_h, batch: true, bound: Some(2) });
            }
        }
    }
    // cheapest (fewest joins) first
    v.sort_by_key(|j| {
        let n = 1u64 << j.heights[0];
        let c = n - (1u64 << j.cap_h);
        (if j.bound.is_none() { 1u64 << c.min(40) } else { 1 + c + c * c / 2 }) * n
    });
    v
}

fn sched_job<H: HX>(j: &SchedJob, rep: &mut Rep) {
    let layers: Vec<Vec<Vec<F>>> = j.heights.iter().zip(&j.widths).enumerate().map(|(l, (&h, &w))| matrix(1 + l as u64, 1 << h, w, "distinct")).collect();
    let rt = ref_build::<H>(&layers, j.cap_h);
    let (want_cap, want_digests) = (rt.cap(), rt.layout());
    let n = 1usize << j.heights[0];
    let want_proofs: Vec<Vec<H::Hash>> = (0..n).map(|i| rt.proof(i)).collect();
    let api = if j.batch { "BatchMerkleTree::new" } else { "MerkleTree::new" };
    let build = |prefix: &[bool]| -> (Result<(Vec<H::Hash>, Vec<H::Hash>, Vec<Vec<H::Hash>>), String>, usize) {
        if j.batch {
            with_schedule(prefix, || {
                let t = BatchMerkleTree::<F, H>::new(layers.clone(), j.cap_h);
                let proofs = (0..n).map(|i| t.open_batch(i).siblings).collect();
                (t.cap.0, t.digests, proofs)
            })
        } else {
            with_schedule(prefix, || {
                let t = MerkleTree::<F, H>::new(layers[0].clone(), j.cap_h);
                let proofs = (0..n).map(|i| t.prove(i).siblings).collect();
                (t.cap.0.clone(), t.digests.clone(), proofs)
            })
        }
    };
    let mut fails: Vec<(String, String)> = Vec::new();
    let mut traces = 0u64;
    let mut first_c: Option<usize> = None;
    let res = dfs(j.bound, |prefix| {
        let (r1, c1) = build(prefix);
        let (r2, c2) = build(prefix);
        if c1 != c2 {
            return Err(format!("replaying prefix {prefix:?} gave {c1} then {c2} choice points"));
        }
        first_c.get_or_insert(c1);
        let bits: String = (0..c1).map(|p| if p < prefix.len() && prefix[p] { '1' } else { '0' }).collect();
        match (r1, r2) {
            (Ok(a), Ok(b)) => {
                // both executions of the schedule must equal the reference (so they equal each other)
                let mut ok = true;
                for t in [&a, &b] {
                    if t.0 != want_cap {
                        ok = false;
                        fails.push((format!("{api}/schedule/cap"), format!("schedule {bits} (1 = right closure first, in join order): cap differs from the reference")));
                    }
                    if t.1 != want_digests {
                        ok = false;
                        fails.push((format!("{api}/schedule/digests"), format!("schedule {bits}: digests differ from the reference layout")));
                    }
                    if t.2 != want_proofs {
                        ok = false;
                        fails.push((format!("{api}/schedule/proofs"), format!("schedule {bits}: proofs differ from the reference paths")));
                    }
                }
                if ok {
                    traces += 1;
                }
            }
            (Err(p), _) | (_, Err(p)) => fails.push((format!("{api}/schedule/panic"), format!("schedule {bits}: {p}"))),
        }
        Ok(c1)
    });
    for (s, d) in fails {
        rep.fail(s, d);
    }
    match res {
        Err(m) => rep.machinery.push(format!("{}: {m}", sched_name(j))),
        Ok((schedules, decisions)) => {
            rep.evals += 2 * schedules;
            rep.states += schedules;
            rep.transitions += decisions;
            rep.traces += traces;
            let c = first_c.unwrap_or(0);
            if j.bound.is_none() && c < 63 && schedules != 1u64 << c {
                rep.machinery.push(format!("{}: {schedules} schedules enumerated for {c} joins", sched_name(j)));
            }
            rep.count("schedules", schedules);
            rep.class(format!("{}:sched:{}:joins{}:orders{}", H::NAME, if j.batch { "batch" } else { "tree" }, c, schedules));
            if !j.batch && j.heights == [3] && j.cap_h == 0 && j.widths == [5] {
                rep.sample = Some(json!({"case": sched_name(j), "joins": c, "schedules": schedules, "join_decisions": decisions, "all_equal_to_reference": traces == schedules}));
            }
        }
    }
}

fn section_sched(ctx: &Ctx) {
    let jobs = sched_jobs(ctx.tier.thorough());
    ctx.count("sched_jobs", jobs.len() as u64);
    run_jobs(ctx, &jobs, sched_name, |j, rep| match j.hasher {
        0 => sched_job::<PoseidonHash>(j, rep),
        _ => sched_job::<KeccakHash<25>>(j, rep),
    });
}

// ---------------------------------------------------------------------------------------------

pub fn run(ctx: &Ctx) -> i32 {
    // anyhow::Error captures a backtrace (global lock + unwinding) for every rejected opening when the
    // environment has RUST_BACKTRACE set; the verdicts do not depend on it. Still single-threaded here.
    std::env::set_var("RUST_LIB_BACKTRACE", "0");
    let t0 = std::time::Instant::now();
    let dbg = std::env::var("VERIF_DEBUG").is_ok();
    section_tree(ctx);
    if dbg { eprintln!("tree {:?} evals {}", t0.elapsed(), ctx.evals()); }
    section_batch(ctx);
    if dbg { eprintln!("batch {:?} evals {}", t0.elapsed(), ctx.evals()); }
    section_compress(ctx);
    if dbg { eprintln!("compress {:?} evals {}", t0.elapsed(), ctx.evals()); }
    section_sched(ctx);
    if dbg { eprintln!("sched {:?} evals {}", t0.elapsed(), ctx.evals()); }
    let thorough = ctx.tier.thorough();
    let variant = crate::variant_name();
    let rule = format!(
        "tree: hashers {{Poseidon, Keccak<25>}} x leaves 2^k (k = 0..={}) x cap height 0..=k x leaf width {:?} x families {{distinct, two equal siblings, two equal far apart, all equal}}: cap, digests layout and every proof equal the level-by-level reference; for EVERY position: honest opening accepted; every other leaf at this position, this opening at every other position (+2 out-of-range), every sibling element +1, every element of the path's cap entry +1 -> not accepted; two elements of every unrelated cap entry +1 -> still accepted; truncated/extended sibling lists -> not accepted. batch: every strictly decreasing profile of <= 3 layer heights in 0..={} x cap x widths {{0,1,4,9}}^layers x {{distinct, equal sibling rows}}, same checks per layer. compress: every index tuple (repetitions included) of length <= {} on 2^4 leaves and <= {} on <= 2^3 leaves x every cap height x widths {{1,5}}: round trip equals the reference proofs, every decompressed proof verifies, size never grows; tuples of length <= 2: every compressed sibling edited -> some decompressed opening fails. sched: EVERY assignment of left-first/right-first to the joins of fill_subtree for MerkleTree up to 2^{} leaves and BatchMerkleTree profiles up to height {}, all assignments with <= 2 right-first answers for 2^{:?} leaves and batch profiles [5,3,0] [6,2] [5,4,3]; each schedule executed twice; states = schedules, transitions = join decisions, traces = schedules whose cap, digests and all proofs equal the reference",
        if thorough { 7 } else { 5 },
        WIDTHS,
        if thorough { 5 } else { 4 },
        if thorough { 4 } else { 3 },
        if thorough { 5 } else { 4 },
        if thorough { 4 } else { 3 },
        if thorough { 4 } else { 3 },
        if thorough { [5, 6, 7] } else { [4, 5, 6] },
    );
    ctx.finish(Finish {
        level: "model_checking",
        rule: &rule,
        exhaustive: true,
        assumptions: vec![
            "the hash primitives H::hash_or_noop, H::two_to_one and Hash::to_vec are trusted here (C13 checks them); the reference tree, path and verdict are built from them level by level".into(),
            "negative verdicts rely on collision resistance only through the reference verdict computed on identical inputs; where the structure alone decides (distinct leaves, edited sibling, edited cap entry) the expectation is asserted on both the implementation and the reference".into(),
            "leaves are canonical field elements; leaves of different widths that pad to the same digest (hash_or_noop zero padding) are outside the property ('any other leaf of the same width')".into(),
            "panics of verify_(batch_)merkle_proof_to_cap on inputs that violate its index/shape precondition are recorded as observation classes, not violations".into(),
            "schedules: task-level fork-join orders of the sequential join (no parallel feature); real-thread data races are not observable by a cooperative scheduler".into(),
            format!("build variant: {variant}"),
        ],
        extra: json!({"variant": variant}),
    })
}
