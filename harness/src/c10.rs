//! C10 — STARK lookups and cross-table lookups hold iff the looked-up values are present.
//!
//! Part 1, single-table lookups: model STARKs declaring `Stark::lookups()` (starkm::lookup_family)
//! proven with `starky::prover::prove` and verified with `verify_stark_proof`. Oracle
//! (`starkm::check_lookups`, BTreeMap counters): for every value, the filter weights of the looking
//! cells holding it equal the frequencies of the table rows holding it — i.e. every filtered looking
//! value occurs in the table and the frequency column holds the true counts — and the ordinary
//! constraint terms hold (`check_trace`).
//!
//! Part 2, cross-table lookups: a minimal multi-table driver (starkm::ctl_prove / ctl_verify, public
//! starky API only, following the crate's documented flow). Oracle (`starkm::check_ctls`): per CTL the
//! multiset of filtered looking rows (+ extra rows) equals the multiset of filtered looked rows.
//!
//! Enumerated for every declaration / topology x trace length x configuration: the honest traces
//! (accepted), EVERY single cell of every table x {v+1, 0} (covers: a looking value replaced by an
//! absent or a different present value, a frequency +-1, a table value changed, a filter bit flipped =
//! a row removed from / added to either side), expected verdict decided exactly by the oracle;
//! every numeric leaf / list of an accepted proof tampered (helper and running-sum openings, caps)
//! under the verdict floor; a proof verified under a different lookup declaration of equal shape.

use serde_json::{json, Value};

use crate::core::*;
use crate::starkm::*;

fn lk_cfgs(def: &Def, thorough: bool) -> Vec<Cfg> {
    let base = Cfg { rate_bits: def.min_rate_bits(), cap_height: 0, num_challenges: 2, queries: 2, pow_bits: 0, arity: Arity::None };
    let mut v = vec![base.clone()];
    let rates: Vec<usize> = if thorough { (base.rate_bits..=3).collect() } else { vec![base.rate_bits, base.rate_bits + 1] };
    for &rate_bits in &rates {
        for cap_height in [0, 1] {
            for num_challenges in [1, 2, 3] {
                for arity in [Arity::None, Arity::Ones(1), Arity::Constant(1, 1)] {
                    v.push(Cfg { rate_bits, cap_height, num_challenges, arity, ..base.clone() });
                }
            }
        }
    }
    let mut out: Vec<Cfg> = Vec::new();
    for c in v {
        if !out.contains(&c) {
            out.push(c);
        }
    }
    out
}

fn floor_cfgs(def: &Def, k: usize) -> Vec<Cfg> {
    let base = Cfg { rate_bits: def.min_rate_bits(), cap_height: 0, num_challenges: 2, queries: 2, pow_bits: 0, arity: Arity::None };
    let mut v = Vec::new();
    for mut c in [base.clone(), Cfg { cap_height: 1, arity: Arity::Ones(1), num_challenges: 1, pow_bits: 1, ..base.clone() }] {
        c.queries = 40usize.div_ceil(k + c.rate_bits);
        if c.admissible(def, k) && c.meets_floor(k) {
            v.push(c);
        }
    }
    v
}

fn want_prefix(ctx: &Ctx, prefix: &str) -> bool {
    match &ctx.filter {
        None => true,
        Some(f) => f.starts_with(prefix),
    }
}

fn row_class(r: usize, n: usize) -> &'static str {
    if r == 0 {
        "first-row"
    } else if r == n - 1 {
        "last-row"
    } else {
        "interior"
    }
}

/// Runs one judged case: `f` returns Ok(class) or Err((site, detail)); the site is only known after
/// the run, so a failing case is executed once more by `ctx.case` to confirm it.
fn judged_case(ctx: &Ctx, case: &str, f: impl Fn() -> Result<String, (String, String)>) -> String {
    if !ctx.want(case) {
        return String::new();
    }
    ctx.state(1);
    match guarded(&f) {
        Ok(Ok(class)) => {
            ctx.tick(1);
            ctx.class(class.clone());
            class
        }
        Ok(Err((site, _))) => {
            ctx.case(&site, case, || f().map_err(|(_, d)| d));
            format!("VIOLATION {site}")
        }
        Err(p) => {
            ctx.case("harness/unexpected-panic", case, || Err(format!("panic outside the guarded library calls: {p}")));
            "VIOLATION harness/unexpected-panic".to_string()
        }
    }
}

pub fn run(ctx: &Ctx) -> i32 {
    let thorough = ctx.tier.thorough();
    let fam = lookup_family();
    self_checks(ctx, &fam);
    single_table(ctx, &fam, thorough);
    single_table_tamper(ctx, &fam, thorough);
    cross_declaration(ctx, &fam, thorough);
    let systems = ctl_systems();
    ctl_self_checks(ctx, &systems);
    cross_table(ctx, &systems, thorough);
    cross_table_tamper(ctx, &systems);
    ctl_cross_declaration(ctx, &systems);
    let variant = crate::variant_name();
    ctx.finish(Finish {
        level: "fault_enumeration",
        rule: "single-table lookups: 15 declarations (1/2/3/5 looking columns, degree 2 and 3, single / linear-combination / next-row columns, no / boolean / product filters, counter / permuted / repeated / large tables, two lookups, lookups + constraint terms) x trace length 2^k (k = 3..4 quick, 2..6 thorough) x config lattice (rate_bits, cap 0/1, num_challenges 1..3, 3 reduction strategies) x {honest trace x 3 choices, every cell x {v+1, 0}}; cross-table lookups: topologies AtoB, ACtoB (two looking tables), AAtoB (same table looking twice), ACAtoB (non-adjacent repeat of a looking table), self (a table looking into itself), AextraToB (extra looking rows); x num_challenges 1..3 x table lengths 2^k / 2^(k+1) (k = 3..4 quick, 3..5 thorough) x {honest, every cell of every table x {v+1, 0}}; + every numeric leaf / list of accepted proofs tampered under the verdict floor; + proofs verified under a different declaration. Expected verdict = BTreeMap multiset oracle",
        exhaustive: true,
        assumptions: vec![
            "degenerate challenge collisions (x + f = 0, equal combined rows) have probability <= 2^-58 per case and are not observable".into(),
            "the multi-table driver glue (commit, shared challenger, per-table config observation) is harness code following the crate documentation; a downstream project's own wiring is out of scope".into(),
            format!("build variant: {variant}"),
        ],
        extra: json!({"variant": variant, "lookup_declarations": fam.iter().map(|m| m.def.name.clone()).collect::<Vec<_>>(), "ctl_topologies": systems.iter().map(|s| s.name.clone()).collect::<Vec<_>>()}),
    })
}

fn self_checks(ctx: &Ctx, fam: &[Member]) {
    for m in fam {
        if let Err(e) = validate_def(&m.def) {
            ctx.machinery_error(e);
            continue;
        }
        for k in 2..=5 {
            for ch in 0..3 {
                let (rows, pis) = m.trace(1 << k, ch);
                if !check_trace(&m.def, &rows, &pis).is_empty() || !check_lookups(&m.def, &rows).is_empty() {
                    ctx.machinery_error(format!("{}: generated trace k={k} choice={ch} does not satisfy its own oracle", m.def.name));
                }
            }
        }
    }
}

// ---------------------------------------------------------------------------------------------
// Part 1: single-table lookups

/// Judges prove + verify of `rows` against the oracle.
fn judge_single(ctx: &Ctx, def: &Def, sc: &starky::config::StarkConfig, rows: &Rows, what: &str) -> Result<String, (String, String)> {
    let name = &def.name;
    let tf = check_trace(def, rows, &[]);
    let lf = check_lookups(def, rows);
    let expect_ok = tf.is_empty() && lf.is_empty();
    let why = if let Some(f) = lf.first() {
        format!("lookup {} value {}: looking weight {} vs table frequency {}", f.lookup, f.value, f.looking, f.looked)
    } else if let Some(f) = tf.first() {
        format!("term {} ({}) at row {}", f.term, f.kind.name(), f.row)
    } else {
        String::new()
    };
    let kind = if !lf.is_empty() { "lookup" } else { "term" };
    ctx.transition(1);
    let proof = match prove_def(def, sc, rows, &[], !expect_ok && def.needs_lenient()) {
        ProveOutcome::Proof(p) => *p,
        ProveOutcome::Err(e) | ProveOutcome::Panic(e) => {
            if expect_ok {
                return Err((format!("prove/valid-lookup-trace-failed:{name}:{what}"), format!("oracle satisfied but proving failed: {e}")));
            }
            ctx.count("noproof", 1);
            return Ok(format!("noproof:{what}:{}", error_class(&e)));
        }
    };
    ctx.transition(1);
    ctx.trace(1);
    let v = verify_def(def, sc, proof);
    match (expect_ok, v) {
        (true, Verdict::Accepted) => {
            ctx.count("accepted_valid", 1);
            Ok(format!("accepted:{what}"))
        }
        (true, v) => Err((format!("verify/valid-lookup-trace-rejected:{name}:{what}"), format!("oracle satisfied but the proof was not accepted: {v:?}"))),
        (false, Verdict::Accepted) => Err((format!("verify/bad-lookup-trace-accepted:{kind}"), format!("oracle violated ({why}) but the proof was ACCEPTED"))),
        (false, v) => {
            ctx.count(&format!("rejected_bad:{kind}"), 1);
            Ok(format!("{}:{what}:{kind}", v.class()))
        }
    }
}

/// What a cell is for the declared lookups (for observation classes / samples).
fn cell_role(def: &Def, c: usize) -> &'static str {
    for l in &def.lookups {
        if l.freq.lin.iter().any(|&(x, _)| x == c) {
            return "frequency";
        }
        if l.table.lin.iter().any(|&(x, _)| x == c) {
            return "table";
        }
        if l.filters.iter().flatten().any(|f| f.constants.iter().chain(f.products.iter().flat_map(|(a, b)| [a, b])).any(|cs| cs.lin.iter().any(|&(x, _)| x == c))) {
            return "filter";
        }
        if l.columns.iter().any(|cs| cs.lin.iter().chain(cs.next.iter()).any(|&(x, _)| x == c)) {
            return "looking";
        }
    }
    "other"
}

fn single_table(ctx: &Ctx, fam: &[Member], thorough: bool) {
    let ks: Vec<usize> = if thorough { vec![2, 3, 4, 5, 6] } else { vec![3, 4] };
    let mut blocks = Vec::new();
    for (mi, m) in fam.iter().enumerate() {
        for &k in &ks {
            for cfg in lk_cfgs(&m.def, thorough) {
                if cfg.admissible(&m.def, k) {
                    blocks.push((mi, k, cfg));
                }
            }
        }
    }
    blocks.sort_by_key(|b| std::cmp::Reverse(fam[b.0].def.cols << b.1));
    ctx.count("lookup_blocks", blocks.len() as u64);
    par_for(blocks.len(), |bi| {
        let (mi, k, cfg) = &blocks[bi];
        let m = &fam[*mi];
        let def = &m.def;
        let n = 1usize << k;
        let prefix = format!("lookup|{}|k{}|{}|", def.name, k, cfg.tag());
        if !want_prefix(ctx, &prefix) {
            return;
        }
        let sc = cfg.stark_config();
        let is_base = *cfg == lk_cfgs(def, thorough)[0];
        for ch in 0..3 {
            let (rows, _) = m.trace(n, ch);
            let case = format!("{prefix}ch{ch}|honest");
            let obs = judged_case(ctx, &case, || judge_single(ctx, def, &sc, &rows, "honest"));
            let sampled = ctx.want(&case) && is_base && *k == 3 && ch == 0 && def.name == "lk3_filter_d3";
            if sampled && def.name == "lk3_filter_d3" {
                ctx.sample(json!({"case": case, "trace": rows, "oracle": "every filtered looking value is in the table with the declared frequency", "expected": "accepted", "observed": obs}));
            }
            if obs.starts_with("VIOLATION") {
                return; // an honest trace that fails is reported once; its corruptions would only repeat it
            }
            if ch != 0 && !(is_base && thorough) {
                continue;
            }
            for r in 0..n {
                for c in 0..def.cols {
                    let v = rows[r][c];
                    for (tag, nv) in [("+1", addm(v, 1)), ("0", 0u64)] {
                        if nv == v {
                            continue;
                        }
                        let case = format!("{prefix}ch{ch}|cell r{r} c{c} {tag}");
                        if !ctx.want(&case) {
                            continue;
                        }
                        let mut t = rows.clone();
                        t[r][c] = nv;
                        let ok = check_trace(def, &t, &[]).is_empty() && check_lookups(def, &t).is_empty();
                        let what = format!("{}{}:{}", if ok { "unpinned-" } else { "" }, cell_role(def, c), row_class(r, n));
                        let obs = judged_case(ctx, &case, || judge_single(ctx, def, &sc, &t, &what));
                        if sampled && r == 2 && tag == "+1" && def.name == "lk3_filter_d3" {
                            ctx.sample(json!({"case": case, "cell_role": cell_role(def, c), "old": v, "new": nv, "oracle_satisfied": ok, "observed": obs}));
                        }
                    }
                }
            }
        }
    });
}

fn single_table_tamper(ctx: &Ctx, fam: &[Member], thorough: bool) {
    let ks: Vec<usize> = if thorough { vec![2, 3, 4] } else { vec![3] };
    let mut jobs = Vec::new();
    for (mi, m) in fam.iter().enumerate() {
        for &k in &ks {
            for cfg in floor_cfgs(&m.def, k) {
                jobs.push((mi, k, cfg));
            }
        }
    }
    ctx.count("lookup_tamper_proofs", jobs.len() as u64);
    par_for(jobs.len(), |j| {
        let (mi, k, cfg) = &jobs[j];
        let m = &fam[*mi];
        let def = &m.def;
        let prefix = format!("lookup|{}|k{}|{}|tamper|", def.name, k, cfg.tag());
        if !want_prefix(ctx, &prefix) {
            return;
        }
        let sc = cfg.stark_config();
        let (rows, _) = m.trace(1 << k, 1);
        let proof = match prove_def(def, &sc, &rows, &[], false) {
            ProveOutcome::Proof(p) => *p,
            _ => {
                ctx.count("tamper_base_unavailable", 1); // reported by single_table's honest case
                return;
            }
        };
        if !verify_def(def, &sc, proof.clone()).accepted() {
            ctx.count("tamper_base_unavailable", 1); // reported by single_table's honest case
            return;
        }
        let tree = proof_to_json(&proof);
        let (nl, nlists) = tamper_all(ctx, &prefix, &tree, false, &|t| proof_from_json(t).ok().map(|p| verify_def(def, &sc, p)));
        if def.name == "lk2_high_d3" && !ctx.replaying() {
            ctx.sample(json!({"case": format!("{prefix}leaf <every numeric leaf> / list <every list>"), "expected": "not accepted", "leaves": nl, "lists": nlists}));
        }
    });
}

/// A proof made for declaration A verified under declaration B of the same shape (columns, degree,
/// number of helper columns): must be rejected whenever A's trace does not satisfy B's oracle.
fn cross_declaration(ctx: &Ctx, fam: &[Member], thorough: bool) {
    let ks: Vec<usize> = if thorough { vec![3, 4, 5] } else { vec![3] };
    let helpers = |d: &Def| d.lookups.iter().map(|l| l.columns.len().div_ceil(d.degree - 1) + 1).sum::<usize>();
    let mut jobs = Vec::new();
    for a in 0..fam.len() {
        for b in 0..fam.len() {
            let (da, db) = (&fam[a].def, &fam[b].def);
            if a != b && (da.cols, da.degree, helpers(da)) == (db.cols, db.degree, helpers(db)) {
                for &k in &ks {
                    jobs.push((a, b, k));
                }
            }
        }
    }
    ctx.count("lookup_cross_pairs", jobs.len() as u64);
    par_for(jobs.len(), |j| {
        let (a, b, k) = jobs[j];
        let (ma, mb) = (&fam[a], &fam[b]);
        let cfg = lk_cfgs(&ma.def, false)[0].clone();
        let sc = cfg.stark_config();
        for ch in 0..3 {
            let case = format!("lookup|{}|k{}|{}|ch{ch}|verified-under {}", ma.def.name, k, cfg.tag(), mb.def.name);
            if !ctx.want(&case) {
                continue;
            }
            let (rows, _) = ma.trace(1 << k, ch);
            let ok_b = check_trace(&mb.def, &rows, &[]).is_empty() && check_lookups(&mb.def, &rows).is_empty();
            ctx.state(1);
            ctx.case("verify/cross-declaration-accepted", &case, || {
                ctx.transition(2);
                let proof = match prove_def(&ma.def, &sc, &rows, &[], false) {
                    ProveOutcome::Proof(p) => *p,
                    _ => return Err("honest proof of A could not be produced".into()),
                };
                let v = verify_def(&mb.def, &sc, proof);
                if ok_b {
                    return Ok(format!("cross:trace-satisfies-both:{}", v.class()));
                }
                match v {
                    Verdict::Accepted => Err(format!("proof made for {} accepted under {} whose lookup oracle the trace violates", ma.def.name, mb.def.name)),
                    v => {
                        ctx.count("rejected_cross_declaration", 1);
                        Ok(format!("cross:{}", v.class()))
                    }
                }
            });
        }
    });
}

// ---------------------------------------------------------------------------------------------
// Part 2: cross-table lookups

struct System {
    name: String,
    defs: Vec<Def>,
    ctls: Vec<CtlSpec>,
    /// (k, choice) -> one trace per table (table i has 2^(k + i % 2) rows)
    gen: fn(usize, usize) -> Vec<Rows>,
}

fn ctl_table(name: &str, cols: usize, terms: Vec<Term>) -> Def {
    Def { name: name.to_string(), cols, pis: 0, degree: 3, terms, lookups: vec![], ctl: true }
}

fn twc(table: usize, cols: &[usize], filter: usize) -> TwcSpec {
    TwcSpec { table, columns: cols.iter().map(|&c| ColSpec::single(c)).collect(), filter: Some(FilterSpec::simple(filter)) }
}

/// The multiset of pairs that flows through a system: K distinct-ish pairs with one repetition.
fn pairs(count: usize, ch: usize) -> Vec<[u64; 2]> {
    let mut v: Vec<[u64; 2]> = (0..count as u64).map(|i| [10 + 7 * i + ch as u64, mulm(P - 3, i + 1 + ch as u64)]).collect();
    if count >= 3 {
        v[count - 1] = v[0]; // one repeated pair
    }
    v
}

/// A table [x, y, f] (or with more filter columns): `items[j]` placed at row `slots[j]` with filter 1,
/// junk with filter 0 elsewhere.
fn place(n: usize, width: usize, fcol: usize, items: &[[u64; 2]], offset: usize, stride: usize, base: Option<Rows>) -> Rows {
    let mut rows = base.unwrap_or_else(|| (0..n).map(|r| {
        let mut row = vec![0u64; width];
        row[0] = 500_000 + r as u64;
        row[1] = 700_000 + 3 * r as u64;
        row
    }).collect());
    for (j, it) in items.iter().enumerate() {
        let r = (offset + j * stride) % n;
        assert!(rows[r][2..].iter().all(|&f| f == 0), "slot already used");
        rows[r][0] = it[0];
        rows[r][1] = it[1];
        rows[r][fcol] = 1;
    }
    rows
}

fn gen_ab(k: usize, ch: usize) -> Vec<Rows> {
    let (na, nb) = (1 << k, 1 << (k + 1));
    let p = pairs(na - 2, ch);
    vec![place(na, 3, 2, &p, 1, 1, None), place(nb, 3, 2, &p, 3, 2, None)]
}
fn gen_acb(k: usize, ch: usize) -> Vec<Rows> {
    let (na, nb) = (1 << k, 1 << (k + 1));
    let p = pairs(na, ch);
    let (pa, pc) = p.split_at(na / 2);
    vec![place(na, 3, 2, pa, 0, 2, None), place(nb, 3, 2, &p, 1, 1, None), place(na, 3, 2, pc, 1, 1, None)]
}
fn gen_twice(k: usize, ch: usize) -> Vec<Rows> {
    // table A = [x, y, f1, f2]: rows with f1 send (x, y), rows with f2 send (y, x)
    let (na, nb) = (1 << k, 1 << (k + 1));
    let p = pairs(na - 1, ch);
    let (p1, p2) = p.split_at(na / 2);
    let swapped: Vec<[u64; 2]> = p2.iter().map(|q| [q[1], q[0]]).collect();
    let a = place(na, 4, 2, p1, 0, 1, None);
    let a = place(na, 4, 3, &swapped, na / 2, 1, Some(a));
    vec![a, place(nb, 3, 2, &p, 0, 2, None)]
}
fn gen_aca(k: usize, ch: usize) -> Vec<Rows> {
    // looking tables in the order A(f1), C, A(f2): the two appearances of A are not adjacent
    let (na, nb) = (1 << k, 1 << (k + 1));
    let p = pairs(na + na / 2 - 1, ch);
    let (p1, rest) = p.split_at(na / 2);
    let (p2, pc) = rest.split_at(na / 2 - 1);
    let a = place(na, 4, 2, p1, 0, 1, None);
    let a = place(na, 4, 3, p2, na / 2, 1, Some(a));
    vec![a, place(nb, 3, 2, &p, 0, 1, None), place(na, 3, 2, pc, 0, 1, None)]
}
fn gen_self(k: usize, ch: usize) -> Vec<Rows> {
    // one table [x, y, f, u, v, g]: rows with f send (x, y); rows with g receive (u, v)
    let n = 1 << k;
    let p = pairs(n - 2, ch);
    let mut rows: Rows = (0..n).map(|r| vec![500_000 + r as u64, 700_000 + r as u64, 0, 800_000 + r as u64, 900_000 + r as u64, 0]).collect();
    for (j, it) in p.iter().enumerate() {
        rows[j][0] = it[0];
        rows[j][1] = it[1];
        rows[j][2] = 1;
        let r = (3 * j + 1) % n;
        let r = (0..n).map(|d| (r + d) % n).find(|&r| rows[r][5] == 0).unwrap();
        rows[r][3] = it[0];
        rows[r][4] = it[1];
        rows[r][5] = 1;
    }
    vec![rows]
}
const EXTRA: [[u64; 2]; 2] = [[77, 78], [P - 5, 9]];
fn gen_extra(k: usize, ch: usize) -> Vec<Rows> {
    let (na, nb) = (1 << k, 1 << (k + 1));
    let p = pairs(na - 2, ch);
    let mut all = p.clone();
    all.extend_from_slice(&EXTRA);
    vec![place(na, 3, 2, &p, 1, 1, None), place(nb, 3, 2, &all, 0, 1, None)]
}

fn ctl_systems() -> Vec<System> {
    use Atom::*;
    use Kind::*;
    let boolean = |c: usize| term(EveryRow, &[&[Local(c), Local(c)]], Local(c));
    let t3 = |name: &str| ctl_table(name, 3, vec![boolean(2)]);
    let t4 = |name: &str| ctl_table(name, 4, vec![boolean(2), boolean(3)]);
    vec![
        System {
            name: "AtoB".into(),
            defs: vec![t3("A"), t3("B")],
            ctls: vec![CtlSpec { looking: vec![twc(0, &[0, 1], 2)], looked: twc(1, &[0, 1], 2), extra: vec![] }],
            gen: gen_ab,
        },
        System {
            name: "ACtoB".into(),
            defs: vec![t3("A"), t3("B"), t3("C")],
            ctls: vec![CtlSpec { looking: vec![twc(0, &[0, 1], 2), twc(2, &[0, 1], 2)], looked: twc(1, &[0, 1], 2), extra: vec![] }],
            gen: gen_acb,
        },
        System {
            name: "AAtoB".into(),
            defs: vec![t4("A"), t3("B")],
            ctls: vec![CtlSpec { looking: vec![twc(0, &[0, 1], 2), twc(0, &[1, 0], 3)], looked: twc(1, &[0, 1], 2), extra: vec![] }],
            gen: gen_twice,
        },
        System {
            name: "ACAtoB".into(),
            defs: vec![t4("A"), t3("B"), t3("C")],
            ctls: vec![CtlSpec { looking: vec![twc(0, &[0, 1], 2), twc(2, &[0, 1], 2), twc(0, &[0, 1], 3)], looked: twc(1, &[0, 1], 2), extra: vec![] }],
            gen: gen_aca,
        },
        System {
            name: "self".into(),
            defs: vec![ctl_table("S", 6, vec![boolean(2), boolean(5)])],
            ctls: vec![CtlSpec { looking: vec![twc(0, &[0, 1], 2)], looked: twc(0, &[3, 4], 5), extra: vec![] }],
            gen: gen_self,
        },
        System {
            name: "AextraToB".into(),
            defs: vec![t3("A"), t3("B")],
            ctls: vec![CtlSpec { looking: vec![twc(0, &[0, 1], 2)], looked: twc(1, &[0, 1], 2), extra: EXTRA.iter().map(|e| e.to_vec()).collect() }],
            gen: gen_extra,
        },
    ]
}

fn system_ok(s: &System, tables: &[Rows]) -> bool {
    check_ctls(tables, &s.ctls).is_empty() && s.defs.iter().zip(tables).all(|(d, t)| check_trace(d, t, &[]).is_empty())
}

fn ctl_self_checks(ctx: &Ctx, systems: &[System]) {
    for s in systems {
        for d in &s.defs {
            if let Err(e) = validate_def(d) {
                ctx.machinery_error(format!("{}: {e}", s.name));
            }
        }
        if !ctl_system_ok(&s.defs) {
            ctx.machinery_error(format!("{}: driver preconditions violated", s.name));
        }
        for k in 3..=5 {
            for ch in 0..3 {
                let t = (s.gen)(k, ch);
                if t.len() != s.defs.len() || !system_ok(s, &t) {
                    ctx.machinery_error(format!("{}: generated tables k={k} choice={ch} do not satisfy the oracle", s.name));
                }
            }
        }
    }
}

fn ctl_cfgs(thorough: bool) -> Vec<Cfg> {
    let base = Cfg { rate_bits: 1, cap_height: 0, num_challenges: 1, queries: 2, pow_bits: 0, arity: Arity::None };
    let mut v = vec![base.clone(), Cfg { num_challenges: 2, ..base.clone() }, Cfg { num_challenges: 2, rate_bits: 2, cap_height: 1, arity: Arity::Ones(1), ..base.clone() }];
    if thorough {
        v.push(Cfg { num_challenges: 3, rate_bits: 3, arity: Arity::Constant(1, 1), ..base.clone() });
        v.push(Cfg { num_challenges: 1, rate_bits: 2, cap_height: 1, ..base.clone() });
    }
    v
}

fn judge_system(ctx: &Ctx, s: &System, sc: &starky::config::StarkConfig, tables: &[Rows], what: &str) -> Result<String, (String, String)> {
    judge_system_adv(ctx, s, sc, tables, what, None)
}

/// `balance`: adversarial prover that shifts one running-sum column so that the cross-table first-row
/// check balances (see starkm::ctl_prove_adv); the expected verdict is still the multiset oracle's.
fn judge_system_adv(ctx: &Ctx, s: &System, sc: &starky::config::StarkConfig, tables: &[Rows], what: &str, balance: Option<u8>) -> Result<String, (String, String)> {
    let cf = check_ctls(tables, &s.ctls);
    let terms_ok = s.defs.iter().zip(tables).all(|(d, t)| check_trace(d, t, &[]).is_empty());
    let expect_ok = cf.is_empty() && terms_ok;
    let kind = if !cf.is_empty() { "ctl" } else { "term" };
    ctx.transition(1);
    let proofs = match ctl_prove_adv(&s.defs, tables, &s.ctls, sc, false, balance) {
        Ok(p) => p,
        Err(e) => {
            if expect_ok {
                return Err((format!("ctl-prove/valid-system-failed:{}:{what}", s.name), format!("multiset oracle satisfied but proving failed: {e}")));
            }
            ctx.count("noproof", 1);
            return Ok(format!("noproof:{what}:{}", error_class(&e)));
        }
    };
    ctx.transition(1);
    ctx.trace(1);
    let v = ctl_verify(&s.defs, &s.ctls, sc, &proofs);
    match (expect_ok, v) {
        (true, Verdict::Accepted) => {
            ctx.count("ctl_accepted_valid", 1);
            Ok(format!("accepted:ctl:{what}"))
        }
        (true, v) => Err((format!("ctl-verify/valid-system-rejected:{}:{what}", s.name), format!("multiset oracle satisfied but the system was not accepted: {v:?}"))),
        (false, Verdict::Accepted) => {
            let why = cf.first().map(|f| format!("CTL {} tuple {:?}: looking weight {} vs looked weight {}", f.ctl, f.tuple, f.looking, f.looked)).unwrap_or_else(|| "a table's own constraint term".into());
            let adv = match balance {
                None => "",
                Some(0) => ":balanced-looking-Z",
                Some(_) => ":balanced-looked-Z",
            };
            Err((format!("ctl-verify/bad-system-accepted:{kind}{adv}"), format!("oracle violated ({why}) but the system was ACCEPTED")))
        }
        (false, v) => {
            ctx.count(&format!("ctl_rejected_bad:{kind}"), 1);
            Ok(format!("{}:ctl:{what}:{kind}", v.class()))
        }
    }
}

fn cross_table(ctx: &Ctx, systems: &[System], thorough: bool) {
    let ks: Vec<usize> = if thorough { vec![3, 4, 5] } else { vec![3, 4] };
    let mut blocks = Vec::new();
    for (si, _) in systems.iter().enumerate() {
        for &k in &ks {
            for cfg in ctl_cfgs(thorough) {
                for ch in 0..3 {
                    blocks.push((si, k, cfg.clone(), ch));
                }
            }
        }
    }
    ctx.count("ctl_blocks", blocks.len() as u64);
    par_for(blocks.len(), |bi| {
        let (si, k, cfg, ch) = &blocks[bi];
        let s = &systems[*si];
        let prefix = format!("ctl|{}|k{}|{}|ch{ch}|", s.name, k, cfg.tag());
        if !want_prefix(ctx, &prefix) {
            return;
        }
        let sc = cfg.stark_config();
        let tables = (s.gen)(*k, *ch);
        let case = format!("{prefix}honest");
        let obs = judged_case(ctx, &case, || judge_system(ctx, s, &sc, &tables, "honest"));
        let sampled = ctx.want(&case) && *k == 3 && *ch == 0 && *cfg == ctl_cfgs(false)[0] && s.name == "AtoB";
        if sampled {
            ctx.sample(json!({"case": case, "tables": tables, "expected": "accepted", "observed": obs}));
        }
        if obs.starts_with("VIOLATION") || (*ch != 0 && !thorough) {
            return; // an honest system that fails is reported once; its corruptions would only repeat it
        }
        for bal in if s.ctls.iter().all(|c| c.extra.is_empty()) { vec![0u8, 1] } else { vec![] } {
            // control: on a valid system the balancing shift is zero
            let case = format!("{prefix}honest balance{bal}");
            if ctx.want(&case) {
                judged_case(ctx, &case, || judge_system_adv(ctx, s, &sc, &tables, "honest-balanced", Some(bal)));
            }
        }
        for (ti, t) in tables.iter().enumerate() {
            let n = t.len();
            for r in 0..n {
                for c in 0..s.defs[ti].cols {
                    let v = t[r][c];
                    for (tag, nv) in [("+1", addm(v, 1)), ("0", 0u64)] {
                        if nv == v {
                            continue;
                        }
                        let case = format!("{prefix}cell t{ti} r{r} c{c} {tag}");
                        if !ctx.want(&case) {
                            continue;
                        }
                        let mut tabs = tables.clone();
                        tabs[ti][r][c] = nv;
                        let ok = system_ok(s, &tabs);
                        let what = format!("{}cell:{}", if ok { "unpinned-" } else { "" }, row_class(r, n));
                        let obs = judged_case(ctx, &case, || judge_system(ctx, s, &sc, &tabs, &what));
                        // the same violated system under the two balancing provers (systems without extra
                        // looking values: the balancing shift does not account for them)
                        if !ok && tag == "+1" && (thorough || *k == 3) && s.ctls.iter().all(|c| c.extra.is_empty()) {
                            for bal in [0u8, 1] {
                                let case = format!("{prefix}cell t{ti} r{r} c{c} {tag} balance{bal}");
                                if ctx.want(&case) {
                                    let what = format!("cell:{}:balance{bal}", row_class(r, n));
                                    judged_case(ctx, &case, || judge_system_adv(ctx, s, &sc, &tabs, &what, Some(bal)));
                                }
                            }
                        }
                        if sampled && r == 1 && tag == "+1" {
                            ctx.sample(json!({"case": case, "old": v, "new": nv, "oracle_satisfied": ok, "observed": obs}));
                        }
                    }
                }
            }
        }
    });
}

fn cross_table_tamper(ctx: &Ctx, systems: &[System]) {
    par_for(systems.len(), |si| {
        let s = &systems[si];
        let k = 3;
        let cfg = Cfg { rate_bits: 1, cap_height: 1, num_challenges: 2, queries: 10, pow_bits: 1, arity: Arity::Ones(1) };
        let prefix = format!("ctl|{}|k{}|{}|tamper|", s.name, k, cfg.tag());
        if !want_prefix(ctx, &prefix) {
            return;
        }
        let sc = cfg.stark_config();
        let tables = (s.gen)(k, 1);
        let proofs = match ctl_prove(&s.defs, &tables, &s.ctls, &sc, false) {
            Ok(p) => p,
            Err(_) => {
                ctx.count("tamper_base_unavailable", 1); // reported by cross_table's honest case
                return;
            }
        };
        if !ctl_verify(&s.defs, &s.ctls, &sc, &proofs).accepted() {
            ctx.count("tamper_base_unavailable", 1); // reported by cross_table's honest case
            return;
        }
        let tree = Value::Array(proofs.iter().map(proof_to_json).collect());
        let verify = |t: &Value| -> Option<Verdict> {
            let arr = t.as_array()?;
            let mut ps = Vec::new();
            for x in arr {
                ps.push(proof_from_json(x).ok()?);
            }
            Some(ctl_verify(&s.defs, &s.ctls, &sc, &ps))
        };
        tamper_all(ctx, &prefix, &tree, false, &verify);
    });
}

/// A system proven under its own CTL declaration and verified under a different one (looked columns
/// swapped; a looking filter made always-on): rejected whenever the tables violate the verifier's
/// declaration (multiset oracle).
fn ctl_cross_declaration(ctx: &Ctx, systems: &[System]) {
    par_for(systems.len(), |si| {
        let s = &systems[si];
        let cfg = ctl_cfgs(false)[1].clone();
        let sc = cfg.stark_config();
        let mut variants: Vec<(&str, Vec<CtlSpec>)> = Vec::new();
        let mut swapped = s.ctls.clone();
        swapped[0].looked.columns.reverse();
        variants.push(("looked-columns-swapped", swapped));
        let mut nofilter = s.ctls.clone();
        nofilter[0].looking[0].filter = None;
        variants.push(("looking-filter-always-on", nofilter));
        for ch in 0..3 {
            let tables = (s.gen)(3, ch);
            for (vname, vctls) in &variants {
                let case = format!("ctl|{}|k3|{}|ch{ch}|verified-under {vname}", s.name, cfg.tag());
                if !ctx.want(&case) {
                    continue;
                }
                let bad = !check_ctls(&tables, vctls).is_empty();
                ctx.state(1);
                ctx.case("ctl-verify/cross-declaration-accepted", &case, || {
                    ctx.transition(2);
                    let proofs = match ctl_prove(&s.defs, &tables, &s.ctls, &sc, false) {
                        Ok(p) => p,
                        Err(e) => return Ok(format!("ctl-cross:base-unavailable:{}", error_class(&e))), // reported by cross_table
                    };
                    let v = ctl_verify(&s.defs, vctls, &sc, &proofs);
                    if !bad {
                        return Ok(format!("ctl-cross:tables-satisfy-both:{}", v.class()));
                    }
                    match v {
                        Verdict::Accepted => Err(format!("system proven under its declaration accepted under '{vname}', which the tables violate")),
                        v => {
                            ctx.count("ctl_rejected_cross_declaration", 1);
                            Ok(format!("ctl-cross:{}", v.class()))
                        }
                    }
                });
            }
        }
    });
}
