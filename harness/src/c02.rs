//! C02 — no accepted proof exists for an assignment that violates the circuit.
//!
//! Fault enumeration with deviation bound 1 (one corrupted cell / one corrupted variable, optionally
//! combined with one adversarial prover strategy) against the REAL prover and verifier:
//! every cell of the wire matrix of every subject circuit is corrupted individually (copy classes
//! broken through an identity representative map handed to the public
//! `prove_with_partition_witness`), every copy class / virtual variable is corrupted consistently,
//! and every adversarial strategy of the catalogue (all-zero / constant permutation accumulator,
//! quotient perturbed for one challenge, lenient quotient truncation, chosen proof-of-work witness,
//! lenient lookup multiplicities) is run alone and combined with each kind of corruption.
//! Oracle: the exact satisfaction predicate `sat` (plonkm.rs) decides the expected verdict:
//! verify == Ok  <=>  a proof was emitted  and  sat(assignment)  and  no degenerate strategy is armed.

use plonky2::plonk::circuit_data::CircuitConfig;
use plonky2::verif_hooks::knobs::{self, Knobs};
use serde_json::json;

use crate::core::*;
use crate::plonkm::*;

pub struct Subject {
    pub name: String,
    pub cfg_name: String,
    pub prog: Program,
    pub built: Built<PC>,
    pub sc: SatCtx,
    pub identity: Vec<usize>,
    pub unset: Vec<usize>,
    /// (input vector, honest assignment of every target)
    pub bases: Vec<(Vec<u64>, Vec<F>)>,
}

pub fn subject_programs() -> Vec<(Program, Vec<Vec<u64>>)> {
    use Op::*;
    use Ty::*;
    let mut v = Vec::new();
    v.push((
        Program::new(
            "arith_range",
            vec![B, B, Bool],
            vec![MulAdd(0, 1, 0), RangeCheck(1, 8), IsEqual(0, 1), Select(2, 0, 3), AssertBool(4), CondAssertEq(4, 0, 1), SplitLe(1, 8), LeSum(vec![7, 8, 9]), Connect(0, 0), AddConst(3, 77)],
        ),
        vec![vec![5, 200, 1], vec![P - 1, 255, 0], vec![7, 7, 1]],
    ));
    v.push((
        Program::new(
            "poseidon_merkle",
            vec![B; 2 + 1 + 4 + 4],
            vec![
                HashNoPad(vec![0, 1]),
                MerkleVerify { leaf: vec![0, 1, 0, 1, 0], index: 2, height: 1, root: vec![3, 4, 5, 6], siblings: vec![7, 8, 9, 10] },
                HashOrNoop(vec![11, 12, 13, 14, 0]),
            ],
        ),
        {
            let mut ivs = Vec::new();
            for (a, b, idx) in [(3u64, 4u64, 1u64), (P - 1, 0, 0), (1 << 32, EPS, 1)] {
                let leaf = vec![a, b, a, b, a];
                let sib = vec![9, 8, 7, 6];
                let cur = ref_hash_or_noop(&leaf);
                let root = if idx == 1 { ref_two_to_one(&sib, &cur) } else { ref_two_to_one(&cur, &sib) };
                let mut iv = vec![a, b, idx];
                iv.extend(root);
                iv.extend(sib);
                ivs.push(iv);
            }
            ivs
        },
    ));
    v.push((
        {
            let mut p = Program::new("lookups", vec![B, B], vec![Lookup(0, 0), Lookup(1, 1), Lookup(2, 1), Add(2, 3), Lookup(0, 0)]);
            p.tables = vec![(0..8).map(|i| (i, (i + 3) % 8)).collect(), (0..30).map(|i| (i, (i * i) % 251)).collect()];
            p
        },
        vec![vec![2, 5], vec![7, 29], vec![0, 0]],
    ));
    v.push((
        Program::new(
            "random_access_exp",
            vec![B, B, B, B],
            vec![RandomAccess(0, vec![1, 2, 3, 1]), Exp(1, 0, 3), ExpBits(2, 0, 2), Mul(4, 5), ExtFromBase(1, 2), ExtFromBase(3, 6), MulExt(8, 9), ReduceExt(10, vec![8, 9, 10]), RandomAccessExt(0, vec![8, 9, 10, 11])],
        ),
        vec![vec![2, 3, 5, 7], vec![0, P - 1, 1, 0], vec![3, 2, 2, 2]],
    ));
    // thorough extras
    v.push((
        Program::new("base_sum_split", vec![B], vec![SplitLeBase(0, 3, 5), SplitLowHigh(0, 4, 8), Inverse(0), Div(1, 0), ExpU64(0, 5)]),
        vec![vec![200], vec![1], vec![242]],
    ));
    v.push((
        Program::new("ext_div", vec![E, E], vec![DivExt(0, 1), InverseExt(1), MulAddExt(0, 1, 2), PolyEvalExt(vec![0, 1, 2, 3], 4), ReduceExt(0, vec![5, 4])]),
        vec![vec![1, 2, 3, 4], vec![P - 1, 0, 0, 1], vec![0, 0, 1, 1]],
    ));
    v
}

fn configs(thorough: bool) -> Vec<(String, CircuitConfig)> {
    let lat = config_lattice(2);
    let pick: Vec<&str> =
        if thorough { vec!["std", "chal1", "chal3", "qdf7", "qdf16_rate4", "routed25", "wires234_routed136", "zk", "cap0", "no_base_arith"] } else { vec!["std"] };
    let mut out: Vec<(String, CircuitConfig)> = lat.into_iter().filter(|(n, _)| pick.contains(&n.as_str())).collect();
    // proof-of-work strategy needs real grinding bits
    for (_, c) in out.iter_mut() {
        c.fri_config.proof_of_work_bits = 6;
        fix_security(c);
    }
    out
}

pub fn build_subjects(ctx: &Ctx, thorough: bool, max_programs: usize) -> Vec<Subject> {
    let progs: Vec<(Program, Vec<Vec<u64>>)> = subject_programs().into_iter().take(max_programs).collect();
    let cfgs = configs(thorough);
    let jobs: Vec<(usize, usize)> = (0..progs.len()).flat_map(|p| (0..cfgs.len()).map(move |c| (p, c))).collect();
    let built: Vec<Option<Subject>> = par_map(jobs.len(), |k| {
        let (pi, ci) = jobs[k];
        let (prog, ivs) = &progs[pi];
        let (cname, cfg) = &cfgs[ci];
        // zero knowledge pads every circuit to 512 rows (a prove costs ~10x): two programs only
        if cname == "zk" && pi != 0 && pi != 2 {
            return None;
        }
        make_subject(ctx, prog, ivs, cname, cfg, if thorough { ivs.len() } else { 1 })
    });
    let mut out: Vec<Subject> = built.into_iter().flatten().collect();
    if !thorough {
        // the quick tier still touches the configuration axes that change the vanishing polynomial:
        // narrow routing (different partial-product chunking), 1 and 3 challenges, quotient factor 7
        // (the only factor for which the honest prover really truncates); zero knowledge is thorough-only
        let lat = config_lattice(2);
        for (pi, cname) in [(0usize, "routed25"), (2, "chal1"), (3, "qdf7"), (0, "chal3")] {
            if pi >= progs.len() {
                continue;
            }
            if let Some((_, cfg)) = lat.iter().find(|(n, _)| n == cname) {
                let mut cfg = cfg.clone();
                cfg.fri_config.proof_of_work_bits = 6;
                fix_security(&mut cfg);
                if let Some(s) = make_subject(ctx, &progs[pi].0, &progs[pi].1, cname, &cfg, 1) {
                    out.push(s);
                }
            }
        }
    }
    out
}

/// Builds one subject: the circuit, its satisfaction context, and the honest assignment of every
/// target for the first `n_inputs` base inputs.
pub fn make_subject(ctx: &Ctx, prog: &Program, ivs: &[Vec<u64>], cname: &str, cfg: &CircuitConfig, n_inputs: usize) -> Option<Subject> {
    {
        {
        let b = guarded(|| build_program::<PC>(prog, cfg));
        let built = match b {
            Ok(b) => b,
            Err(p) => {
                if p.contains("FRI total reduction arity is too large") {
                    return None;
                }
                ctx.machinery_error(format!("subject {}@{} does not build: {p}", prog.name, cname));
                return None;
            }
        };
        let sc = sat_prepare(&built.data);
        let n = built.data.prover_only.representative_map.len();
        let identity: Vec<usize> = (0..n).collect();
        let unset = prover_written_cells(&built.data);
        let mut bases = Vec::new();
        for (i, iv) in ivs.iter().take(n_inputs).enumerate() {
            if prog.eval(iv).is_none() {
                ctx.machinery_error(format!("subject {} base input {:?} does not satisfy the program", prog.name, iv));
                continue;
            }
            plonky2_field::verif_hooks::set_seed(Some(ctx.seed.wrapping_add(1000 + i as u64)));
            let w = gen_witness(&built.data, inputs_pw(&built, iv));
            plonky2_field::verif_hooks::set_seed(None);
            match w {
                Ok(w) => bases.push((iv.clone(), w.values)),
                Err(e) => ctx.machinery_error(format!("subject {} base input {:?}: witness generation failed: {e}", prog.name, iv)),
            }
        }
        Some(Subject { name: prog.name.clone(), cfg_name: cname.to_string(), prog: prog.clone(), built, sc, identity, unset, bases })
        }
    }
}

/// The proof (if any) the real prover emits for one corruption under one strategy.
pub fn prove_case(s: &Subject, base: &[F], corr: &Corr, st: Strat, seed: u64) -> Result<plonky2::plonk::proof::ProofWithPublicInputs<F, PC, D>, String> {
    let Some(values) = apply_corr(s, base, corr) else { return Err("identity-corruption".into()) };
    knobs::set(knobs_for(st));
    plonky2_field::verif_hooks::set_seed(Some(seed));
    let proof = prove_identity(&s.built.data, &values, &s.unset, &s.identity);
    plonky2_field::verif_hooks::set_seed(None);
    knobs::reset();
    proof
}

#[derive(Clone, Debug)]
pub enum Corr {
    None,
    /// one target index (wire cell or virtual target), replacement kind
    Cell(usize, u8),
    /// whole copy class of this representative, replacement kind
    Class(usize, u8),
}

#[derive(Clone, Copy, Debug, PartialEq)]
pub enum Strat {
    S0,
    /// lenient quotient truncation
    S1,
    /// Z accumulator initialised with this value (0 = all-zero accumulator)
    S2(u64),
    /// quotient of challenge index j perturbed by +1
    S4(usize),
    /// chosen proof-of-work witness
    S5(u64),
    /// lenient lookup multiplicities
    S6,
    /// running lookup sums shifted so that their final value is zero (+ lenient lookups/quotient)
    S7,
}

fn repl(v: F, kind: u8) -> F {
    match kind {
        0 => v + F::ONE,
        1 => F::ZERO,
        2 => -F::ONE,
        _ => v + v + F::ONE,
    }
}
use plonky2::field::types::Field;

pub fn apply_corr(s: &Subject, base: &[F], c: &Corr) -> Option<Vec<F>> {
    let mut v = base.to_vec();
    match c {
        Corr::None => {}
        Corr::Cell(i, k) => {
            let n = repl(v[*i], *k);
            if n == v[*i] {
                return None;
            }
            v[*i] = n;
        }
        Corr::Class(rep, k) => {
            let rm = &s.built.data.prover_only.representative_map;
            let old = v[*rep];
            let n = repl(old, *k);
            if n == old {
                return None;
            }
            for i in 0..v.len() {
                if rm[i] == *rep {
                    v[i] = n;
                }
            }
        }
    }
    Some(v)
}

pub fn knobs_for(st: Strat) -> Knobs {
    let mut k = Knobs::default();
    match st {
        Strat::S0 => {}
        Strat::S1 => k.lenient_quotient = true,
        Strat::S2(z) => {
            k.z_init = Some(z);
            k.lenient_quotient = true;
        }
        Strat::S4(j) => k.quotient_perturb = Some((j, 1)),
        Strat::S5(w) => k.pow_witness = Some(w),
        Strat::S6 => {
            k.lenient_lookups = true;
            k.lenient_quotient = true;
        }
        Strat::S7 => {
            k.lenient_lookups = true;
            k.lenient_quotient = true;
            k.lookup_sum_shift = true;
        }
    }
    k
}

/// Runs one case. Returns Ok(observation class) or Err(violation detail).
pub fn run_case(s: &Subject, base: &[F], corr: &Corr, st: Strat, seed: u64) -> Result<String, String> {
    let Some(values) = apply_corr(s, base, corr) else { return Ok(String::new()) };
    let data = &s.built.data;
    let nw = data.common.config.num_wires;
    let degree = data.common.degree();
    // expected verdict
    let lenient_lookups = matches!(st, Strat::S6 | Strat::S7);
    let has_luts = !data.common.luts.is_empty();
    let committed = if has_luts { apply_lookup_padding(data, &values, lenient_lookups) } else { Ok(values.clone()) };
    let pis: Vec<F> = data.prover_only.public_inputs.iter().map(|t| values[t.index(nw, degree)]).collect();
    let sat_res: Result<(), String> = match &committed {
        Err(e) => Err(format!("prover-cannot-proceed:{e}")),
        Ok(cv) => sat(data, &s.sc, cv, &pis).and_then(|_| if has_luts { lookup_sat(data, cv) } else { Ok(()) }),
    };
    // prove with the knobs armed
    knobs::set(knobs_for(st));
    plonky2_field::verif_hooks::set_seed(Some(seed));
    let unset: Vec<usize> = s.unset.clone();
    let proof = prove_identity(data, &values, &unset, &s.identity);
    plonky2_field::verif_hooks::set_seed(None);
    knobs::reset();
    let proof = match proof {
        Err(e) => {
            // no proof emitted: allowed by the property whenever the assignment is bad; for a
            // satisfying assignment under the plain strategy it is a completeness failure
            if sat_res.is_ok() && matches!(st, Strat::S0 | Strat::S1) {
                return Err(format!("prover failed on a satisfying assignment: {e}"));
            }
            let kind = if e.starts_with("panic") { "prover-panic" } else { "prover-err" };
            return Ok(format!("{kind}:{}", sat_class(&sat_res)));
        }
        Ok(p) => p,
    };
    // strategy-specific expectation
    let mut expect_accept = sat_res.is_ok();
    let mut why = sat_class(&sat_res);
    match st {
        Strat::S2(z) => {
            if z != 1 {
                expect_accept = false;
                why = format!("z-init-{z}");
            }
        }
        Strat::S4(j) => {
            expect_accept = false;
            why = format!("quotient-perturbed-{j}");
        }
        Strat::S5(_) => {
            // exact oracle: leading zeros of the pow response (the challenge derivation itself is
            // C04/C13's business)
            let ch = proof.get_challenges(proof.get_public_inputs_hash(), &data.verifier_only.circuit_digest, &data.common);
            match ch {
                Ok(ch) => {
                    let lz = cu(ch.fri_challenges.fri_pow_response).leading_zeros();
                    if lz < data.common.config.fri_config.proof_of_work_bits {
                        expect_accept = false;
                        why = "pow-insufficient".into();
                    } else {
                        why = format!("pow-sufficient+{why}");
                    }
                }
                Err(_) => {
                    expect_accept = false;
                    why = "challenges-err".into();
                }
            }
        }
        _ => {}
    }
    let verdict = guarded(|| data.verify(proof.clone()));
    let accepted = matches!(verdict, Ok(Ok(())));
    let panicked = verdict.is_err();
    if accepted && !expect_accept {
        return Err(format!("ACCEPTED a proof that must be rejected ({why})"));
    }
    if !accepted && expect_accept {
        let e = match verdict {
            Ok(Err(e)) => e.to_string(),
            Err(p) => format!("panic: {p}"),
            _ => String::new(),
        };
        return Err(format!("REJECTED a proof of a satisfying assignment under strategy {:?}: {e}", st));
    }
    Ok(format!("{}:{}{}", if accepted { "accepted" } else { "rejected" }, why, if panicked { ":verifier-panic" } else { "" }))
}

fn sat_class(r: &Result<(), String>) -> String {
    match r {
        Ok(()) => "sat".into(),
        Err(e) => {
            // keep gate name / kind, drop row and cell numbers
            let mut parts = e.split(':');
            let a = parts.next().unwrap_or("");
            let b = parts.next().unwrap_or("");
            let b: String = b.split(|c: char| c == ' ' || c == '{' || c == '<' || c == '(').next().unwrap_or("").to_string();
            format!("unsat-{a}-{b}")
        }
    }
}

pub fn case_name(s: &Subject, bi: usize, corr: &Corr, st: Strat) -> String {
    format!("{}@{} base={} corr={:?} strat={:?}", s.name, s.cfg_name, bi, corr, st)
}

pub fn run(ctx: &Ctx) -> i32 {
    let thorough = ctx.tier.thorough();
    let subjects = build_subjects(ctx, thorough, if thorough { 6 } else { 4 });
    ctx.sample(json!({"subjects": subjects.iter().map(|s| format!("{}@{} rows={} targets={} classes={}", s.name, s.cfg_name, s.sc.degree, s.identity.len(), s.sc.n_classes)).collect::<Vec<_>>() }));
    for s in &subjects {
        if !s.sc.static_issues.is_empty() {
            ctx.violation("static:sigma-vs-copy-classes", format!("{}@{} static", s.name, s.cfg_name), s.sc.static_issues.join("; "));
        }
    }
    // enumerate cases
    let mut cases: Vec<(usize, usize, Corr, Strat)> = Vec::new();
    for (si, s) in subjects.iter().enumerate() {
        // full depth (3 base inputs, 3 replacement values, every cell under every strategy) on the
        // standard configuration; the configuration deviations get one base input, replacement v+1
        // and strategy x cell combinations on every 3rd cell
        let full = thorough && s.cfg_name == "std";
        let kinds: Vec<u8> = if full { vec![0, 1, 2] } else { vec![0] };
        let nc = s.built.data.common.config.num_challenges;
        let n_targets = s.identity.len();
        let rm = &s.built.data.prover_only.representative_map;
        // classes with >= 2 members, or a virtual-target representative
        let mut class_size = std::collections::BTreeMap::new();
        for i in 0..n_targets {
            *class_size.entry(rm[i]).or_insert(0usize) += 1;
        }
        let classes: Vec<usize> = class_size.iter().filter(|(_, n)| **n >= 2).map(|(r, _)| *r).collect();
        for bi in 0..(if full || !thorough { s.bases.len() } else { 1 }) {
            cases.push((si, bi, Corr::None, Strat::S0));
            // every cell and every virtual target, individually (quick tier: every 2nd target for the
            // extra configuration subjects)
            // the zero-knowledge subjects have 512 rows (blinding): every 4th target there
            let tstep = if !thorough && s.cfg_name != "std" { 3 } else if s.cfg_name == "zk" { 16 } else { 1 };
            for i in (0..n_targets).step_by(tstep) {
                for k in &kinds {
                    cases.push((si, bi, Corr::Cell(i, *k), Strat::S0));
                }
            }
            for r in &classes {
                for k in &kinds {
                    cases.push((si, bi, Corr::Class(*r, *k), Strat::S0));
                }
            }
            // strategies alone
            let mut strats = vec![Strat::S1, Strat::S2(0), Strat::S2(1), Strat::S2(5)];
            for j in 0..nc {
                strats.push(Strat::S4(j));
            }
            for w in 0..(if thorough { 64 } else { 24 }) {
                strats.push(Strat::S5(w));
            }
            if !s.built.data.common.luts.is_empty() {
                strats.push(Strat::S6);
                strats.push(Strat::S7);
            }
            for st in &strats {
                cases.push((si, bi, Corr::None, *st));
            }
            // strategies combined with each kind of corruption: a stride of cells (every cell of the
            // first three rows and of the public-input row would be costly for every strategy; the
            // combination space is cut to cells 0..num_wires step 7 of every row in quick)
            let nw = s.sc.num_wires;
            let combo_strats: Vec<Strat> = {
                let mut v = vec![Strat::S1, Strat::S2(0), Strat::S2(5)];
                if !s.built.data.common.luts.is_empty() {
                    v.push(Strat::S6);
                    v.push(Strat::S7);
                }
                v
            };
            for st in &combo_strats {
                let step = if full { 1 } else if thorough && s.cfg_name == "zk" { 53 } else if thorough { 3 } else if s.cfg_name != "std" { 23 } else { 5 };
                for i in (0..s.sc.degree * nw).step_by(step) {
                    // S6 is only interesting on lookup-related cells; keep all for simplicity of the rule
                    cases.push((si, bi, Corr::Cell(i, 0), *st));
                }
                for r in &classes {
                    cases.push((si, bi, Corr::Class(*r, 0), *st));
                }
            }
        }
    }
    ctx.count("cases_enumerated", cases.len() as u64);
    if std::env::var("VERIF_DEBUG").is_ok() {
        for (si, s) in subjects.iter().enumerate() {
            eprintln!("subject {}@{} rows={} targets={} cases={}", s.name, s.cfg_name, s.sc.degree, s.identity.len(), cases.iter().filter(|c| c.0 == si).count());
        }
    }
    par_for_chunk(cases.len(), 8, |k| {
        let (si, bi, corr, st) = &cases[k];
        let s = &subjects[*si];
        let name = case_name(s, *bi, corr, *st);
        if !ctx.want(&name) {
            return;
        }
        let site = match st {
            Strat::S0 => match corr {
                Corr::None => "honest-identity-witness",
                Corr::Cell(..) => "cell-corruption",
                Corr::Class(..) => "variable-corruption",
            },
            Strat::S1 => "S1-lenient-quotient",
            Strat::S2(0) => "S2-zero-accumulator",
            Strat::S2(_) => "S3-constant-accumulator",
            Strat::S4(_) => "S4-quotient-perturbed",
            Strat::S5(_) => "S5-pow-witness",
            Strat::S6 => "S6-lenient-lookups",
            Strat::S7 => "S7-shifted-lookup-sum",
        };
        ctx.case(site, &name, || {
            let r = run_case(s, &s.bases[*bi].1, corr, *st, ctx.seed.wrapping_add(*bi as u64 + 1));
            r.map(|c| if c.is_empty() { c } else { format!("{}:{}:{}", site, s.name, c) })
        });
    });
    // tallies for vacuity
    ctx.finish(Finish {
        level: "fault_enumeration",
        rule: "for every subject circuit x base input: the honest assignment through an identity representative map (0 deviations), then EVERY target index (each cell of the rows x num_wires matrix incl. advice columns, padding rows, the public-input row, and each virtual target) corrupted individually, EVERY copy class with >=2 members corrupted consistently, each adversarial strategy alone (S1 lenient quotient, S2 zero accumulator, S3 constant accumulator, S4 quotient perturbed per challenge index, S5 chosen pow witnesses, S6 lenient lookups), and S1/S2/S3(/S6) combined with cell and class corruptions; each case = real prove_with_partition_witness + real verify; expected verdict computed exactly by sat/lookup_sat and the strategy rule. distinct_nontrivial counts (site, subject, verdict, reason-class) combinations",
        exhaustive: true,
        assumptions: vec![
            "multi-cell coordinated corruptions and strategies outside S0-S6 are not explored (deviation bound 1 + one strategy)".into(),
            "the oracle trusts each gate's eval_unfiltered (gate-level strength is C07's job) and the harness restatement of lookup padding".into(),
            "a false proof is rejected at zeta in F_p^2 except with probability ~2^-110, so 2 FRI queries suffice for these verdicts".into(),
            "quick tier: replacement v+1 only, first base input only, strategy x cell combinations on every 5th cell; thorough tier: full depth (3 inputs, 3 replacements, every cell under every strategy) on the standard configuration, one input / v+1 / every 3rd cell for the 9 configuration deviations (zero-knowledge subjects, 512 rows, two programs: every 16th target, strategy combinations on every 53rd cell)".into(),
        ],
        extra: json!({}),
    })
}
