//! C17 — binary encodings round-trip and restored circuits are interchangeable.
//!
//! Exploration with a MEASURED coverage obligation over the serializer registries: the catalogue
//! must instantiate every gate of DefaultGateSerializer and every generator of
//! DefaultGeneratorSerializer (computed at run time from the built circuits and compared with the
//! registry lists parsed from the two source files). For each circuit: CircuitData /
//! ProverCircuitData / VerifierCircuitData / CommonCircuitData / VerifierOnlyCircuitData ->
//! to_bytes -> from_bytes -> equality, idempotence of to_bytes, equal digests, every strict prefix
//! stride rejected, and interchange: identical witnesses and proofs from the restored circuit, each
//! side accepting the other's proofs. Proofs and compressed proofs round-trip through bytes.

use std::collections::BTreeSet;

use plonky2::iop::witness::PartialWitness;
use plonky2::plonk::circuit_builder::CircuitBuilder;
use plonky2::plonk::circuit_data::{CircuitConfig, CircuitData, CommonCircuitData, ProverCircuitData, VerifierCircuitData, VerifierOnlyCircuitData};
use plonky2::plonk::proof::{CompressedProofWithPublicInputs, ProofWithPublicInputs};
use plonky2::util::serialization::{DefaultGateSerializer, DefaultGeneratorSerializer};
use serde_json::json;

use crate::core::*;
use crate::plonkm::*;
use crate::recm::*;

pub struct Subj {
    pub name: String,
    pub data: CircuitData<F, PC, D>,
    pub inputs: Vec<PartialWitness<F>>,
    pub zk: bool,
}

fn gs() -> DefaultGateSerializer {
    DefaultGateSerializer
}
fn gens() -> DefaultGeneratorSerializer<PC, D> {
    DefaultGeneratorSerializer::<PC, D>::default()
}

fn prog_subject(name: &str, prog: &Program, ivs: &[Vec<u64>], cfg: &CircuitConfig) -> Option<Subj> {
    let built = guarded(|| build_program::<PC>(prog, cfg)).ok()?;
    let inputs: Vec<PartialWitness<F>> = ivs.iter().filter(|iv| prog.eval(iv).is_some()).take(3).map(|iv| inputs_pw(&built, iv)).collect();
    Some(Subj { name: name.to_string(), data: built.data, inputs, zk: cfg.zero_knowledge })
}

fn extras_program() -> (Program, Vec<Vec<u64>>) {
    use Op::*;
    use Ty::*;
    (
        Program::new(
            "registry_extras",
            vec![B, B, E],
            vec![
                SplitLe(0, 64),                // 3..66   WireSplitGenerator + BaseSumGate<2>
                SplitLowHigh(1, 4, 8),         // 67, 68  LowHighGenerator
                IsEqual(0, 1),                 // 69      EqualityGenerator
                Exp(1, 67, 4),                 // 70      ExponentiationGate
                RandomAccess(67, vec![0, 1, 0, 1, 0, 1, 0, 1, 0, 1, 0, 1, 0, 1, 0, 1]), // 71
                ReduceBase(2, vec![0, 1, 0, 1, 0]), // 72  ReducingGate
                ReduceExt(2, vec![2, 72, 2]),  // 73      ReducingExtensionGate
                MulExt(2, 73),                 // 74
                DivExt(74, 2),                 // 75      QuotientGeneratorExtension
                Const(123456789),              // 76      ConstantGate
                HashNoPad(vec![0, 1, 76]),     // 77..80  PoseidonGate
                SplitLeBase(67, 2, 5),         // 81..85  BaseSplitGenerator<2>
                LeSum((3..36).collect()),      // 86      BaseSumGenerator<2> (more bits than one ArithmeticGate row)
                MulManyExt(vec![2, 73, 74, 75]), // 87    MulExtensionGate
                Arith(3, 5, 0, 1, 86),         // 88
                ArithExt(1, 0, 2, 74, 75),     // 89
            ],
        ),
        vec![vec![5, 9, 1, 2], vec![P - 1, 15, 0, 1], vec![1 << 63, 0, 3, 0]],
    )
}

pub fn subjects(ctx: &Ctx, thorough: bool) -> Vec<Subj> {
    let std = cfg_small(2, 1);
    let mut out: Vec<Subj> = Vec::new();
    let mut progs: Vec<(Program, Vec<Vec<u64>>)> = crate::c02::subject_programs();
    progs.push(extras_program());
    for pr in crate::c01::lookup_programs() {
        let ivs = crate::c01::input_vectors(&pr.program.inputs, &pr.alph);
        progs.push((pr.program, ivs));
    }
    for pr in crate::c01::catalogue() {
        let ivs = crate::c01::input_vectors(&pr.program.inputs, &pr.alph);
        progs.push((pr.program, ivs));
    }
    let made: Vec<Option<Subj>> = par_map(progs.len(), |i| prog_subject(&format!("{}@std", progs[i].0.name), &progs[i].0, &progs[i].1, &std));
    out.extend(made.into_iter().flatten());
    // SplitGenerator is used by no gadget and has private fields; its Default value is the only
    // instance constructible from outside the crate
    {
        let r = guarded(|| {
            let mut builder = CircuitBuilder::<F, D>::new(std.clone());
            let x = builder.add_virtual_target();
            let y = builder.square(x);
            builder.register_public_input(y);
            builder.add_simple_generator(plonky2::gadgets::split_join::SplitGenerator::default());
            let data = builder.build::<PC>();
            (data, x)
        });
        if let Ok((data, x)) = r {
            use plonky2::iop::witness::WitnessWrite;
            let mut pw = PartialWitness::new();
            pw.set_target(x, fe(3)).unwrap();
            out.push(Subj { name: "split_generator_default".into(), data, inputs: vec![pw], zk: false });
        }
    }
    // zero knowledge (RandomValueGenerator, CopyGenerator)
    let mut zk = std.clone();
    zk.zero_knowledge = true;
    for i in [0usize, 2] {
        if let Some(s) = prog_subject(&format!("{}@zk", progs[i].0.name), &progs[i].0, &progs[i].1, &zk) {
            out.push(s);
        }
    }
    // configuration deviations
    let lattice = config_lattice(2);
    let picks: Vec<usize> = if thorough { (1..lattice.len()).collect() } else { vec![3, 10, 14, 19, 22, 24, 26, 27] };
    let jobs: Vec<(usize, usize)> = picks.iter().flat_map(|c| [6usize, 2].into_iter().map(move |p| (p, *c))).collect();
    let made: Vec<Option<Subj>> = par_map(jobs.len(), |k| {
        let (pi, ci) = jobs[k];
        if ci >= lattice.len() {
            return None;
        }
        prog_subject(&format!("{}@{}", progs[pi].0.name, lattice[ci].0), &progs[pi].0, &progs[pi].1, &lattice[ci].1)
    });
    out.extend(made.into_iter().flatten());
    // recursion circuit (CosetInterpolationGate, PoseidonMdsGate, Reducing*, interpolation generator)
    let inner_cfg = rec_config(2, 2, 1, 1, 1);
    let (iprog, iivs) = &progs[0];
    if let Ok(inner) = guarded(|| build_program::<PC>(iprog, &inner_cfg)) {
        let mut inner_proofs = Vec::new();
        for iv in iivs.iter().take(2) {
            if let Ok(Ok(p)) = guarded(|| inner.data.prove(inputs_pw(&inner, iv))) {
                inner_proofs.push(p);
            }
        }
        let outer_cfg = rec_config(2, 2, 1, 1, 1);
        if let Ok(outer) = guarded(|| build_outer(&inner.data.common, &outer_cfg)) {
            let inputs: Vec<PartialWitness<F>> = inner_proofs.iter().filter_map(|p| outer_pw(&outer, p, &inner.data.verifier_only).ok()).collect();
            out.push(Subj { name: "recursion_outer".into(), data: outer.data, inputs, zk: false });
        } else {
            ctx.machinery_error("recursion outer circuit does not build");
        }
        // conditional recursion with the dummy proof generator
        let r = guarded(|| {
            let mut builder = CircuitBuilder::<F, D>::new(outer_cfg.clone());
            let pt = builder.add_virtual_proof_with_pis(&inner.data.common);
            let vdt = builder.add_virtual_verifier_data(inner.data.common.config.fri_config.cap_height);
            let cond = builder.add_virtual_bool_target_safe();
            builder.conditionally_verify_proof_or_dummy::<PC>(cond, &pt, &vdt, &inner.data.common).expect("conditional");
            builder.register_public_inputs(&pt.public_inputs);
            let data = builder.build::<PC>();
            (data, pt, vdt, cond)
        });
        match r {
            Ok((data, pt, vdt, cond)) => {
                use plonky2::iop::witness::WitnessWrite;
                let mut inputs = Vec::new();
                for p in &inner_proofs {
                    let mut pw = PartialWitness::new();
                    pw.set_proof_with_pis_target(&pt, p).unwrap();
                    pw.set_verifier_data_target(&vdt, &inner.data.verifier_only).unwrap();
                    pw.set_bool_target(cond, true).unwrap();
                    inputs.push(pw);
                }
                out.push(Subj { name: "conditional_or_dummy".into(), data, inputs, zk: false });
            }
            Err(p) => ctx.machinery_error(format!("conditional recursion circuit does not build: {p}")),
        }
    } else {
        ctx.machinery_error("inner circuit for recursion does not build");
    }
    out
}

fn registry_names(file: &str, macro_name: &str) -> Vec<String> {
    let repo = std::env::var("VERIF_REPO").unwrap_or_else(|_| "/repo".to_string());
    let Ok(src) = std::fs::read_to_string(format!("{repo}/plonky2/src/util/serialization/{file}")) else { return vec![] };
    // the invocation inside `pub mod default`
    let Some(pos) = src.rfind(&format!("{macro_name}! {{")) else { return vec![] };
    let body = &src[pos..];
    let Some(end) = body.find('}') else { return vec![] };
    body[..end]
        .lines()
        .skip(2) // macro line and the serializer type itself
        .map(|l| l.trim().trim_end_matches(',').to_string())
        .filter(|l| !l.is_empty())
        .map(|l| l.split('<').next().unwrap().to_string())
        .collect()
}

fn check_subject(ctx: &Ctx, s: &Subj) {
    let name = &s.name;
    let common = &s.data.common;
    // --- circuit-level encodings
    // circuits using a gate/generator type outside the default registries must be REFUSED by the
    // serializer (an error, never a wrong encoding)
    let reg_gates = registry_names("gate_serialization.rs", "impl_gate_serializer");
    let base_id = |id: String| -> String { id.split(" + Base: ").next().unwrap().split(|c| c == ' ' || c == '<' || c == '{' || c == '(').next().unwrap().to_string() };
    let unregistered: Vec<String> = s
        .data
        .common
        .gates
        .iter()
        .map(|g| g.0.id())
        .filter(|id| {
            let b = base_id(id.clone());
            !reg_gates.iter().any(|r| *r == b) || (b == "BaseSumGate" && !id.ends_with("Base: 2"))
        })
        .collect();
    if !unregistered.is_empty() {
        ctx.case("unregistered-refused", &format!("{name} unregistered types"), || match guarded(|| s.data.to_bytes(&gs(), &gens())) {
            Ok(Err(_)) => Ok("refused:unregistered-type".into()),
            Ok(Ok(_)) => Err(format!("a circuit with unregistered gate types {:?} was serialised without error", unregistered)),
            Err(p) => Err(format!("serialising a circuit with unregistered gate types panicked: {p}")),
        });
        return;
    }
    ctx.case("circuit-data", &format!("{name} CircuitData bytes"), || {
        let bytes = s.data.to_bytes(&gs(), &gens()).map_err(|e| format!("to_bytes failed: {e:?}"))?;
        let back = CircuitData::<F, PC, D>::from_bytes(&bytes, &gs(), &gens()).map_err(|e| format!("from_bytes failed: {e:?}"))?;
        if back != s.data {
            let what = if back.common != s.data.common { "common" } else if back.verifier_only != s.data.verifier_only { "verifier_only" } else { "prover_only" };
            return Err(format!("restored CircuitData differs from the original ({what})"));
        }
        let again = back.to_bytes(&gs(), &gens()).map_err(|e| format!("second to_bytes failed: {e:?}"))?;
        if again != bytes {
            return Err("to_bytes of the restored circuit is not byte-identical".into());
        }
        if back.verifier_only.circuit_digest != s.data.verifier_only.circuit_digest {
            return Err("digest differs".into());
        }
        // strict prefixes must not decode (stride over the length; the last byte always)
        let n = bytes.len();
        let mut cuts: Vec<usize> = (0..n).step_by((n / 97).max(1)).collect();
        cuts.push(n - 1);
        for c in cuts {
            let r = guarded(|| CircuitData::<F, PC, D>::from_bytes(&bytes[..c], &gs(), &gens()));
            match r {
                Ok(Err(_)) => {}
                Ok(Ok(_)) => return Err(format!("a strict prefix ({c} of {n} bytes) decodes successfully")),
                Err(p) => return Err(format!("decoding a strict prefix ({c} of {n} bytes) panicked: {p}")),
            }
        }
        Ok("circuit-data".into())
    });
    ctx.case("common-data", &format!("{name} CommonCircuitData bytes"), || {
        let bytes = common.to_bytes(&gs()).map_err(|e| format!("to_bytes failed: {e:?}"))?;
        let back = CommonCircuitData::<F, D>::from_bytes(bytes.clone(), &gs()).map_err(|e| format!("from_bytes failed: {e:?}"))?;
        if &back != common {
            return Err("restored CommonCircuitData differs".into());
        }
        if back.to_bytes(&gs()).map_err(|e| format!("{e:?}"))? != bytes {
            return Err("not idempotent".into());
        }
        Ok("common-data".into())
    });
    ctx.case("verifier-only", &format!("{name} VerifierOnlyCircuitData bytes"), || {
        let bytes = s.data.verifier_only.to_bytes().map_err(|e| format!("to_bytes failed: {e:?}"))?;
        let back = VerifierOnlyCircuitData::<PC, D>::from_bytes(bytes.clone()).map_err(|e| format!("from_bytes failed: {e:?}"))?;
        if back != s.data.verifier_only {
            return Err("restored VerifierOnlyCircuitData differs".into());
        }
        Ok("verifier-only".into())
    });
    ctx.case("verifier-data", &format!("{name} VerifierCircuitData bytes"), || {
        let vd = s.data.verifier_data();
        let bytes = vd.to_bytes(&gs()).map_err(|e| format!("to_bytes failed: {e:?}"))?;
        let back = VerifierCircuitData::<F, PC, D>::from_bytes(bytes.clone(), &gs()).map_err(|e| format!("from_bytes failed: {e:?}"))?;
        if back != vd {
            return Err("restored VerifierCircuitData differs".into());
        }
        Ok("verifier-data".into())
    });
    // --- interchange
    let bytes = match s.data.to_bytes(&gs(), &gens()) {
        Ok(b) => b,
        Err(_) => return,
    };
    let Ok(restored) = CircuitData::<F, PC, D>::from_bytes(&bytes, &gs(), &gens()) else { return };
    let pbytes = {
        let pd = ProverCircuitData { prover_only: restored.prover_only.clone_via_bytes(&restored.common), common: restored.common.clone() };
        pd.to_bytes(&gs(), &gens())
    };
    ctx.case("prover-data", &format!("{name} ProverCircuitData bytes"), || {
        let b = pbytes.as_ref().map_err(|e| format!("ProverCircuitData::to_bytes failed: {e:?}"))?;
        let back = ProverCircuitData::<F, PC, D>::from_bytes(b, &gs(), &gens()).map_err(|e| format!("from_bytes failed: {e:?}"))?;
        if back.common != s.data.common || back.prover_only != s.data.prover_only {
            return Err("restored ProverCircuitData differs".into());
        }
        Ok("prover-data".into())
    });
    for (k, pw) in s.inputs.iter().enumerate() {
        ctx.case("interchange", &format!("{name} interchange input#{k}"), || {
            let seed = ctx.seed + 31 + k as u64;
            // witnesses
            plonky2_field::verif_hooks::set_seed(Some(seed));
            let w1 = gen_witness(&s.data, pw.clone());
            plonky2_field::verif_hooks::set_seed(Some(seed));
            let w2 = gen_witness(&restored, pw.clone());
            plonky2_field::verif_hooks::set_seed(None);
            match (&w1, &w2) {
                (Ok(a), Ok(b)) => {
                    if a.values != b.values {
                        return Err("the restored circuit generates a different witness".into());
                    }
                }
                (Err(a), Err(b)) => return Ok(format!("both-fail-witness:{}", truncate(&format!("{a}/{b}"), 40))),
                _ => return Err(format!("witness generation succeeds on one side only: original {:?}, restored {:?}", w1.as_ref().map(|_| ()), w2.as_ref().map(|_| ()))),
            }
            plonky2_field::verif_hooks::set_seed(Some(seed));
            let p1 = guarded(|| s.data.prove(pw.clone()));
            plonky2_field::verif_hooks::set_seed(Some(seed));
            let p2 = guarded(|| restored.prove(pw.clone()));
            plonky2_field::verif_hooks::set_seed(None);
            let (p1, p2) = match (p1, p2) {
                (Ok(Ok(a)), Ok(Ok(b))) => (a, b),
                (a, b) => return Err(format!("prove: original ok={} restored ok={}", matches!(a, Ok(Ok(_))), matches!(b, Ok(Ok(_))))),
            };
            if p1 != p2 {
                if p1.public_inputs != p2.public_inputs {
                    return Err("public inputs differ between original and restored prover".into());
                }
                return Err("proofs differ between original and restored prover (same seed, sequential prover)".into());
            }
            for (who, d, p) in [("restored verifies original's", &restored, &p1), ("original verifies restored's", &s.data, &p2)] {
                match guarded(|| d.verify(p.clone())) {
                    Ok(Ok(())) => {}
                    other => return Err(format!("{who} proof: {:?}", other.map(|r| r.map_err(|e| e.to_string())))),
                }
            }
            // proof encodings
            let pb = p1.to_bytes();
            let back = ProofWithPublicInputs::<F, PC, D>::from_bytes(pb.clone(), &s.data.common).map_err(|e| format!("proof from_bytes failed: {e}"))?;
            if back != p1 {
                return Err("proof bytes do not round-trip".into());
            }
            if back.to_bytes() != pb {
                return Err("proof to_bytes not idempotent".into());
            }
            let r = guarded(|| ProofWithPublicInputs::<F, PC, D>::from_bytes(pb[..pb.len() - 1].to_vec(), &s.data.common));
            if matches!(r, Ok(Ok(_))) {
                return Err("a proof encoding with its last byte removed still decodes".into());
            }
            let cp = p1.clone().compress(&s.data.verifier_only.circuit_digest, &s.data.common).map_err(|e| format!("compress: {e}"))?;
            let cb = cp.to_bytes();
            let cback = CompressedProofWithPublicInputs::<F, PC, D>::from_bytes(cb.clone(), &s.data.common).map_err(|e| format!("compressed from_bytes failed: {e}"))?;
            if cback != cp {
                return Err("compressed proof bytes do not round-trip".into());
            }
            Ok(format!("interchange:{}", if s.zk { "zk" } else { "plain" }))
        });
    }
}

trait CloneViaBytes: Sized {
    fn clone_via_bytes(&self, common: &CommonCircuitData<F, D>) -> Self;
}
impl CloneViaBytes for plonky2::plonk::circuit_data::ProverOnlyCircuitData<F, PC, D> {
    fn clone_via_bytes(&self, common: &CommonCircuitData<F, D>) -> Self {
        use plonky2::util::serialization::{Buffer, Read, Write};
        let mut buf: Vec<u8> = Vec::new();
        buf.write_prover_only_circuit_data(self, &gens(), common).expect("write prover only");
        let mut b = Buffer::new(&buf);
        b.read_prover_only_circuit_data(&gens(), common).expect("read prover only")
    }
}

pub fn run(ctx: &Ctx) -> i32 {
    let thorough = ctx.tier.thorough();
    let subs = subjects(ctx, thorough);
    ctx.sample(json!({"circuits": subs.iter().map(|s| format!("{} (rows {}, generators {})", s.name, s.data.common.degree(), s.data.prover_only.generators.len())).collect::<Vec<_>>() }));
    // coverage of the registries
    let mut gate_ids: BTreeSet<String> = BTreeSet::new();
    let mut gen_ids: BTreeSet<String> = BTreeSet::new();
    for s in &subs {
        for g in &s.data.common.gates {
            gate_ids.insert(g.0.id().split(|c| c == ' ' || c == '<' || c == '{' || c == '(').next().unwrap().to_string());
        }
        for g in &s.data.prover_only.generators {
            gen_ids.insert(g.0.id().split(|c| c == ' ' || c == '<' || c == '{' || c == '(').next().unwrap().to_string());
        }
    }
    let reg_gates = registry_names("gate_serialization.rs", "impl_gate_serializer");
    let reg_gens = registry_names("generator_serialization.rs", "impl_generator_serializer");
    if reg_gates.len() < 10 || reg_gens.len() < 10 {
        ctx.machinery_error(format!("could not parse the serializer registries ({} gates, {} generators)", reg_gates.len(), reg_gens.len()));
    }
    // NonzeroTestGenerator has crate-private fields and no gadget uses it: not constructible from outside
    let not_constructible = ["NonzeroTestGenerator"];
    let missing_gates: Vec<&String> = reg_gates.iter().filter(|g| !gate_ids.iter().any(|i| i.starts_with(g.as_str()))).collect();
    let missing_gens: Vec<&String> =
        reg_gens.iter().filter(|g| !not_constructible.contains(&g.as_str()) && !gen_ids.iter().any(|i| i.starts_with(g.as_str()))).collect();
    ctx.count("registry_gates", reg_gates.len() as u64);
    ctx.count("registry_generators", reg_gens.len() as u64);
    ctx.count("gate_types_instantiated", gate_ids.len() as u64);
    ctx.count("generator_types_instantiated", gen_ids.len() as u64);
    if !missing_gates.is_empty() || !missing_gens.is_empty() {
        ctx.machinery_error(format!("registry entries not instantiated by the catalogue: gates {:?}, generators {:?}", missing_gates, missing_gens));
    }
    ctx.sample(json!({"gate_types": gate_ids, "generator_types": gen_ids}));
    par_for(subs.len(), |i| check_subject(ctx, &subs[i]));
    ctx.finish(Finish {
        level: "exploration",
        rule: "catalogue of circuits whose union instantiates every entry of DefaultGateSerializer and DefaultGeneratorSerializer (coverage measured at run time against the registry lists parsed from the sources; NonzeroTestGenerator is not constructible through the public API) incl. lookups, zero-knowledge blinding, recursion and conditional recursion with the dummy-proof generator, and configuration deviations; per circuit: 5 data encodings round-trip with equality + byte idempotence + strided strict-prefix rejection, then per input: identical witness and identical proof from the restored circuit (sequential prover, same blinding seed), cross verification, proof and compressed-proof byte round trips. distinct_nontrivial = distinct (encoding kind / interchange kind) observations",
        exhaustive: true,
        assumptions: vec![
            "gates/generators outside the default registries (e.g. BaseSumGate<3>) are refused by the serializer with an error and are outside the property".into(),
            "equality is the types' own PartialEq plus byte idempotence of to_bytes".into(),
        ],
        extra: json!({}),
    })
}
