//! C09 — STARK proofs are accepted exactly for traces that satisfy the constraints.
//!
//! Subject: `starky::prover::prove` + `starky::verifier::verify_stark_proof` (release build, so the
//! prover's debug-only `check_constraints` is compiled out exactly as for users) driven with the
//! model-STARK family of `starkm.rs`. Oracle: the row-by-row trace checker `starkm::check_trace`
//! (plain u64 arithmetic, explicit first / last / transition filters, no wrap-around for transitions).
//!
//! Enumerated, for every definition x trace length 2^k x configuration of the lattice:
//!   0 deviations  the honest trace for 3 public-input choices            -> proving succeeds, accepted
//!   1 deviation   EVERY cell of the trace x replacement {v+1, 0} \ {v}   -> verdict == trace checker
//!                 (a cell no constraint pins must still be accepted: the no-false-alarm half)
//!   1 deviation   every public input +1, in the verifier's statement only -> rejected
//!                 every public input +1, consistently prover + verifier    -> verdict == trace checker
//!   1 deviation   every numeric leaf of an accepted proof +1, every list shortened / extended / nulled
//!                 (serde_json), under configurations meeting the verdict floor -> not accepted
//!   cross         a proof for definition A verified under definition B of equal shape: rejected
//!                 whenever A's trace does not satisfy B (trace checker decides)
//!
//! A prover panic / Err on a non-satisfying trace is "no proof obtained" (allowed by the property);
//! it is tallied (`noproof`) so that vacuity is visible.

use serde_json::json;

use crate::core::*;
use crate::starkm::*;

struct Block {
    m: usize,
    k: usize,
    cfg: Cfg,
    /// public-input / initial-value choices whose honest run is checked
    choices: Vec<usize>,
    /// choices for which every cell / public input is corrupted
    cell_choices: Vec<usize>,
}

fn base_cfg(def: &Def) -> Cfg {
    Cfg { rate_bits: def.min_rate_bits(), cap_height: 0, num_challenges: 2, queries: 2, pow_bits: 0, arity: Arity::None }
}

const ARITIES: [Arity; 5] = [Arity::None, Arity::Ones(1), Arity::Ones(2), Arity::Constant(1, 1), Arity::MinSize];

/// The full product rate_bits (from the smallest the definition's degree admits up to 3) x cap_height x
/// num_challenges x reduction strategy, plus two proof-of-work / query-count deviations of the base.
fn lattice(def: &Def, thorough: bool) -> Vec<Cfg> {
    let base = base_cfg(def);
    let caps: &[usize] = if thorough { &[0, 1, 3] } else { &[0, 1] };
    let mut v = vec![base.clone()];
    for rate_bits in base.rate_bits..=3 {
        for &cap_height in caps {
            for num_challenges in [1, 2, 3] {
                for arity in ARITIES.iter() {
                    v.push(Cfg { rate_bits, cap_height, num_challenges, arity: arity.clone(), ..base.clone() });
                }
            }
        }
    }
    v.push(Cfg { pow_bits: 3, queries: 1, ..base.clone() });
    v.push(Cfg { queries: 1, cap_height: 1, num_challenges: 1, arity: Arity::Ones(1), ..base.clone() });
    let mut out: Vec<Cfg> = Vec::new();
    for c in v {
        if !out.contains(&c) {
            out.push(c);
        }
    }
    out
}

fn row_class(r: usize, n: usize) -> &'static str {
    if r == 0 {
        "first-row"
    } else if r == n - 1 {
        "last-row"
    } else {
        "interior"
    }
}

pub fn run(ctx: &Ctx) -> i32 {
    let fam = family();
    let thorough = ctx.tier.thorough();
    self_checks(ctx, &fam);

    let ks: Vec<usize> = if thorough { vec![2, 3, 4, 5, 6] } else { vec![2, 3, 4] };
    let mut blocks = Vec::new();
    let mut inadmissible = 0u64;
    for (mi, m) in fam.iter().enumerate() {
        let base = base_cfg(&m.def);
        for &k in &ks {
            for cfg in lattice(&m.def, thorough) {
                if !cfg.admissible(&m.def, k) {
                    inadmissible += 1;
                    continue;
                }
                let is_base = cfg == base;
                let wide = m.def.cols > 8;
                let cell_choices = if wide {
                    // wide members: every cell only under the base configuration (quick: k <= 3, one choice)
                    if is_base && (thorough || k <= 3) { if thorough { vec![0, 1, 2] } else { vec![0] } } else { vec![] }
                } else if is_base || (thorough && k <= 4) {
                    vec![0, 1, 2]
                } else {
                    vec![0]
                };
                let choices = vec![0, 1, 2];
                blocks.push(Block { m: mi, k, cfg, choices, cell_choices });
            }
        }
    }
    // big blocks first, so that the pool drains evenly
    blocks.sort_by_key(|b| std::cmp::Reverse((fam[b.m].def.cols << b.k) * b.cell_choices.len()));
    ctx.count("blocks", blocks.len() as u64);
    ctx.count("configs_inadmissible_skipped", inadmissible);
    par_for(blocks.len(), |i| trace_block(ctx, &fam, &blocks[i]));
    tamper_pass(ctx, &fam, thorough);
    cross_definition(ctx, &fam, thorough);
    perturbed_quotient(ctx, &fam, thorough);

    let variant = crate::variant_name();
    ctx.finish(Finish {
        level: "fault_enumeration",
        rule: "model-STARK family (24 definitions: 1/2/3/8 columns and four wide ones with 9/13/16/26 columns (several simulated opening points in the constraint-binding step), 0/1/3 public inputs, constraint degree 0,1,2,3,4,5,9, first/last/transition/every-row terms) x trace length 2^k (k = 2..4 quick, 2..6 thorough) x StarkConfig lattice (rate_bits 1..3, cap 0/1, num_challenges 1..3, five FRI reduction strategies; quick: base + all single-axis deviations, thorough: full product) x { honest trace for 3 public-input choices; every single cell x {v+1, 0}; every public input +1 verifier-side and consistently; every numeric leaf +1 and every list drop-last / duplicate-last / null of an accepted proof (verdict floor q*log2(lde) >= 40); proof of A under every equal-shape B }. Expected verdict = independent row-by-row trace checker. states = cases, transitions = prove / verify calls, traces_validated = cases whose verdict was compared with the trace checker",
        exhaustive: true,
        assumptions: vec![
            "a wrong proof that the verifier accepts with probability <= 2^-100 (quotient identity at an extension-field zeta) is not observable; tamper cases use q*log2(lde) >= 40".into(),
            "trace values come from three seed choices per definition plus deterministic filler; replacements are {v+1, 0}".into(),
            "prover panics / errors on non-satisfying traces count as 'no proof obtained' (tallied in counters.noproof)".into(),
            format!("build variant: {variant} (debug assertions off: the prover's check_constraints is compiled out)"),
        ],
        extra: json!({"variant": variant, "definitions": fam.iter().map(|m| m.def.name.clone()).collect::<Vec<_>>()}),
    })
}

/// Harness-side sanity (machinery errors, never verdicts): definitions well-formed, generators
/// produce satisfying traces, every term of every definition is live (some single-cell corruption
/// makes the checker report exactly that term).
fn self_checks(ctx: &Ctx, fam: &[Member]) {
    for m in fam {
        if let Err(e) = validate_def(&m.def) {
            ctx.machinery_error(e);
            continue;
        }
        for k in 2..=4 {
            let n = 1 << k;
            for ch in 0..3 {
                let (rows, pis) = (m.gen)(n, ch);
                if rows.len() != n || rows.iter().any(|r| r.len() != m.def.cols) || pis.len() != m.def.pis {
                    ctx.machinery_error(format!("{}: generator shape wrong", m.def.name));
                    continue;
                }
                let f = check_trace(&m.def, &rows, &pis);
                if !f.is_empty() {
                    ctx.machinery_error(format!("{}: generated trace n={n} choice={ch} violates {:?}", m.def.name, f[0]));
                }
            }
        }
        let (rows, pis) = (m.gen)(8, 0);
        let mut live = vec![false; m.def.terms.len()];
        for r in 0..8 {
            for c in 0..m.def.cols {
                let mut t = rows.clone();
                t[r][c] = addm(t[r][c], 1);
                for f in check_trace(&m.def, &t, &pis) {
                    live[f.term] = true;
                }
            }
        }
        if let Some(i) = live.iter().position(|l| !l) {
            ctx.machinery_error(format!("{}: term {i} is never violated by any single-cell corruption", m.def.name));
        }
    }
}

fn want_prefix(ctx: &Ctx, prefix: &str) -> bool {
    match &ctx.filter {
        None => true,
        Some(f) => f.starts_with(prefix),
    }
}

/// Verdict of proving + verifying `rows` / `pis`, judged against `expect_ok` (the trace checker).
/// Returns Ok(observation class) or Err((site, detail)).
fn judge(def: &Def, sc: &starky::config::StarkConfig, rows: &Rows, pis: &[u64], failures: &[Failure], what: &str, ctx: &Ctx) -> Result<String, (String, String)> {
    let expect_ok = failures.is_empty();
    ctx.transition(1);
    let outcome = prove_def(def, sc, rows, pis, !expect_ok && def.needs_lenient());
    let proof = match outcome {
        ProveOutcome::Proof(p) => *p,
        ProveOutcome::Err(e) | ProveOutcome::Panic(e) => {
            if expect_ok {
                return Err((format!("prove/valid-trace-failed:{what}"), format!("trace satisfies all constraints but proving failed: {e}")));
            }
            ctx.count("noproof", 1);
            return Ok(format!("noproof:{what}:{}", error_class(&e)));
        }
    };
    ctx.transition(1);
    ctx.trace(1);
    let verdict = verify_def(def, sc, proof);
    if expect_ok {
        match verdict {
            Verdict::Accepted => {
                ctx.count("accepted_valid", 1);
                Ok(format!("accepted:{what}"))
            }
            v => Err((format!("verify/valid-trace-rejected:{what}"), format!("trace satisfies all constraints (trace checker) but the proof was not accepted: {v:?}"))),
        }
    } else {
        let f = failures[0];
        match verdict {
            Verdict::Accepted => Err((
                format!("verify/bad-trace-accepted:{}", f.kind.name()),
                format!("trace violates term {} ({}) at row {} (and {} more) but the proof was ACCEPTED", f.term, f.kind.name(), f.row, failures.len() - 1),
            )),
            v => {
                ctx.count(&format!("rejected_bad:{}", f.kind.name()), 1);
                Ok(format!("{}:{what}:{}", v.class(), f.kind.name()))
            }
        }
    }
}

fn trace_block(ctx: &Ctx, fam: &[Member], b: &Block) {
    let m = &fam[b.m];
    let def = &m.def;
    let n = 1usize << b.k;
    let sc = b.cfg.stark_config();
    let prefix = format!("{}|k{}|{}|", def.name, b.k, b.cfg.tag());
    if !want_prefix(ctx, &prefix) {
        return;
    }
    for &ch in &b.choices {
        let (rows, pis) = (m.gen)(n, ch);
        // ---- 0 deviations
        let case = format!("{prefix}pi{ch}|honest");
        let obs = judged_case(ctx, &case, || judge(def, &sc, &rows, &pis, &[], "honest", ctx));
        // samples: a fixed handful of cases (deterministic choice, not first-come)
        let sampled = ctx.want(&case) && b.k == 3 && b.cfg == base_cfg(def) && ch == 0 && ["fib_c2_p3", "acc_c2_p1", "pow3_c1_p1"].contains(&def.name.as_str());
        if sampled {
            ctx.sample(json!({"case": case, "trace": rows, "public_inputs": pis, "trace_checker": "satisfied", "expected": "accepted", "observed": obs}));
        }
        if !b.cell_choices.contains(&ch) {
            continue;
        }
        // ---- every single cell
        for r in 0..n {
            for c in 0..def.cols {
                let v = rows[r][c];
                for (tag, nv) in [("+1", addm(v, 1)), ("0", 0u64)] {
                    if nv == v {
                        continue;
                    }
                    let case = format!("{prefix}pi{ch}|cell r{r} c{c} {tag}");
                    if !ctx.want(&case) {
                        continue;
                    }
                    let mut t = rows.clone();
                    t[r][c] = nv;
                    let failures = check_trace(def, &t, &pis);
                    let what = if failures.is_empty() { format!("cell-unpinned:{}", row_class(r, n)) } else { format!("cell:{}", row_class(r, n)) };
                    let obs = judged_case(ctx, &case, || judge(def, &sc, &t, &pis, &failures, &what, ctx));
                    if sampled && tag == "+1" && c == 0 && (r == n - 1 || r == 0) {
                        let tc = match failures.first() {
                            None => "satisfied (no constraint pins this cell)".to_string(),
                            Some(f) => format!("violates term {} ({}) at row {}", f.term, f.kind.name(), f.row),
                        };
                        ctx.sample(json!({"case": case, "old": v, "new": nv, "trace_checker": tc, "expected": if failures.is_empty() { "accepted" } else { "no accepted proof" }, "observed": obs}));
                    }
                }
            }
        }
        // ---- public inputs
        let honest = match prove_def(def, &sc, &rows, &pis, false) {
            ProveOutcome::Proof(p) => Some(*p),
            _ => None,
        };
        for i in 0..def.pis {
            let mut pis2 = pis.clone();
            pis2[i] = addm(pis2[i], 1);
            // consistently in prover and verifier: the trace checker decides
            let case = format!("{prefix}pi{ch}|pi{i}+1 consistent");
            if ctx.want(&case) {
                let failures = check_trace(def, &rows, &pis2);
                let what = if failures.is_empty() { "pi-unbound" } else { "pi-consistent" };
                judged_case(ctx, &case, || judge(def, &sc, &rows, &pis2, &failures, what, ctx));
            }
            // in the statement given to the verifier only
            let case = format!("{prefix}pi{ch}|pi{i}+1 verifier-only");
            if let Some(h) = &honest {
                if ctx.want(&case) {
                    ctx.state(1);
                }
                ctx.case("verify/public-input-changed-accepted", &case, || {
                    let mut p = h.clone();
                    p.public_inputs[i] = to_field(&[pis2[i]])[0];
                    ctx.transition(1);
                    match verify_def(def, &sc, p) {
                        Verdict::Accepted => Err(format!("public input {i} changed from {} to {} in the verifier's statement, proof still accepted", pis[i], pis2[i])),
                        v => {
                            ctx.count("rejected_pi_verifier_only", 1);
                            Ok(format!("{}:pi-verifier-only", v.class()))
                        }
                    }
                });
            }
        }
    }
}

/// `ctx.case` needs the site before the run; the site of a judged case depends on the outcome, so the
/// case is executed once to learn it (and once more by `ctx.case` to confirm a failure).
fn judged_case(ctx: &Ctx, case: &str, f: impl Fn() -> Result<String, (String, String)>) -> String {
    if !ctx.want(case) {
        return String::new();
    }
    ctx.state(1);
    match guarded(&f) {
        Ok(Ok(class)) => {
            ctx.tick(1);
            ctx.class(class.clone());
            class
        }
        Ok(Err((site, _))) => {
            ctx.case(&site, case, || f().map_err(|(_, d)| d));
            format!("VIOLATION {site}")
        }
        Err(p) => {
            ctx.case("harness/unexpected-panic", case, || Err(format!("panic outside the guarded library calls: {p}")));
            "VIOLATION harness/unexpected-panic".to_string()
        }
    }
}

// ---------------------------------------------------------------------------------------------
// Tampering with accepted proofs (verdict floor).

fn floor_cfgs(def: &Def, k: usize, thorough: bool) -> Vec<Cfg> {
    let mut v = Vec::new();
    let base = base_cfg(def);
    let mut variants = vec![
        base.clone(),
        Cfg { cap_height: 1, arity: Arity::Ones(1), num_challenges: 1, ..base.clone() },
    ];
    if thorough {
        variants.push(Cfg { rate_bits: 3, arity: Arity::Constant(1, 1), num_challenges: 3, pow_bits: 2, ..base.clone() });
        variants.push(Cfg { arity: Arity::Ones(2), ..base.clone() });
    }
    for mut c in variants {
        c.queries = 40usize.div_ceil(k + c.rate_bits);
        if c.admissible(def, k) && c.meets_floor(k) && !v.contains(&c) {
            v.push(c);
        }
    }
    v
}

fn tamper_pass(ctx: &Ctx, fam: &[Member], thorough: bool) {
    let ks: Vec<usize> = if thorough { vec![2, 3, 5] } else { vec![2, 3] };
    let mut jobs = Vec::new();
    for (mi, m) in fam.iter().enumerate() {
        for &k in &ks {
            for cfg in floor_cfgs(&m.def, k, thorough) {
                jobs.push((mi, k, cfg));
            }
        }
    }
    ctx.count("tamper_proofs", jobs.len() as u64);
    par_for(jobs.len(), |j| {
        let (mi, k, cfg) = &jobs[j];
        let m = &fam[*mi];
        let def = &m.def;
        let prefix = format!("{}|k{}|{}|tamper|", def.name, k, cfg.tag());
        if !want_prefix(ctx, &prefix) {
            return;
        }
        let sc = cfg.stark_config();
        let (rows, pis) = (m.gen)(1 << k, 1);
        let proof = match prove_def(def, &sc, &rows, &pis, false) {
            ProveOutcome::Proof(p) => *p,
            _ => {
                ctx.violation("prove/valid-trace-failed:tamper-base", format!("{prefix}base"), "honest proof for the tamper pass could not be produced");
                return;
            }
        };
        if !verify_def(def, &sc, proof.clone()).accepted() {
            ctx.violation("verify/valid-trace-rejected:tamper-base", format!("{prefix}base"), "honest proof for the tamper pass was not accepted");
            return;
        }
        let symmetric = rows.iter().all(|r| r == &rows[0]);
        let tree = proof_to_json(&proof);
        let (nl, nlists) = tamper_all(ctx, &prefix, &tree, symmetric, &|t| proof_from_json(t).ok().map(|p| verify_def(def, &sc, p)));
        if def.name == "fib_c2_p3" && *k == 3 && !ctx.replaying() {
            ctx.sample(json!({"case": format!("{prefix}leaf <every numeric leaf> / list <every list>"), "expected": "not accepted", "leaves_in_this_proof": nl, "lists_in_this_proof": nlists}));
        }
    });
}

// ---------------------------------------------------------------------------------------------
// A proof for definition A verified under definition B of equal shape.

fn cross_definition(ctx: &Ctx, fam: &[Member], thorough: bool) {
    let ks: Vec<usize> = if thorough { vec![2, 3, 4, 5] } else { vec![2, 3] };
    let mut jobs = Vec::new();
    for a in 0..fam.len() {
        for b in 0..fam.len() {
            let (da, db) = (&fam[a].def, &fam[b].def);
            if a != b && (da.cols, da.pis, da.quotient_factor()) == (db.cols, db.pis, db.quotient_factor()) {
                for &k in &ks {
                    jobs.push((a, b, k));
                }
            }
        }
    }
    ctx.count("cross_pairs", jobs.len() as u64);
    par_for(jobs.len(), |j| {
        let (a, b, k) = jobs[j];
        let (ma, mb) = (&fam[a], &fam[b]);
        let mut cfg = base_cfg(&ma.def);
        cfg.rate_bits = cfg.rate_bits.max(mb.def.min_rate_bits());
        if !cfg.admissible(&ma.def, k) || !cfg.admissible(&mb.def, k) {
            return;
        }
        let sc = cfg.stark_config();
        for ch in 0..3 {
            let case = format!("{}|k{}|{}|pi{ch}|verified-under {}", ma.def.name, k, cfg.tag(), mb.def.name);
            if !ctx.want(&case) {
                continue;
            }
            let (rows, pis) = (ma.gen)(1 << k, ch);
            let failures = check_trace(&mb.def, &rows, &pis);
            ctx.state(1);
            ctx.case("verify/cross-definition-accepted", &case, || {
                ctx.transition(2);
                let proof = match prove_def(&ma.def, &sc, &rows, &pis, false) {
                    ProveOutcome::Proof(p) => *p,
                    _ => return Err("honest proof of A could not be produced".into()),
                };
                let v = verify_def(&mb.def, &sc, proof);
                if failures.is_empty() {
                    // A's trace happens to satisfy B as well: the proof may or may not be a proof for B
                    // (it is iff the quotients coincide) — observed, not judged.
                    return Ok(format!("cross:trace-satisfies-both:{}", v.class()));
                }
                ctx.trace(1);
                match v {
                    Verdict::Accepted => Err(format!(
                        "proof made for {} accepted under {} although the trace violates {}'s term {} at row {}",
                        ma.def.name, mb.def.name, mb.def.name, failures[0].term, failures[0].row
                    )),
                    v => {
                        ctx.count("rejected_cross", 1);
                        Ok(format!("cross:{}:{}", v.class(), failures[0].kind.name()))
                    }
                }
            });
        }
    });
}


/// Adversarial prover strategy (knob H3b): the honest trace, but the quotient polynomial of ONE
/// challenge index is perturbed before it is committed. The proof is transcript-consistent and
/// FRI-valid; only the identity vanishing(zeta) = Z_H(zeta) * t(zeta) for that challenge is false,
/// so the verifier must reject for EVERY index (a verifier that checks only some of the challenges,
/// or reuses one alpha, accepts for the others).
fn perturbed_quotient(ctx: &Ctx, fam: &[Member], thorough: bool) {
    let ks: Vec<usize> = if thorough { vec![2, 3, 5] } else { vec![3] };
    let mut cases: Vec<(usize, usize, Cfg, usize)> = Vec::new();
    for (mi, m) in fam.iter().enumerate() {
        if m.def.degree == 0 {
            continue; // no quotient at all
        }
        for &k in &ks {
            for nch in [1usize, 2, 3] {
                let mut cfg = base_cfg(&m.def);
                cfg.num_challenges = nch;
                if !cfg.admissible(&m.def, k) {
                    continue;
                }
                for j in 0..nch {
                    cases.push((mi, k, cfg.clone(), j));
                }
            }
        }
    }
    ctx.count("perturbed_quotient_cases", cases.len() as u64);
    par_for(cases.len(), |i| {
        let (mi, k, cfg, j) = &cases[i];
        let m = &fam[*mi];
        let case = format!("perturb|{}|k{}|{}|challenge{}", m.def.name, k, cfg.tag(), j);
        if !ctx.want(&case) {
            return;
        }
        ctx.case("verify/perturbed-quotient-accepted", &case, || {
            let sc = cfg.stark_config();
            let (rows, pis) = m.trace(1 << k, 0);
            starky::verif_hooks::knobs::set_quotient_perturb(Some((*j, 1)));
            let out = prove_def(&m.def, &sc, &rows, &pis, true);
            starky::verif_hooks::knobs::set_quotient_perturb(None);
            ctx.transition(1);
            match out {
                ProveOutcome::Proof(p) => match verify_def(&m.def, &sc, *p) {
                    Verdict::Accepted => Err(format!("a proof whose quotient polynomial for challenge {j} of {} was perturbed is ACCEPTED", cfg.num_challenges)),
                    Verdict::Rejected(_) => Ok(format!("perturbed-quotient:rejected:ch{}of{}", j, cfg.num_challenges)),
                    Verdict::Panicked(_) => Ok("perturbed-quotient:verifier-panic".into()),
                },
                _ => Ok("perturbed-quotient:noproof".into()),
            }
        });
    });
}
