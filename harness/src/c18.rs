//! C18 — verifiers and proof decoders fail cleanly on malformed input.
//!
//! Fault enumeration. Subjects are accepted proofs of PLONK circuits (plain, lookups, zero-knowledge /
//! salted, Keccak) and of model STARKs (plain, lookups, no quotient). From each accepted proof the
//! engine enumerates
//!
//!   * VALUES (serde tree, `tamper.rs`): every list node x {empty, drop last, duplicate last, append
//!     first}; every Merkle cap resized to {0, 1, 3, 2^(h-1), 2^(h+1), len-1, len+1} entries; every
//!     Merkle path additionally stretched to 70 siblings (its length is used as a bit count); every map
//!     node of the compressed form x {remove key, shift key, add key}; every optional STARK component
//!     flipped None <-> Some; every numeric leaf x {0, p-1, p, 2^64-1} (this includes the compressed
//!     `indices` entries out of range); PAIRS (cap length, Merkle path length), (number of query
//!     rounds, number of steps of a round), (number of commit-phase caps, number of steps);
//!   * BYTES (`to_bytes` encodings of the same proofs, plain and compressed): every prefix, every byte
//!     x {xor 0x01, xor 0x80, set 0xFF}, every 8-byte word x {0, 1, 2^32, 2^63, 2^64-1}, the empty
//!     string, 0xFF repeated, surplus trailing bytes, and every proof's bytes decoded with every other
//!     circuit's common data.
//!
//! Every case is pushed through the public entry points (`CircuitData::verify`,
//! `VerifierCircuitData::verify`, `verify_compressed`, `decompress`, `compress`, the two `from_bytes`,
//! `verify_stark_proof`) and its outcome is one of {Ok, Err, panic, abort, hang}. Required: never a
//! panic / abort / hang; a verifier's `Ok` only for a value that is EQUAL AS A PROOF to the accepted
//! one (typed equality, which identifies representations mod p; for the compressed form equality of
//! the decompressed proof, which identifies the redundant `indices` list and surplus entries that
//! decompression provably ignores); a decoder's `Ok` is fine, what it decoded goes to the verifier.
//!
//! Fiat-Shamir masks malformed transcript-bound lists (an edit changes every later challenge, so
//! the proof-of-work / first Merkle check fails before the malformed part is looked at). Therefore
//! the commit-phase cap list and the final polynomial are additionally mutated and RE-STEERED: one
//! subject is built with proof_of_work_bits = 0, the honest query round of EVERY position of its LDE
//! domain is harvested from honest proofs under different witnesses (knob `pow_witness`), and after
//! the mutation the query rounds are replaced by the honest rounds of the re-derived positions -
//! exactly what a prover deviating in that one component would send.
//!
//! Site keys are `<entry point>:<mutation kind>:<position kind>[:ACCEPTED|:ABORT]`; `a<-b` means
//! "entry point a on the value returned by b". A failing PAIR whose failure one of its components
//! produces alone (same entry point, same message) is filed under that component's key.
//!
//! All cases run in forked CHILD PROCESSES (the parent is single-threaded at fork time) under
//! `setrlimit(RLIMIT_AS)`, so that an attempted huge allocation, a stack overflow or an abort is an
//! observable outcome of the one case that caused it: a child reports each finished case through a
//! pipe; when it dies, the case after the last reported one is the culprit, it is recorded
//! ("abort", confirmed by a second run in a fresh child) and a new child continues after it.
//! `verify_fri_proof` (component level) is run under the honest proof's challenges and only recorded.

use std::collections::BTreeMap;
use std::time::Instant;

use plonky2::plonk::circuit_data::CircuitConfig;
use plonky2::plonk::config::{GenericConfig, Hasher};
use plonky2::plonk::proof::{CompressedProofWithPublicInputs, ProofWithPublicInputs};
use serde_json::{json, Value};

use crate::c02::subject_programs;
use crate::c03::{floor_config, make_accepted, verdict_fixed, Accepted};
use crate::core::*;
use crate::plonkm::{fix_security, D, F, KC, PC};
use crate::starkm;
use crate::tamper::*;

// ---------------------------------------------------------------------------------------------
// Mutations

#[derive(Clone, Copy, Debug, PartialEq, Eq)]
enum ArrOp {
    Empty,
    DropLast,
    DupLast,
    AppendFirst,
    /// set the number of entries (truncate, or extend by cycling through the existing entries)
    Resize(usize),
    /// append an all-zero copy of the first entry (a surplus zero coefficient / element)
    AppendZero,
}

impl ArrOp {
    fn tag(self) -> String {
        match self {
            ArrOp::Empty => "empty".into(),
            ArrOp::DropLast => "drop-last".into(),
            ArrOp::DupLast => "dup-last".into(),
            ArrOp::AppendFirst => "append-first".into(),
            ArrOp::Resize(n) => format!("len{n}"),
            ArrOp::AppendZero => "append-zero".into(),
        }
    }
}

const LIST_OPS: [ArrOp; 4] = [ArrOp::Empty, ArrOp::DropLast, ArrOp::DupLast, ArrOp::AppendFirst];
const LEAF_VALUES: [(u64, &str); 4] = [(0, "0"), (P - 1, "p-1"), (P, "p"), (u64::MAX, "max")];
const MAP_OPS: [(MapMut, &str); 3] = [(MapMut::RemoveFirst, "remove-key"), (MapMut::ShiftFirstKey, "shift-key"), (MapMut::AddKey, "add-key")];

#[derive(Clone, Debug)]
enum TMut {
    Arr(Path, ArrOp),
    Map(Path, usize),
    Leaf(Path, usize),
    /// optional component: Some -> None, or None -> Some(copy of the donor node)
    Opt(Path, Path),
}

impl TMut {
    /// Mutation kind as it appears in SITE keys: equivalent edits share a kind.
    fn site_kind(&self, v: &Value) -> String {
        match self {
            TMut::Arr(p, op) => match *op {
                ArrOp::Empty => "empty".into(),
                ArrOp::DropLast => "shorter".into(),
                ArrOp::DupLast | ArrOp::AppendFirst => "longer".into(),
                ArrOp::AppendZero => "longer-by-zero".into(),
                ArrOp::Resize(n) if !is_cap(p) => format!("len-{n}"),
                ArrOp::Resize(0) => "cap-len-0".into(),
                ArrOp::Resize(n) if !n.is_power_of_two() => "cap-len-not-pow2".into(),
                ArrOp::Resize(n) => {
                    let len = get(v, p).and_then(|a| a.as_array()).map(|a| a.len()).unwrap_or(0);
                    if n < len { "cap-len-smaller-pow2".into() } else { "cap-len-larger-pow2".into() }
                }
            },
            TMut::Map(_, i) => MAP_OPS[*i].1.to_string(),
            TMut::Leaf(..) => "leaf".into(),
            TMut::Opt(..) => "flip-option".into(),
        }
    }
    /// Position kind as it appears in SITE keys: indices erased; for leaves only the component.
    fn site_path(&self) -> String {
        match self {
            TMut::Leaf(p, _) => leaf_component(p),
            other => path_kind(other.path()),
        }
    }
    fn kind(&self) -> String {
        match self {
            TMut::Arr(_, op) => op.tag(),
            TMut::Map(_, i) => MAP_OPS[*i].1.to_string(),
            TMut::Leaf(_, i) => format!("leaf={}", LEAF_VALUES[*i].1),
            TMut::Opt(..) => "flip-option".into(),
        }
    }
    fn path(&self) -> &Path {
        match self {
            TMut::Arr(p, _) | TMut::Map(p, _) | TMut::Leaf(p, _) | TMut::Opt(p, _) => p,
        }
    }
    fn apply(&self, v: &Value) -> Option<Value> {
        match self {
            TMut::Arr(p, op) => {
                let mut t = v.clone();
                let a = get_mut(&mut t, p)?.as_array_mut()?;
                match *op {
                    ArrOp::Empty => {
                        if a.is_empty() {
                            return None;
                        }
                        a.clear();
                    }
                    ArrOp::DropLast => {
                        a.pop()?;
                    }
                    ArrOp::DupLast => {
                        let l = a.last()?.clone();
                        a.push(l);
                    }
                    ArrOp::AppendFirst => {
                        let f = a.first()?.clone();
                        a.push(f);
                    }
                    ArrOp::AppendZero => {
                        let z = zeroed(a.first()?);
                        a.push(z);
                    }
                    ArrOp::Resize(n) => {
                        let orig = a.len();
                        if orig == n || orig == 0 {
                            return None;
                        }
                        a.truncate(n);
                        while a.len() < n {
                            let x = a[a.len() % orig].clone();
                            a.push(x);
                        }
                    }
                }
                Some(t)
            }
            TMut::Map(p, i) => mutate_map(v, p, MAP_OPS[*i].0),
            TMut::Leaf(p, i) => {
                let mut t = v.clone();
                let leaf = get_mut(&mut t, p)?;
                if leaf.as_u64()? == LEAF_VALUES[*i].0 {
                    return None;
                }
                *leaf = Value::from(LEAF_VALUES[*i].0);
                Some(t)
            }
            TMut::Opt(p, donor) => {
                let mut t = v.clone();
                let d = get(v, donor)?.clone();
                let node = get_mut(&mut t, p)?;
                *node = if node.is_null() { d } else { Value::Null };
                Some(t)
            }
        }
    }
}

/// The same tree shape with every number replaced by 0.
fn zeroed(v: &Value) -> Value {
    match v {
        Value::Number(_) => Value::from(0u64),
        Value::Array(a) => Value::Array(a.iter().map(zeroed).collect()),
        Value::Object(m) => Value::Object(m.iter().map(|(k, x)| (k.clone(), zeroed(x))).collect()),
        other => other.clone(),
    }
}

/// Component of the proof a leaf belongs to (site keys of leaf mutations).
fn leaf_component(p: &Path) -> String {
    let keys: Vec<&str> = p.iter().filter_map(|e| if let PathElem::Key(k) = e { Some(k.as_str()) } else { None }).collect();
    let has = |k: &str| keys.contains(&k);
    if has("public_inputs") {
        "public_inputs".into()
    } else if has("openings") {
        "openings".into()
    } else if has("commit_phase_merkle_caps") {
        "fri.commit_phase_caps".into()
    } else if has("indices") {
        "fri.indices".into()
    } else if has("final_poly") {
        "fri.final_poly".into()
    } else if has("pow_witness") {
        "fri.pow_witness".into()
    } else if has("siblings") {
        "fri.query.siblings".into()
    } else if has("query_round_proofs") {
        "fri.query.evals".into()
    } else {
        keys.iter().rev().find(|k| k.ends_with("_cap")).map(|k| k.to_string()).unwrap_or_else(|| path_kind(p))
    }
}

#[derive(Clone, Copy, Debug, PartialEq, Eq)]
enum BMut {
    Prefix(usize),
    Xor(usize, u8),
    SetFF(usize),
    Word(usize, usize),
    Empty,
    AllFF,
    /// honest bytes followed by 8 surplus bytes
    Surplus,
}

const WORDS: [(u64, &str); 5] = [(0, "word=0"), (1, "word=1"), (1 << 32, "word=2^32"), (1 << 63, "word=2^63"), (u64::MAX, "word=max")];

impl BMut {
    fn kind(self) -> String {
        match self {
            BMut::Prefix(_) => "prefix".into(),
            BMut::Xor(..) | BMut::SetFF(_) => "byte-flip".into(),
            BMut::Word(..) => "word".into(),
            BMut::Empty => "empty".into(),
            BMut::AllFF => "all-ff".into(),
            BMut::Surplus => "surplus-bytes".into(),
        }
    }
    fn desc(self) -> String {
        match self {
            BMut::Prefix(n) => format!("prefix {n}"),
            BMut::Empty => "empty".into(),
            BMut::AllFF => "all-ff".into(),
            BMut::Surplus => "surplus-bytes".into(),
            BMut::Xor(o, m) => format!("xor{m:02x} @{o}"),
            BMut::SetFF(o) => format!("setff @{o}"),
            BMut::Word(o, w) => format!("{} @{o}", WORDS[w].1),
        }
    }
    fn offset(self) -> Option<usize> {
        match self {
            BMut::Prefix(n) => Some(n),
            BMut::Xor(o, _) | BMut::SetFF(o) | BMut::Word(o, _) => Some(o),
            _ => None,
        }
    }
    fn apply(self, honest: &[u8]) -> Option<Vec<u8>> {
        let mut b = honest.to_vec();
        match self {
            BMut::Prefix(n) => b.truncate(n),
            BMut::Xor(o, m) => b[o] ^= m,
            BMut::SetFF(o) => {
                if b[o] == 0xFF {
                    return None;
                }
                b[o] = 0xFF
            }
            BMut::Word(o, w) => {
                let new = WORDS[w].0.to_le_bytes();
                if b[o..o + 8] == new {
                    return None;
                }
                b[o..o + 8].copy_from_slice(&new)
            }
            BMut::Empty => b.clear(),
            BMut::AllFF => b.iter_mut().for_each(|x| *x = 0xFF),
            BMut::Surplus => b.extend_from_slice(&[0xA5; 8]),
        }
        Some(b)
    }
}

// ---------------------------------------------------------------------------------------------
// Subjects

type Round<Cfg> = plonky2::fri::proof::FriQueryRound<F, <Cfg as GenericConfig<D>>::Hasher, D>;

struct PlonkSubj<Cfg: GenericConfig<D, F = F>> {
    a: Accepted<Cfg>,
    bytes: Vec<u8>,
    cbytes: Vec<u8>,
    layout: Vec<(usize, &'static str)>,
    clayout: Vec<(usize, &'static str)>,
    sh: Shape,
    csh: Shape,
    /// Steering table (only for the subject built with proof_of_work_bits = 0): the honest query
    /// round for EVERY position of the LDE domain, harvested from honest proofs of the same
    /// statement that differ only in their proof-of-work witness.
    table: Option<Vec<Round<Cfg>>>,
}

struct StarkSubj {
    name: String,
    def: starkm::Def,
    cfg: starky::config::StarkConfig,
    json: Value,
    canon: Value,
    sh: Shape,
}

enum Subj {
    P(PlonkSubj<PC>),
    K(PlonkSubj<KC>),
    S(StarkSubj),
}

impl Subj {
    fn name(&self) -> &str {
        match self {
            Subj::P(s) => &s.a.name,
            Subj::K(s) => &s.a.name,
            Subj::S(s) => &s.name,
        }
    }
    fn tree(&self, form: Form) -> &Value {
        match (self, form) {
            (Subj::P(s), Form::Plain) => &s.a.json,
            (Subj::P(s), Form::Comp) => &s.a.cjson,
            (Subj::K(s), Form::Plain) => &s.a.json,
            (Subj::K(s), Form::Comp) => &s.a.cjson,
            (Subj::S(s), _) => &s.json,
        }
    }
}

/// Region labels of the byte encoding, computed from the typed honest proof in the writer's order
/// (util/serialization: caps, openings, FRI caps, query rounds, final polynomial, pow witness,
/// [length,] public inputs). Returns (start offset, label) runs and the total length.
fn layout_of<Cfg: GenericConfig<D, F = F>>(p: &ProofWithPublicInputs<F, Cfg, D>, c: &CompressedProofWithPublicInputs<F, Cfg, D>) -> (Vec<(usize, &'static str)>, usize, Vec<(usize, &'static str)>, usize) {
    let hs = <Cfg::Hasher as Hasher<F>>::HASH_SIZE;
    struct L(Vec<(usize, &'static str)>, usize);
    impl L {
        fn add(&mut self, label: &'static str, n: usize) {
            if n > 0 {
                if self.0.last().map(|x| x.1) != Some(label) {
                    self.0.push((self.1, label));
                }
                self.1 += n;
            }
        }
    }
    let o = &p.proof.openings;
    let n_open = o.constants.len() + o.plonk_sigmas.len() + o.wires.len() + o.plonk_zs.len() + o.plonk_zs_next.len() + o.partial_products.len() + o.quotient_polys.len() + o.lookup_zs.len() + o.lookup_zs_next.len();
    let head = |l: &mut L| {
        l.add("wires_cap", p.proof.wires_cap.len() * hs);
        l.add("plonk_zs_partial_products_cap", p.proof.plonk_zs_partial_products_cap.len() * hs);
        l.add("quotient_polys_cap", p.proof.quotient_polys_cap.len() * hs);
        l.add("openings", n_open * 16);
        for cap in &p.proof.opening_proof.commit_phase_merkle_caps {
            l.add("fri.commit_phase_caps", cap.len() * hs);
        }
    };
    let initial = |l: &mut L, itp: &plonky2::fri::proof::FriInitialTreeProof<F, Cfg::Hasher>| {
        for (v, mp) in &itp.evals_proofs {
            l.add("fri.query.evals", v.len() * 8);
            l.add("fri.query.path_len", 1);
            l.add("fri.query.siblings", mp.siblings.len() * hs);
        }
    };
    let step = |l: &mut L, st: &plonky2::fri::proof::FriQueryStep<F, Cfg::Hasher, D>| {
        l.add("fri.query.evals", st.evals.len() * 16);
        l.add("fri.query.path_len", 1);
        l.add("fri.query.siblings", st.merkle_proof.siblings.len() * hs);
    };
    let mut l = L(Vec::new(), 0);
    head(&mut l);
    for qr in &p.proof.opening_proof.query_round_proofs {
        initial(&mut l, &qr.initial_trees_proof);
        for st in &qr.steps {
            step(&mut l, st);
        }
    }
    l.add("fri.final_poly", p.proof.opening_proof.final_poly.coeffs.len() * 16);
    l.add("fri.pow_witness", 8);
    l.add("public_inputs_len", 8);
    l.add("public_inputs", p.public_inputs.len() * 8);
    let mut cl = L(Vec::new(), 0);
    head(&mut cl);
    let q = &c.proof.opening_proof.query_round_proofs;
    cl.add("fri.indices", q.indices.len() * 4);
    let mut keys: Vec<&usize> = q.initial_trees_proofs.keys().collect();
    keys.sort();
    for k in keys {
        initial(&mut cl, &q.initial_trees_proofs[k]);
    }
    for m in &q.steps {
        let mut keys: Vec<&usize> = m.keys().collect();
        keys.sort();
        for k in keys {
            step(&mut cl, &m[k]);
        }
    }
    cl.add("fri.final_poly", c.proof.opening_proof.final_poly.coeffs.len() * 16);
    cl.add("fri.pow_witness", 8);
    cl.add("public_inputs", c.public_inputs.len() * 8);
    (l.0, l.1, cl.0, cl.1)
}

fn region(layout: &[(usize, &'static str)], off: usize, total: usize) -> &'static str {
    if off >= total {
        return "end";
    }
    match layout.binary_search_by(|x| x.0.cmp(&off)) {
        Ok(i) => layout[i].1,
        Err(0) => "start",
        Err(i) => layout[i - 1].1,
    }
}

/// Labels whose bytes steer the decoder or the transcript directly (lengths, indices, grinding
/// witness): always enumerated, never strided.
fn structural(label: &str) -> bool {
    matches!(label, "fri.query.path_len" | "public_inputs_len" | "fri.indices" | "fri.pow_witness")
}

fn make_plonk<Cfg: GenericConfig<D, F = F>>(ctx: &Ctx, name: &str, prog_i: usize, cfg: &CircuitConfig, seed: u64, steer: bool) -> Option<PlonkSubj<Cfg>> {
    let progs = subject_programs();
    let (prog, ivs) = &progs[prog_i];
    let a = make_accepted::<Cfg>(ctx, name, prog, &ivs[0], cfg, seed)?;
    let comp: CompressedProofWithPublicInputs<F, Cfg, D> = serde_json::from_value(a.cjson.clone()).ok()?;
    let bytes = a.proof.to_bytes();
    let cbytes = comp.to_bytes();
    let (layout, total, clayout, ctotal) = layout_of(&a.proof, &comp);
    if total != bytes.len() || ctotal != cbytes.len() {
        ctx.machinery_error(format!("{name}: byte layout model ({total}, {ctotal}) disagrees with the encodings ({}, {})", bytes.len(), cbytes.len()));
        return None;
    }
    // the honest value passes every entry point and round-trips
    let digest = &a.data.verifier_only.circuit_digest;
    let vd = a.data.verifier_data();
    let ok = guarded(|| {
        let p2 = ProofWithPublicInputs::<F, Cfg, D>::from_bytes(bytes.clone(), &a.data.common).map_err(|e| e.to_string())?;
        let c2 = CompressedProofWithPublicInputs::<F, Cfg, D>::from_bytes(cbytes.clone(), &a.data.common).map_err(|e| e.to_string())?;
        if p2 != a.proof || c2 != comp {
            return Err("from_bytes(to_bytes(x)) != x".to_string());
        }
        vd.verify(p2).map_err(|e| format!("VerifierCircuitData::verify: {e}"))?;
        a.data.verify_compressed(c2.clone()).map_err(|e| format!("verify_compressed: {e}"))?;
        vd.verify_compressed(c2.clone()).map_err(|e| format!("VerifierCircuitData::verify_compressed: {e}"))?;
        let d = c2.decompress(digest, &a.data.common).map_err(|e| format!("decompress: {e}"))?;
        if d != a.proof {
            return Err("decompress(compress(x)) != x".to_string());
        }
        Ok(())
    });
    match ok {
        Ok(Ok(())) => {}
        other => {
            ctx.violation("honest-proof-rejected", format!("{name} honest"), format!("an entry point rejects the honest proof: {other:?}"));
            return None;
        }
    }
    let table = if steer {
        match steering_table::<Cfg>(prog, &ivs[0], cfg, seed, &a) {
            Ok(t) => Some(t),
            Err(e) => {
                ctx.machinery_error(format!("{name}: steering table: {e}"));
                return None;
            }
        }
    } else {
        None
    };
    let sh = shape(&a.json);
    let csh = shape(&a.cjson);
    Some(PlonkSubj { a, bytes, cbytes, layout, clayout, sh, csh, table })
}

/// Honest proofs of the same statement under proof_of_work_bits = 0 for witnesses 0, 1, 2, ...: the
/// commitments and openings coincide (nothing is blinded), only the query positions differ. Collects
/// the honest query round of every position of the LDE domain.
fn steering_table<Cfg: GenericConfig<D, F = F>>(prog: &crate::plonkm::Program, iv: &[u64], cfg: &CircuitConfig, seed: u64, a: &Accepted<Cfg>) -> Result<Vec<Round<Cfg>>, String> {
    use plonky2::verif_hooks::knobs::{self, Knobs};
    if cfg.fri_config.proof_of_work_bits != 0 || cfg.zero_knowledge {
        return Err("steering needs proof_of_work_bits = 0 and no blinding".into());
    }
    let lde = 1usize << (a.data.common.degree_bits() + cfg.fri_config.rate_bits);
    let mut table: Vec<Option<Round<Cfg>>> = vec![None; lde];
    let digest = &a.data.verifier_only.circuit_digest;
    let built = crate::plonkm::build_program::<Cfg>(prog, cfg);
    let mut w = 0u64;
    while table.iter().any(|t| t.is_none()) {
        if w > 400 {
            return Err("LDE positions not covered after 400 witnesses".into());
        }
        knobs::set(Knobs { pow_witness: Some(w), ..Knobs::default() });
        plonky2_field::verif_hooks::set_seed(Some(seed));
        let r = guarded(|| built.data.prove(crate::plonkm::inputs_pw(&built, iv)));
        plonky2_field::verif_hooks::set_seed(None);
        knobs::reset();
        let p = match r {
            Ok(Ok(p)) => p,
            _ => return Err(format!("proving with witness {w} failed")),
        };
        if p.proof.wires_cap != a.proof.proof.wires_cap || p.proof.openings != a.proof.proof.openings || p.proof.opening_proof.commit_phase_merkle_caps != a.proof.proof.opening_proof.commit_phase_merkle_caps || p.proof.opening_proof.final_poly != a.proof.proof.opening_proof.final_poly {
            return Err("proofs under different witnesses do not share their commitments".into());
        }
        let ch = p.get_challenges(p.get_public_inputs_hash(), digest, &a.data.common).map_err(|e| e.to_string())?;
        for (i, x) in ch.fri_challenges.fri_query_indices.iter().enumerate() {
            if table[*x].is_none() {
                table[*x] = Some(p.proof.opening_proof.query_round_proofs[i].clone());
            }
        }
        w += 1;
    }
    Ok(table.into_iter().map(|t| t.unwrap()).collect())
}

/// All numeric leaves reduced mod p (field elements are serialised by representation); an empty
/// `ctl_zs_first` list (no cross-table lookups: carries no data) is identified with its absence.
fn canon(v: &Value) -> Value {
    match v {
        Value::Number(n) => n.as_u64().map(|x| Value::from(x % P)).unwrap_or_else(|| v.clone()),
        Value::Array(a) => Value::Array(a.iter().map(canon).collect()),
        Value::Object(m) => Value::Object(
            m.iter()
                .map(|(k, x)| {
                    let empty_ctl = k == "ctl_zs_first" && x.as_array().map(|a| a.is_empty()).unwrap_or(false);
                    (k.clone(), if empty_ctl { Value::Null } else { canon(x) })
                })
                .collect(),
        ),
        _ => v.clone(),
    }
}

fn lookup_def() -> (starkm::Def, starkm::Rows) {
    use starkm::*;
    let n = 32usize;
    let looking: Vec<u64> = (0..n).map(|r| ((r * r + 3) % n) as u64).collect();
    let table: Vec<u64> = (0..n as u64).collect();
    let mut freq = vec![0u64; n];
    for &x in &looking {
        freq[x as usize] += 1;
    }
    let rows: Rows = (0..n).map(|r| vec![looking[r], table[r], freq[r]]).collect();
    let lk = LookupSpec { columns: vec![ColSpec::single(0)], table: ColSpec::single(1), freq: ColSpec::single(2), filters: vec![None] };
    let def = Def { name: "lookup_c3".into(), cols: 3, pis: 0, degree: 3, terms: vec![], lookups: vec![lk], ctl: false };
    (def, rows)
}

fn make_stark(ctx: &Ctx, which: &str, cap_height: usize) -> Option<StarkSubj> {
    use starkm::*;
    let (def, rows, pis) = match which {
        "lookup" => {
            let (d, r) = lookup_def();
            (d, r, vec![])
        }
        name => {
            let m = member(name);
            let (r, p) = (m.gen)(32, 0);
            (m.def, r, p)
        }
    };
    let c = Cfg { rate_bits: def.min_rate_bits().max(2), cap_height, num_challenges: 2, queries: 6, pow_bits: 4, arity: Arity::Ones(2) };
    let name = format!("stark:{}@{}", def.name, c.tag());
    if !c.admissible(&def, 5) || !c.meets_floor(5) {
        ctx.machinery_error(format!("{name}: configuration not admissible / below the verdict floor"));
        return None;
    }
    let cfg = c.stark_config();
    let proof = match prove_def(&def, &cfg, &rows, &pis, false) {
        ProveOutcome::Proof(p) => *p,
        ProveOutcome::Err(e) | ProveOutcome::Panic(e) => {
            ctx.machinery_error(format!("{name}: honest STARK proving failed: {e}"));
            return None;
        }
    };
    let json = proof_to_json(&proof);
    match proof_from_json(&json).map(|p| verify_def(&def, &cfg, p)) {
        Ok(Verdict::Accepted) => {}
        other => {
            ctx.violation("honest-proof-rejected", format!("{name} honest"), format!("verify_stark_proof rejects the honest proof: {other:?}"));
            return None;
        }
    }
    let sh = shape(&json);
    Some(StarkSubj { name, def, cfg, canon: canon(&json), json, sh })
}

// ---------------------------------------------------------------------------------------------
// Cases

#[derive(Clone, Copy, Debug, PartialEq, Eq, PartialOrd, Ord)]
enum Form {
    Plain,
    Comp,
}

impl Form {
    fn tag(self) -> &'static str {
        match self {
            Form::Plain => "plain",
            Form::Comp => "compressed",
        }
    }
}

/// Transcript-bound FRI components that are mutated and then RE-STEERED: the challenges are
/// recomputed for the mutated proof and the query rounds are replaced by the honest rounds of the
/// new query positions, i.e. what a prover that deviates in exactly this component would send.
const STEERED: [(&str, ArrOp); 7] = [
    ("commit_phase_merkle_caps", ArrOp::DropLast),
    ("commit_phase_merkle_caps", ArrOp::Empty),
    ("commit_phase_merkle_caps", ArrOp::DupLast),
    ("commit_phase_merkle_caps", ArrOp::AppendFirst),
    ("final_poly.coeffs", ArrOp::DropLast),
    ("final_poly.coeffs", ArrOp::DupLast),
    ("final_poly.coeffs", ArrOp::AppendZero),
];

#[derive(Clone, Debug)]
enum Case {
    Tree { subj: usize, form: Form, muts: Vec<TMut> },
    Bytes { subj: usize, form: Form, m: BMut },
    Cross { a: usize, b: usize, form: Form },
    /// `STEERED[which]`, `None` = no mutation (self-check of the steering itself: must be accepted)
    Steered { subj: usize, which: Option<usize> },
    /// `verify_fri_proof` under the honest challenges (component level, recorded only)
    FriComponent { subj: usize, m: TMut },
}

fn single_text(m: &TMut) -> String {
    format!("{} {}", path_str(m.path()), m.kind())
}

fn steered_mut(which: usize) -> TMut {
    let (field, op) = STEERED[which];
    let mut p: Path = vec![PathElem::Key("proof".into()), PathElem::Key("opening_proof".into())];
    for k in field.split('.') {
        p.push(PathElem::Key(k.into()));
    }
    TMut::Arr(p, op)
}

impl Case {
    fn name(&self, subjects: &[Subj]) -> String {
        match self {
            Case::Tree { subj, form, muts } => format!("{} {} tree {}", subjects[*subj].name(), form.tag(), muts.iter().map(single_text).collect::<Vec<_>>().join(" + ")),
            Case::Bytes { subj, form, m } => format!("{} {} bytes {}", subjects[*subj].name(), form.tag(), m.desc()),
            Case::Cross { a, b, form } => format!("{} {} bytes under common data of {}", subjects[*a].name(), form.tag(), subjects[*b].name()),
            Case::Steered { subj, which: None } => format!("{} steered honest", subjects[*subj].name()),
            Case::Steered { subj, which: Some(w) } => format!("{} steered {}", subjects[*subj].name(), single_text(&steered_mut(*w))),
            Case::FriComponent { subj, m } => format!("{} fri-component {}", subjects[*subj].name(), single_text(m)),
        }
    }
    /// `<mutation-kind>:<position-kind>` part of the site key
    fn tail(&self, subjects: &[Subj]) -> String {
        let tree_tail = |v: &Value, muts: &[TMut]| {
            let k = muts.iter().map(|m| m.site_kind(v)).collect::<Vec<_>>().join("+");
            let p = muts.iter().map(|m| m.site_path()).collect::<Vec<_>>().join("+");
            format!("{k}:{p}")
        };
        match self {
            Case::Tree { subj, form, muts } => tree_tail(subjects[*subj].tree(*form), muts),
            Case::Bytes { subj, form, m } => {
                let r = match (&subjects[*subj], m.offset()) {
                    (Subj::P(s), Some(o)) => byte_region(s, *form, o),
                    (Subj::K(s), Some(o)) => byte_region(s, *form, o),
                    _ => "whole",
                };
                format!("{}:{r}", m.kind())
            }
            Case::Cross { .. } => "other-circuit:whole".into(),
            Case::Steered { which: None, .. } => "steered-honest:whole".into(),
            Case::Steered { subj, which: Some(w) } => format!("steered+{}", tree_tail(subjects[*subj].tree(Form::Plain), &[steered_mut(*w)])),
            Case::FriComponent { subj, m } => tree_tail(subjects[*subj].tree(Form::Plain), std::slice::from_ref(m)),
        }
    }
    fn primary_entry(&self, subjects: &[Subj]) -> &'static str {
        match self {
            Case::Tree { subj, form, .. } => match (&subjects[*subj], form) {
                (Subj::S(_), _) => "verify_stark_proof",
                (_, Form::Plain) => "verify",
                (_, Form::Comp) => "verify_compressed",
            },
            Case::Bytes { form: Form::Plain, .. } | Case::Cross { form: Form::Plain, .. } => "from_bytes",
            Case::Bytes { .. } | Case::Cross { .. } => "compressed-from_bytes",
            Case::Steered { .. } => "verify",
            Case::FriComponent { .. } => "verify_fri_proof",
        }
    }
}

fn byte_region<Cfg: GenericConfig<D, F = F>>(s: &PlonkSubj<Cfg>, form: Form, off: usize) -> &'static str {
    match form {
        Form::Plain => region(&s.layout, off, s.bytes.len()),
        Form::Comp => region(&s.clayout, off, s.cbytes.len()),
    }
}

fn is_cap(p: &Path) -> bool {
    match p.last() {
        Some(PathElem::Key(k)) => k.ends_with("_cap"),
        Some(PathElem::Idx(_)) => matches!(p.get(p.len().wrapping_sub(2)), Some(PathElem::Key(k)) if k == "commit_phase_merkle_caps"),
        None => false,
    }
}

fn ends_with_key(p: &Path, key: &str) -> bool {
    matches!(p.last(), Some(PathElem::Key(k)) if k == key)
}

const PATH_LEN_HUGE: usize = 70;

/// Lengths a cap of `len` = 2^h entries is resized to: 0, 1, 3, 2^(h-1), 2^(h+1), len - 1, len + 1.
fn cap_sizes(len: usize) -> Vec<usize> {
    let mut v = vec![0, 1, 3, len / 2, len * 2, len.saturating_sub(1), len + 1];
    v.retain(|&n| n != len);
    v.sort();
    v.dedup();
    v
}

/// Every single mutation of a tree, plus the restricted pairs.
fn tree_cases(subj: usize, form: Form, v: &Value, sh: &Shape, leaf_stride: usize, pair_paths: usize, out: &mut Vec<Case>) {
    let one = |m: TMut| Case::Tree { subj, form, muts: vec![m] };
    let arr_len = |p: &Path| get(v, p).and_then(|a| a.as_array()).map(|a| a.len()).unwrap_or(0);
    for p in &sh.arrays {
        if is_cap(p) {
            // (drop last / dup last / empty of a cap are the lengths len - 1 / len + 1 / 0)
            for n in cap_sizes(arr_len(p)) {
                out.push(one(TMut::Arr(p.clone(), ArrOp::Resize(n))));
            }
        } else {
            for op in LIST_OPS {
                out.push(one(TMut::Arr(p.clone(), op)));
            }
            if ends_with_key(p, "siblings") {
                // a Merkle path length is used as a bit count (shift amounts, two-adicity)
                out.push(one(TMut::Arr(p.clone(), ArrOp::Resize(PATH_LEN_HUGE))));
            }
        }
    }
    for p in &sh.maps {
        for i in 0..MAP_OPS.len() {
            out.push(one(TMut::Map(p.clone(), i)));
        }
    }
    for (li, p) in sh.leaves.iter().enumerate() {
        // out-of-range `indices` entries and the grinding witness are never strided away
        let always = p.iter().any(|e| matches!(e, PathElem::Key(k) if k == "indices" || k == "pow_witness"));
        if li % leaf_stride != 0 && !always {
            continue;
        }
        for i in 0..LEAF_VALUES.len() {
            out.push(one(TMut::Leaf(p.clone(), i)));
        }
    }
    // pairs (cap length, Merkle path length)
    let caps: Vec<&Path> = sh.arrays.iter().filter(|p| is_cap(p)).collect();
    let paths: Vec<&Path> = sh.arrays.iter().filter(|p| ends_with_key(p, "siblings")).take(pair_paths).collect();
    for c in &caps {
        for n in cap_sizes(arr_len(c)) {
            for s in &paths {
                for op in [ArrOp::DropLast, ArrOp::DupLast, ArrOp::Empty] {
                    out.push(Case::Tree { subj, form, muts: vec![TMut::Arr((*s).clone(), op), TMut::Arr((*c).clone(), ArrOp::Resize(n))] });
                }
            }
        }
    }
    // pairs (number of steps of a round, number of query rounds | number of commit-phase caps)
    let steps: Vec<&Path> = sh.arrays.iter().filter(|p| ends_with_key(p, "steps")).collect();
    let outer: Vec<&Path> = sh.arrays.iter().filter(|p| ends_with_key(p, "query_round_proofs") || ends_with_key(p, "commit_phase_merkle_caps")).collect();
    for o in &outer {
        for s in &steps {
            if s == o {
                continue;
            }
            for op_o in LIST_OPS {
                for op_s in LIST_OPS {
                    // inner node first, so that its path is still valid
                    out.push(Case::Tree { subj, form, muts: vec![TMut::Arr((*s).clone(), op_s), TMut::Arr((*o).clone(), op_o)] });
                }
            }
        }
    }
}

fn byte_cases<Cfg: GenericConfig<D, F = F>>(subj: usize, s: &PlonkSubj<Cfg>, stride: usize, word_stride: usize, out: &mut Vec<Case>) {
    for form in [Form::Plain, Form::Comp] {
        let (len, lay) = match form {
            Form::Plain => (s.bytes.len(), &s.layout),
            Form::Comp => (s.cbytes.len(), &s.clayout),
        };
        let mut push = |m: BMut| out.push(Case::Bytes { subj, form, m });
        push(BMut::Empty);
        push(BMut::AllFF);
        push(BMut::Surplus);
        for n in 1..len {
            push(BMut::Prefix(n));
        }
        for o in 0..len {
            if o % stride == 0 || structural(region(lay, o, len)) {
                push(BMut::Xor(o, 0x01));
                push(BMut::Xor(o, 0x80));
                push(BMut::SetFF(o));
            }
        }
        let mut o = 0;
        let mut k = 0;
        while o + 8 <= len {
            if k % word_stride == 0 || structural(region(lay, o, len)) || structural(region(lay, o + 7, len)) {
                for w in 0..WORDS.len() {
                    push(BMut::Word(o, w));
                }
            }
            o += 8;
            k += 1;
        }
    }
}

// ---------------------------------------------------------------------------------------------
// Execution of one case (in a child process).
// Output records: `V <entry> <P|A> <detail>` (panic / accepted-but-not-equal), `C <class>`.

#[derive(Default)]
struct Out {
    lines: Vec<String>,
}

impl Out {
    fn class(&mut self, c: String) {
        self.lines.push(format!("C\t{}", clean(&c)));
    }
    fn panic(&mut self, entry: &str, what: &str, msg: &str) {
        self.lines.push(format!("V\t{entry}\tP\tPANIC in {what}: {}", clean(&truncate(msg, 500))));
    }
    fn accepted(&mut self, entry: &str, what: &str) {
        self.lines.push(format!("V\t{entry}\tA\t{what} returned Ok for a value that is NOT equal as a proof to the accepted one"));
    }
}

fn clean(s: &str) -> String {
    s.replace(['\n', '\t', '\r'], " ")
}

/// Short stable class of an error / panic message (digits removed, first words only).
fn msg_class(msg: &str) -> String {
    let first = msg.lines().next().unwrap_or("");
    let cleaned: String = first.chars().map(|c| if c.is_ascii_alphanumeric() || c == '_' { c } else { ' ' }).collect();
    let words: Vec<&str> = cleaned.split_whitespace().filter(|w| !w.chars().all(|c| c.is_ascii_digit())).take(6).collect();
    words.join("-").to_lowercase()
}

/// The oracle for one verifier outcome. `r`: Err(panic message) | Ok(Err(error)) | Ok(Ok(())).
/// `equal`: the input is equal as a proof to the accepted one (only then may a verifier say Ok).
/// `entry` is the site's entry point, `what` the concrete API (for the detail text).
fn judge(out: &mut Out, entry: &str, what: &str, tail: &str, r: Result<Result<(), anyhow::Error>, String>, equal: bool) {
    match r {
        Err(p) => out.panic(entry, what, &p),
        Ok(Ok(())) => {
            if equal {
                out.class(format!("{entry}:{tail}:accepted(equal-as-a-proof)"));
            } else {
                out.accepted(entry, what);
            }
        }
        Ok(Err(e)) => out.class(format!("{entry}:{tail}:rejected:{}", msg_class(&e.to_string()))),
    }
}

#[derive(Clone, Copy)]
struct Opts {
    /// also through the `VerifierCircuitData` wrappers
    both: bool,
    /// also `compress` (plain values) and what it returns
    compress: bool,
}

/// Equal as a proof: typed equality (field elements compare mod p), and the same number of final
/// polynomial coefficients (`PolynomialCoeffs` equality ignores trailing zeros, the transcript does not).
fn same_proof<Cfg: GenericConfig<D, F = F>>(p: &ProofWithPublicInputs<F, Cfg, D>, honest: &ProofWithPublicInputs<F, Cfg, D>) -> bool {
    p == honest && p.proof.opening_proof.final_poly.coeffs.len() == honest.proof.opening_proof.final_poly.coeffs.len()
}

/// A typed plain proof through verify [, VerifierCircuitData::verify] [, compress -> compressed value].
/// `via` = "" or "<-from_bytes" etc.: how the value was obtained (part of the entry name).
fn exec_plain_value<Cfg: GenericConfig<D, F = F>>(s: &PlonkSubj<Cfg>, p: ProofWithPublicInputs<F, Cfg, D>, via: &str, tail: &str, o: Opts, out: &mut Out) {
    let a = &s.a;
    let equal = same_proof(&p, &a.proof);
    let e = format!("verify{via}");
    judge(out, &e, "CircuitData::verify", tail, guarded(|| a.data.verify(p.clone())), equal);
    if o.both {
        let vd = a.data.verifier_data();
        judge(out, &e, "VerifierCircuitData::verify", tail, guarded(|| vd.verify(p.clone())), equal);
    }
    if o.compress {
        let e = format!("compress{via}");
        match guarded(|| p.clone().compress(&a.data.verifier_only.circuit_digest, &a.data.common)) {
            Err(pm) => out.panic(&e, "ProofWithPublicInputs::compress", &pm),
            Ok(Err(err)) => out.class(format!("{e}:{tail}:err:{}", msg_class(&err.to_string()))),
            Ok(Ok(c)) => {
                out.class(format!("{e}:{tail}:ok"));
                // compression is lossy on invalid input (inferable elements are dropped): what it
                // returned is judged as a compressed value of its own
                exec_comp_value(s, c, &format!("<-compress{via}"), tail, Opts { both: false, compress: false }, out);
            }
        }
    }
}

/// A typed compressed proof through verify_compressed [, wrapper], decompress -> verify.
fn exec_comp_value<Cfg: GenericConfig<D, F = F>>(s: &PlonkSubj<Cfg>, c: CompressedProofWithPublicInputs<F, Cfg, D>, via: &str, tail: &str, o: Opts, out: &mut Out) {
    let a = &s.a;
    let dec = guarded(|| c.clone().decompress(&a.data.verifier_only.circuit_digest, &a.data.common));
    let equal = matches!(&dec, Ok(Ok(p)) if same_proof(p, &a.proof));
    let e = format!("verify_compressed{via}");
    judge(out, &e, "CircuitData::verify_compressed", tail, guarded(|| a.data.verify_compressed(c.clone())), equal);
    if o.both {
        let vd = a.data.verifier_data();
        judge(out, &e, "VerifierCircuitData::verify_compressed", tail, guarded(|| vd.verify_compressed(c.clone())), equal);
    }
    let e = format!("decompress{via}");
    match dec {
        Err(pm) => out.panic(&e, "CompressedProofWithPublicInputs::decompress", &pm),
        Ok(Err(err)) => out.class(format!("{e}:{tail}:err:{}", msg_class(&err.to_string()))),
        Ok(Ok(p)) => {
            out.class(format!("{e}:{tail}:ok{}", if equal { "(the accepted proof)" } else { "" }));
            if !equal {
                judge(out, &format!("verify<-decompress{via}"), "CircuitData::verify", tail, guarded(|| a.data.verify(p.clone())), false);
            }
        }
    }
}

/// Decode `b` with the common data of `s`, whose verifier then judges what was decoded.
fn exec_bytes<Cfg: GenericConfig<D, F = F>>(s: &PlonkSubj<Cfg>, form: Form, b: Vec<u8>, tail: &str, out: &mut Out) {
    let common = &s.a.data.common;
    let o = Opts { both: false, compress: false };
    match form {
        Form::Plain => match guarded(|| ProofWithPublicInputs::<F, Cfg, D>::from_bytes(b.clone(), common)) {
            Err(pm) => out.panic("from_bytes", "ProofWithPublicInputs::from_bytes", &pm),
            Ok(Err(_)) => out.class(format!("from_bytes:{tail}:err")),
            Ok(Ok(p)) => {
                out.class(format!("from_bytes:{tail}:ok"));
                exec_plain_value(s, p, "<-from_bytes", tail, o, out);
            }
        },
        Form::Comp => match guarded(|| CompressedProofWithPublicInputs::<F, Cfg, D>::from_bytes(b.clone(), common)) {
            Err(pm) => out.panic("compressed-from_bytes", "CompressedProofWithPublicInputs::from_bytes", &pm),
            Ok(Err(_)) => out.class(format!("compressed-from_bytes:{tail}:err")),
            Ok(Ok(c)) => {
                out.class(format!("compressed-from_bytes:{tail}:ok"));
                exec_comp_value(s, c, "<-from_bytes", tail, o, out);
            }
        },
    }
}

fn apply_all(v: &Value, muts: &[TMut]) -> Option<Value> {
    let mut t = v.clone();
    for m in muts {
        t = m.apply(&t)?;
    }
    Some(t)
}

/// Replaces the query rounds of `p` by the honest rounds of the positions its own transcript asks for.
fn resteer<Cfg: GenericConfig<D, F = F>>(s: &PlonkSubj<Cfg>, mut p: ProofWithPublicInputs<F, Cfg, D>) -> Result<ProofWithPublicInputs<F, Cfg, D>, String> {
    let table = s.table.as_ref().ok_or("no steering table")?;
    let ch = p.get_challenges(p.get_public_inputs_hash(), &s.a.data.verifier_only.circuit_digest, &s.a.data.common).map_err(|e| e.to_string())?;
    p.proof.opening_proof.query_round_proofs = ch.fri_challenges.fri_query_indices.iter().map(|&x| table[x].clone()).collect();
    Ok(p)
}

fn exec_plonk<Cfg: GenericConfig<D, F = F>>(s: &PlonkSubj<Cfg>, case: &Case, tail: &str, out: &mut Out) {
    match case {
        Case::Tree { form: Form::Plain, muts, .. } => {
            let Some(t) = apply_all(&s.a.json, muts) else { return out.class("vacuous".into()) };
            let structural = !matches!(muts[0], TMut::Leaf(..));
            match serde_json::from_value::<ProofWithPublicInputs<F, Cfg, D>>(t) {
                Err(_) => out.class(format!("verify:{tail}:not-constructible")),
                Ok(p) => exec_plain_value(s, p, "", tail, Opts { both: structural && muts.len() == 1, compress: structural }, out),
            }
        }
        Case::Tree { form: Form::Comp, muts, .. } => {
            let Some(t) = apply_all(&s.a.cjson, muts) else { return out.class("vacuous".into()) };
            let structural = !matches!(muts[0], TMut::Leaf(..));
            match serde_json::from_value::<CompressedProofWithPublicInputs<F, Cfg, D>>(t) {
                Err(_) => out.class(format!("verify_compressed:{tail}:not-constructible")),
                Ok(c) => exec_comp_value(s, c, "", tail, Opts { both: structural && muts.len() == 1, compress: false }, out),
            }
        }
        Case::Bytes { form, m, .. } => {
            let honest = if *form == Form::Plain { &s.bytes } else { &s.cbytes };
            let Some(b) = m.apply(honest) else { return out.class("vacuous".into()) };
            exec_bytes(s, *form, b, tail, out);
        }
        Case::Steered { which, .. } => {
            let t = match which {
                None => Some(s.a.json.clone()),
                Some(w) => steered_mut(*w).apply(&s.a.json),
            };
            let Some(t) = t else { return out.class("vacuous".into()) };
            let p = match serde_json::from_value::<ProofWithPublicInputs<F, Cfg, D>>(t).map_err(|e| e.to_string()).and_then(|p| resteer(s, p)) {
                Ok(p) => p,
                Err(e) => return out.lines.push(format!("X\tsteering failed: {}", clean(&e))),
            };
            if which.is_none() {
                // the steering machinery itself: honest rounds at the honest positions = the honest proof
                if p != s.a.proof {
                    return out.lines.push("X\tre-steering the honest proof does not reproduce it".into());
                }
            }
            exec_plain_value(s, p, "", tail, Opts { both: false, compress: true }, out);
        }
        Case::FriComponent { m, .. } => {
            let Some(t) = m.apply(&s.a.json) else { return out.class("vacuous".into()) };
            out.class(format!("verify_fri_proof(component,recorded):{tail}:{}", verdict_fixed(&s.a, t)));
        }
        Case::Cross { .. } => out.class("vacuous".into()),
    }
}

fn exec_cross<Cfg: GenericConfig<D, F = F>>(a: &PlonkSubj<Cfg>, b: &PlonkSubj<Cfg>, form: Form, tail: &str, out: &mut Out) {
    // circuit A's bytes, decoded with and verified under circuit B
    let bytes = if form == Form::Plain { a.bytes.clone() } else { a.cbytes.clone() };
    exec_bytes(b, form, bytes, tail, out);
}

fn exec_stark(s: &StarkSubj, muts: &[TMut], tail: &str, out: &mut Out) {
    let Some(t) = apply_all(&s.json, muts) else { return out.class("vacuous".into()) };
    match starkm::proof_from_json(&t) {
        Err(_) => out.class(format!("verify_stark_proof:{tail}:not-constructible")),
        Ok(p) => {
            let equal = canon(&starkm::proof_to_json(&p)) == s.canon;
            let r = match starkm::verify_def(&s.def, &s.cfg, p) {
                starkm::Verdict::Accepted => Ok(Ok(())),
                starkm::Verdict::Rejected(e) => Ok(Err(anyhow::Error::msg(e))),
                starkm::Verdict::Panicked(pm) => Err(pm),
            };
            judge(out, "verify_stark_proof", "starky::verifier::verify_stark_proof", tail, r, equal);
        }
    }
}

fn exec_case(subjects: &[Subj], case: &Case) -> Out {
    let mut out = Out::default();
    let tail = case.tail(subjects);
    match case {
        Case::Cross { a, b, form } => match (&subjects[*a], &subjects[*b]) {
            (Subj::P(x), Subj::P(y)) => exec_cross(x, y, *form, &tail, &mut out),
            (Subj::K(x), Subj::K(y)) => exec_cross(x, y, *form, &tail, &mut out),
            _ => out.class("vacuous".into()),
        },
        Case::Tree { subj, muts, .. } if matches!(subjects[*subj], Subj::S(_)) => {
            if let Subj::S(s) = &subjects[*subj] {
                exec_stark(s, muts, &tail, &mut out)
            }
        }
        Case::Tree { subj, .. } | Case::Bytes { subj, .. } | Case::FriComponent { subj, .. } | Case::Steered { subj, .. } => match &subjects[*subj] {
            Subj::P(s) => exec_plonk(s, case, &tail, &mut out),
            Subj::K(s) => exec_plonk(s, case, &tail, &mut out),
            Subj::S(_) => out.class("vacuous".into()),
        },
    }
    out
}

// ---------------------------------------------------------------------------------------------
// Child-process runner

const SHARDS: usize = 16;
const AS_LIMIT: u64 = 4 << 30;
const HANG_SECS: u64 = 120;

struct Child {
    pid: i32,
    fd: i32,
    buf: Vec<u8>,
    /// position (into `order`) of the case this child is executing / will report next
    next_pos: usize,
    step: usize,
    last_activity: Instant,
    killed_for_hang: bool,
}

fn write_all(fd: i32, data: &[u8]) {
    let mut off = 0;
    while off < data.len() {
        let n = unsafe { libc::write(fd, data[off..].as_ptr() as *const libc::c_void, data.len() - off) };
        if n <= 0 {
            unsafe { libc::_exit(3) };
        }
        off += n as usize;
    }
}

/// Forks a child that executes `order[start_pos], order[start_pos + step], ...` and reports each.
fn spawn(subjects: &[Subj], cases: &[Case], order: &[usize], start_pos: usize, step: usize) -> Result<Child, String> {
    let mut fds = [0i32; 2];
    if unsafe { libc::pipe(fds.as_mut_ptr()) } != 0 {
        return Err("pipe() failed".into());
    }
    let pid = unsafe { libc::fork() };
    if pid < 0 {
        return Err("fork() failed".into());
    }
    if pid == 0 {
        unsafe {
            libc::close(fds[0]);
            let lim = libc::rlimit { rlim_cur: AS_LIMIT, rlim_max: AS_LIMIT };
            libc::setrlimit(libc::RLIMIT_AS, &lim);
            let core = libc::rlimit { rlim_cur: 0, rlim_max: 0 };
            libc::setrlimit(libc::RLIMIT_CORE, &core);
        }
        let mut pos = start_pos;
        let mut msg = String::new();
        while pos < order.len() {
            let idx = order[pos];
            let run = || {
                let r = std::panic::catch_unwind(std::panic::AssertUnwindSafe(|| exec_case(subjects, &cases[idx])));
                match r {
                    Ok(o) => o.lines,
                    Err(p) => vec![format!("X\tharness code panicked outside an entry point: {}", clean(&panic_message(&p)))],
                }
            };
            let mut lines = run();
            if lines.iter().any(|l| l.starts_with('V')) {
                // a failing case is executed a second time; a differing observation is a machinery error
                let again = run();
                if again != lines {
                    lines = vec![format!("X\tnon-deterministic outcome: first {:?}, then {:?}", lines, again)];
                }
            }
            msg.clear();
            for l in &lines {
                msg.push_str(&format!("{pos}\t{l}\n"));
            }
            msg.push_str(&format!("{pos}\tD\n"));
            write_all(fds[1], msg.as_bytes());
            pos += step;
        }
        unsafe { libc::_exit(0) };
    }
    unsafe { libc::close(fds[1]) };
    Ok(Child { pid, fd: fds[0], buf: Vec::new(), next_pos: start_pos, step, last_activity: Instant::now(), killed_for_hang: false })
}

struct Collected {
    /// per position in `order`: the records of the case (without the position prefix)
    records: BTreeMap<usize, Vec<String>>,
    /// positions whose child died (abort / signal / hang) while executing them, with the reason
    died: BTreeMap<usize, String>,
}

fn run_children(ctx: &Ctx, subjects: &[Subj], cases: &[Case], order: &[usize], shards: usize) -> Collected {
    let mut col = Collected { records: BTreeMap::new(), died: BTreeMap::new() };
    let mut children: Vec<Child> = Vec::new();
    for k in 0..shards.min(order.len()) {
        match spawn(subjects, cases, order, k, shards) {
            Ok(c) => children.push(c),
            Err(e) => ctx.machinery_error(e),
        }
    }
    let mut tmp = vec![0u8; 1 << 16];
    while !children.is_empty() {
        let mut pfds: Vec<libc::pollfd> = children.iter().map(|c| libc::pollfd { fd: c.fd, events: libc::POLLIN, revents: 0 }).collect();
        let rc = unsafe { libc::poll(pfds.as_mut_ptr(), pfds.len() as libc::nfds_t, 1000) };
        if rc < 0 {
            continue; // EINTR
        }
        let mut finished: Vec<usize> = Vec::new();
        for (ci, pfd) in pfds.iter().enumerate() {
            let c = &mut children[ci];
            if pfd.revents & (libc::POLLIN | libc::POLLHUP | libc::POLLERR) != 0 {
                let n = unsafe { libc::read(c.fd, tmp.as_mut_ptr() as *mut libc::c_void, tmp.len()) };
                if n > 0 {
                    c.last_activity = Instant::now();
                    c.buf.extend_from_slice(&tmp[..n as usize]);
                    let mut start = 0;
                    while let Some(rel) = c.buf[start..].iter().position(|&b| b == b'\n') {
                        let line = String::from_utf8_lossy(&c.buf[start..start + rel]).to_string();
                        start += rel + 1;
                        let mut it = line.splitn(2, '\t');
                        let pos: usize = it.next().and_then(|x| x.parse().ok()).unwrap_or(usize::MAX);
                        let rest = it.next().unwrap_or("").to_string();
                        if pos != c.next_pos {
                            ctx.machinery_error(format!("child protocol: expected position {}, got line {line:?}", c.next_pos));
                            continue;
                        }
                        if rest == "D" {
                            col.records.entry(pos).or_default();
                            c.next_pos += c.step;
                        } else {
                            col.records.entry(pos).or_default().push(rest);
                        }
                    }
                    c.buf.drain(..start);
                } else if n == 0 {
                    finished.push(ci);
                }
            } else if c.last_activity.elapsed().as_secs() > HANG_SECS && !c.killed_for_hang {
                c.killed_for_hang = true;
                unsafe { libc::kill(c.pid, libc::SIGKILL) };
            }
        }
        // reap finished children (highest index first, so that removal keeps indices valid)
        for &ci in finished.iter().rev() {
            let c = children.remove(ci);
            let mut status = 0i32;
            unsafe {
                libc::waitpid(c.pid, &mut status, 0);
                libc::close(c.fd);
            }
            let clean_exit = libc::WIFEXITED(status) && libc::WEXITSTATUS(status) == 0;
            if clean_exit && c.next_pos >= order.len() {
                continue;
            }
            if c.next_pos >= order.len() {
                ctx.machinery_error(format!("child exited abnormally (status {status:#x}) after finishing its shard"));
                continue;
            }
            let reason = if c.killed_for_hang {
                format!("no answer within {HANG_SECS} s (killed)")
            } else if libc::WIFSIGNALED(status) {
                let sig = libc::WTERMSIG(status);
                let what = if sig == libc::SIGABRT {
                    "SIGABRT: abort, e.g. a memory allocation failure under the address-space limit"
                } else if sig == libc::SIGSEGV {
                    "SIGSEGV: e.g. stack overflow"
                } else {
                    "abnormal termination"
                };
                format!("process killed by signal {sig} ({what})")
            } else {
                format!("process exited with status {}", libc::WEXITSTATUS(status))
            };
            col.records.remove(&c.next_pos);
            col.died.insert(c.next_pos, reason);
            let resume = c.next_pos + c.step;
            if resume < order.len() {
                match spawn(subjects, cases, order, resume, c.step) {
                    Ok(n) => children.push(n),
                    Err(e) => ctx.machinery_error(e),
                }
            }
        }
    }
    col
}

// ---------------------------------------------------------------------------------------------

fn stark_option_flips(s: &StarkSubj) -> Vec<TMut> {
    let k = |names: &[&str]| -> Path { names.iter().map(|n| PathElem::Key(n.to_string())).collect() };
    let cap_donor = k(&["proof", "trace_cap"]);
    let vec_donor = k(&["proof", "openings", "local_values"]);
    let base_donor = k(&["public_inputs"]);
    let mut v = Vec::new();
    for (p, d) in [
        (k(&["proof", "auxiliary_polys_cap"]), &cap_donor),
        (k(&["proof", "quotient_polys_cap"]), &cap_donor),
        (k(&["proof", "openings", "auxiliary_polys"]), &vec_donor),
        (k(&["proof", "openings", "auxiliary_polys_next"]), &vec_donor),
        (k(&["proof", "openings", "quotient_polys"]), &vec_donor),
        (k(&["proof", "openings", "ctl_zs_first"]), &base_donor),
    ] {
        if get(&s.json, &p).is_some() {
            v.push(TMut::Opt(p, d.clone()));
        }
    }
    v
}

/// Digits erased: the signature used to recognise "the same failure" in pair attribution.
fn signature(detail: &str) -> String {
    let mut s = String::new();
    let mut last_digit = false;
    for c in detail.chars() {
        if c.is_ascii_digit() {
            if !last_digit {
                s.push('N');
            }
            last_digit = true;
        } else {
            s.push(c);
            last_digit = false;
        }
    }
    s
}

struct Viol {
    idx: usize,
    entry: String,
    accepted: bool,
    detail: String,
}

pub fn run(ctx: &Ctx) -> i32 {
    let thorough = ctx.tier.thorough();
    let timing = std::env::var("C18_TIMING").is_ok();
    let t0 = Instant::now();
    // ---- subjects (built on the worker pool; all threads are gone before the first fork)
    let base = floor_config(8);
    use plonky2::fri::reduction_strategies::FriReductionStrategy as Strat;
    let mut plan: Vec<(&str, String, usize, CircuitConfig, bool)> = Vec::new(); // (hash config, name, program, config, steering)
    {
        let mut a2 = base.clone();
        a2.fri_config.reduction_strategy = Strat::ConstantArityBits(2, 1);
        let mut zk = base.clone();
        zk.zero_knowledge = true;
        let mut steer = base.clone();
        steer.fri_config.proof_of_work_bits = 0;
        fix_security(&mut steer);
        plan.push(("P", "arith_range@q8a1".into(), 0, base.clone(), false));
        plan.push(("P", "lookups@q8a2".into(), 2, a2.clone(), false));
        plan.push(("P", "arith_range@zk".into(), 0, zk, false));
        plan.push(("K", "arith_range@keccak".into(), 0, base.clone(), false));
        plan.push(("P", "arith_range@steer".into(), 0, steer, true));
        if thorough {
            let mut cap0 = base.clone();
            cap0.fri_config.cap_height = 0;
            let mut nored = base.clone();
            nored.fri_config.reduction_strategy = Strat::ConstantArityBits(4, 5);
            let mut chal3 = a2.clone();
            chal3.num_challenges = 3;
            fix_security(&mut chal3);
            plan.push(("P", "random_access_exp@cap0".into(), 3, cap0, false));
            plan.push(("P", "poseidon_merkle@noreduction".into(), 1, nored, false));
            plan.push(("K", "lookups@keccak_chal3".into(), 2, chal3, false));
        }
    }
    let stark_plan: Vec<(&str, usize)> = if thorough { vec![("fib_c2_p3", 2), ("lookup", 2), ("free_c1", 2), ("wide8_p3", 0)] } else { vec![("fib_c2_p3", 2), ("lookup", 2), ("free_c1", 2)] };
    let n_plonk = plan.len();
    let built: Vec<Option<Subj>> = par_map(n_plonk + stark_plan.len(), |i| {
        if i < n_plonk {
            let (h, name, prog, cfg, steer) = &plan[i];
            if *h == "P" {
                make_plonk::<PC>(ctx, name, *prog, cfg, ctx.seed + 1 + i as u64, *steer).map(Subj::P)
            } else {
                make_plonk::<KC>(ctx, name, *prog, cfg, ctx.seed + 1 + i as u64, *steer).map(Subj::K)
            }
        } else {
            let (which, cap) = stark_plan[i - n_plonk];
            make_stark(ctx, which, cap).map(Subj::S)
        }
    });
    let subjects: Vec<Subj> = built.into_iter().flatten().collect();
    if subjects.len() != n_plonk + stark_plan.len() {
        ctx.machinery_error("not every subject could be built");
    }
    if timing {
        eprintln!("subjects built after {:?}", t0.elapsed());
    }

    // ---- case list
    let leaf_stride = if thorough { 1 } else { 12 };
    let byte_stride = if thorough { 1 } else { 32 };
    let word_stride = if thorough { 1 } else { 16 };
    let pair_paths = if thorough { usize::MAX } else { 14 };
    let mut cases: Vec<Case> = Vec::new();
    for (si, s) in subjects.iter().enumerate() {
        let steering_subject = matches!(s, Subj::P(p) if p.table.is_some());
        match s {
            Subj::P(_) if steering_subject => {
                cases.push(Case::Steered { subj: si, which: None });
                for w in 0..STEERED.len() {
                    cases.push(Case::Steered { subj: si, which: Some(w) });
                }
            }
            Subj::P(p) => {
                tree_cases(si, Form::Plain, &p.a.json, &p.sh, leaf_stride, pair_paths, &mut cases);
                tree_cases(si, Form::Comp, &p.a.cjson, &p.csh, leaf_stride, pair_paths, &mut cases);
                byte_cases(si, p, byte_stride, word_stride, &mut cases);
            }
            Subj::K(p) => {
                tree_cases(si, Form::Plain, &p.a.json, &p.sh, leaf_stride, pair_paths, &mut cases);
                tree_cases(si, Form::Comp, &p.a.cjson, &p.csh, leaf_stride, pair_paths, &mut cases);
                byte_cases(si, p, byte_stride, word_stride, &mut cases);
            }
            Subj::S(st) => {
                tree_cases(si, Form::Plain, &st.json, &st.sh, leaf_stride, pair_paths, &mut cases);
                for m in stark_option_flips(st) {
                    cases.push(Case::Tree { subj: si, form: Form::Plain, muts: vec![m] });
                }
            }
        }
        // component level: list mutations of the FRI part under fixed challenges (first subject of each hash family)
        if !steering_subject {
            let fri_arrays = |sh: &Shape| -> Vec<Path> { sh.arrays.iter().filter(|p| (path_str(p).starts_with(".proof.opening_proof") && !path_kind(p).ends_with("[]")) || is_cap(p)).cloned().collect() };
            let arrs = match s {
                Subj::P(p) => fri_arrays(&p.sh),
                Subj::K(p) => fri_arrays(&p.sh),
                Subj::S(_) => vec![],
            };
            for p in arrs {
                for op in LIST_OPS {
                    cases.push(Case::FriComponent { subj: si, m: TMut::Arr(p.clone(), op) });
                }
            }
        }
    }
    for (ai, a) in subjects.iter().enumerate() {
        for (bi, b) in subjects.iter().enumerate() {
            let same_family = matches!((a, b), (Subj::P(_), Subj::P(_)) | (Subj::K(_), Subj::K(_)));
            if ai != bi && same_family {
                cases.push(Case::Cross { a: ai, b: bi, form: Form::Plain });
                cases.push(Case::Cross { a: ai, b: bi, form: Form::Comp });
            }
        }
    }
    let mut order: Vec<usize> = if ctx.replaying() { (0..cases.len()).filter(|&i| ctx.want(&cases[i].name(&subjects))).collect() } else { (0..cases.len()).collect() };
    // Replaying a pair: its two components are executed as well (unreported), so that the pair is
    // attributed to the same site as in the full run.
    let mut auxiliary: Vec<usize> = Vec::new();
    if ctx.replaying() {
        for &i in &order {
            if let Case::Tree { subj, form, muts } = &cases[i] {
                if muts.len() == 2 {
                    for m in muts {
                        let want = Case::Tree { subj: *subj, form: *form, muts: vec![m.clone()] }.name(&subjects);
                        if let Some(j) = (0..cases.len()).find(|&j| matches!(&cases[j], Case::Tree { muts, .. } if muts.len() == 1) && cases[j].name(&subjects) == want) {
                            auxiliary.push(j);
                        }
                    }
                }
            }
        }
        auxiliary.retain(|j| !order.contains(j));
        auxiliary.sort();
        auxiliary.dedup();
        order.extend(auxiliary.iter().copied());
    }
    let mut tally: BTreeMap<&str, u64> = BTreeMap::new();
    for c in order.iter().map(|&i| &cases[i]) {
        let key = match c {
            Case::Tree { muts, .. } if muts.len() == 2 => "cases_tree_pairs",
            Case::Tree { muts, .. } => match muts[0] {
                TMut::Leaf(..) => "cases_tree_leaf",
                TMut::Map(..) => "cases_tree_map",
                TMut::Opt(..) => "cases_tree_option",
                TMut::Arr(..) => "cases_tree_list",
            },
            Case::Bytes { m: BMut::Prefix(_), .. } => "cases_bytes_prefix",
            Case::Bytes { m: BMut::Word(..), .. } => "cases_bytes_word",
            Case::Bytes { .. } => "cases_bytes_flip",
            Case::Cross { .. } => "cases_other_circuit",
            Case::Steered { .. } => "cases_steered",
            Case::FriComponent { .. } => "cases_fri_component",
        };
        *tally.entry(key).or_insert(0) += 1;
    }
    for (k, n) in &tally {
        ctx.count(k, *n);
    }
    for s in &subjects {
        let (b, c) = match s {
            Subj::P(p) => (p.bytes.len(), p.cbytes.len()),
            Subj::K(p) => (p.bytes.len(), p.cbytes.len()),
            Subj::S(_) => (0, 0),
        };
        ctx.count("encoded_bytes_plain", b as u64);
        ctx.count("encoded_bytes_compressed", c as u64);
    }
    if timing {
        eprintln!("{} cases listed after {:?}", order.len(), t0.elapsed());
    }

    // ---- execution in child processes
    let col = run_children(ctx, &subjects, &cases, &order, SHARDS);
    if timing {
        eprintln!("children done after {:?}", t0.elapsed());
    }
    let mut sample_seen: BTreeMap<String, ()> = BTreeMap::new();
    let mut viols: Vec<Viol> = Vec::new();
    for (pos, recs) in &col.records {
        let idx = order[*pos];
        ctx.tick(1);
        for r in recs {
            let f: Vec<&str> = r.splitn(4, '\t').collect();
            match f.as_slice() {
                ["C", class] => {
                    // observation classes: entry point x mutation kind x position kind x outcome
                    ctx.class(class.to_string());
                    let head = class.split(':').next().unwrap_or("").to_string();
                    if sample_seen.len() < 9 && !class.ends_with("not-constructible") && sample_seen.insert(head, ()).is_none() {
                        ctx.sample(json!({"case": cases[idx].name(&subjects), "outcome": class}));
                    }
                }
                ["V", entry, kind, detail] => viols.push(Viol { idx, entry: entry.to_string(), accepted: *kind == "A", detail: detail.to_string() }),
                ["X", msg] => ctx.machinery_error(format!("case {}: {msg}", cases[idx].name(&subjects))),
                _ => ctx.machinery_error(format!("unparsable child record {r:?}")),
            }
        }
    }
    // Site attribution. A single mutation fails under its own key. A PAIR whose failure (same entry
    // point, same signature) is already produced by one of its two components alone is the same
    // defect reached with an irrelevant second edit: it is filed under that component's key.
    let mut single_fail: BTreeMap<(usize, Form, String, String), String> = BTreeMap::new(); // (subject, form, mutation, entry) -> signature
    for v in &viols {
        if let Case::Tree { subj, form, muts } = &cases[v.idx] {
            if muts.len() == 1 {
                single_fail.entry((*subj, *form, single_text(&muts[0]), v.entry.clone())).or_insert_with(|| signature(&v.detail));
            }
        }
    }
    let mut site_tally: BTreeMap<String, u64> = BTreeMap::new();
    let site_of = |case: &Case, entry: &str, accepted: bool| format!("{entry}:{}{}", case.tail(&subjects), if accepted { ":ACCEPTED" } else { "" });
    for v in &viols {
        if auxiliary.contains(&v.idx) {
            continue;
        }
        let case = &cases[v.idx];
        let mut site = site_of(case, &v.entry, v.accepted);
        let mut detail = v.detail.clone();
        if let Case::Tree { subj, form, muts } = case {
            if muts.len() == 2 {
                for m in muts {
                    if single_fail.get(&(*subj, *form, single_text(m), v.entry.clone())) == Some(&signature(&v.detail)) {
                        site = site_of(&Case::Tree { subj: *subj, form: *form, muts: vec![m.clone()] }, &v.entry, v.accepted);
                        detail = format!("{detail} [pair; the component `{}` alone fails in the same way]", single_text(m));
                        ctx.count("pairs_subsumed_by_a_single_mutation", 1);
                        break;
                    }
                }
            }
        }
        *site_tally.entry(site.clone()).or_insert(0) += 1;
        ctx.violation(site, case.name(&subjects), detail);
    }
    // a case that killed its process: confirm in a fresh child, then report
    for (pos, reason) in &col.died {
        let idx = order[*pos];
        ctx.tick(1);
        let again = run_children(ctx, &subjects, &cases, &[idx], 1);
        if again.died.is_empty() {
            ctx.machinery_error(format!("case {} killed its process ({reason}) but completed in a second run", cases[idx].name(&subjects)));
        } else {
            let site = format!("{}:{}:ABORT", cases[idx].primary_entry(&subjects), cases[idx].tail(&subjects));
            *site_tally.entry(site.clone()).or_insert(0) += 1;
            ctx.violation(site, cases[idx].name(&subjects), format!("ABORT: the process executing this case died: {reason}"));
        }
    }
    if order.len() != col.records.len() + col.died.len() {
        ctx.machinery_error(format!("{} cases planned, {} answered", order.len(), col.records.len() + col.died.len()));
    }
    ctx.sample(json!({"subjects": subjects.iter().map(|s| s.name().to_string()).collect::<Vec<_>>() }));

    ctx.finish(Finish {
        level: "fault_enumeration",
        rule: "for each accepted proof (PLONK: plain, lookups, zero-knowledge/salted, Keccak; STARK: plain, lookups, no quotient): every list node x {empty, drop last, dup last, append first}, every Merkle cap resized to {0,1,3,2^(h-1),2^(h+1),len-1,len+1}, every compressed-proof map x {remove, shift, add key}, every optional STARK part flipped, every numeric leaf x {0,p-1,p,2^64-1}, pairs (cap length, path length) and (query rounds | commit caps, steps), transcript-bound FRI lists (commit-phase caps, final polynomial) mutated and re-steered to the new query positions; for the byte encodings (plain + compressed): every prefix, every byte x {xor 01, xor 80, set FF}, every 8-byte word x {0,1,2^32,2^63,2^64-1}, empty, all-FF, surplus bytes, every other circuit's common data -> each through verify / VerifierCircuitData::verify / verify_compressed / decompress / compress / from_bytes / verify_stark_proof in a child process under RLIMIT_AS: no panic, abort or hang; Ok only for a value equal as a proof to the accepted one. distinct_nontrivial = distinct (entry point, mutation kind, position kind, outcome) classes",
        exhaustive: true,
        assumptions: vec![
            format!("quick tier strides: every {leaf_stride}th leaf, every {byte_stride}th byte for flips, every {word_stride}th word (length / index / path-length / pow-witness bytes and `indices` leaves are never strided); prefixes, structural mutations and pairs over the first {pair_paths} Merkle paths are complete"),
            "single mutations, plus the listed restricted pairs (deviation bound 1; 2 for shape pairs)".into(),
            "acceptance of a value that differs as a proof is judged under the verdict floor q*log2(lde) >= 40".into(),
            "equal as a proof: typed equality (identifies representations mod p); for compressed values equality of the decompressed proof (identifies the redundant `indices` list and entries decompression ignores); for STARK proofs an empty `ctl_zs_first` list is identified with its absence".into(),
            "release profile (debug assertions off): panics that exist only as debug_assert! are not observed".into(),
            format!("address-space limit per child {} GiB: an allocation request above it is an abort; smaller over-allocations are not observed", AS_LIMIT >> 30),
            "verify_fri_proof (component API) outcomes are recorded, not judged".into(),
        ],
        extra: json!({"variant": crate::variant_name(), "died_cases": col.died.len(), "violation_sites": site_tally}),
    })
}
