//! Shared STARK machinery for C09 / C10 / C11: a parametric family of model STARKs defined through
//! the public `starky::stark::Stark` trait, an independent trace checker, trace generators, config
//! helpers, prove / verify wrappers and a serde_json tamper walker.
//!
//! A model STARK is a plain-data *definition* ([`Def`]): a table of constraint terms
//! `sum_j prod_k atom_jk - target = 0`, each with a [`Kind`] that says on which rows it has to hold.
//! Two things interpret the table:
//!
//! * [`interpret`] — ONE generic interpreter over an abstract algebra ([`Alg`]); `ModelStark`'s
//!   `eval_packed_generic` and `eval_ext_circuit` are both this function, instantiated with the
//!   packed-field algebra (emitting into `ConstraintConsumer`) and the circuit algebra (emitting into
//!   `RecursiveConstraintConsumer`). This is the *subject* side: it only says "term t is a
//!   first-row / last-row / transition / every-row constraint" and leaves the row filtering to the
//!   library.
//! * [`check_trace`] — the *oracle*: evaluates the same table row by row on plain `u64` mod-p
//!   arithmetic (core.rs `mulm/addm/subm`) with explicit `if row == 0`, `if row == n-1`,
//!   `if row < n-1` filters. It shares no code with `interpret` or with the library.
//!
//! Row semantics (these are the semantics of starky, restated): the trace domain is cyclic, `Next`
//! at the last row denotes row 0; `Transition` terms are exempt at the last row (no wrap-around);
//! `FirstRow` / `LastRow` terms hold only at row 0 / n-1; `EveryRow` terms hold at all n rows
//! (including the wrap-around pair when they mention `Next`).
//!
//! Shapes: the `Stark` trait fixes the column / public-input counts as const generics, so a `Def` is
//! dispatched to `ModelStark<COLS, PIS>` for COLS in {1,2,3,4,6,8} and PIS in {0,1,3}
//! ([`supported_shape`]); the proof type does not depend on the shape.

use plonky2::field::extension::{Extendable, FieldExtension};
use plonky2::field::goldilocks_field::GoldilocksField;
use plonky2::field::packed::PackedField;
use plonky2::field::polynomial::PolynomialValues;
use plonky2::field::types::Field;
use plonky2::fri::reduction_strategies::FriReductionStrategy;
use plonky2::fri::FriConfig;
use plonky2::iop::ext_target::ExtensionTarget;
use plonky2::plonk::circuit_builder::CircuitBuilder;
use plonky2::plonk::config::PoseidonGoldilocksConfig;
use plonky2::util::timing::TimingTree;
use serde_json::Value;
use starky::config::StarkConfig;
use starky::constraint_consumer::{ConstraintConsumer, RecursiveConstraintConsumer};
use starky::evaluation_frame::{StarkEvaluationFrame, StarkFrame};
use starky::lookup::{Column, Filter, Lookup};
use starky::proof::StarkProofWithPublicInputs;
use starky::stark::Stark;

use crate::core::*;

pub type F = GoldilocksField;
pub const D: usize = 2;
pub type C = PoseidonGoldilocksConfig;
pub type FE = <F as Extendable<D>>::Extension;
pub type Proof = StarkProofWithPublicInputs<F, C, D>;
/// Row-major trace: `rows[r][c]`, canonical u64 values.
pub type Rows = Vec<Vec<u64>>;

// ---------------------------------------------------------------------------------------------
// Definitions

#[derive(Clone, Copy, Debug, PartialEq, Eq, PartialOrd, Ord)]
pub enum Kind {
    FirstRow,
    LastRow,
    Transition,
    EveryRow,
}

impl Kind {
    pub fn name(self) -> &'static str {
        match self {
            Kind::FirstRow => "first",
            Kind::LastRow => "last",
            Kind::Transition => "transition",
            Kind::EveryRow => "every",
        }
    }
}

#[derive(Clone, Copy, Debug, PartialEq, Eq)]
pub enum Atom {
    /// Column `c` of the current row.
    Local(usize),
    /// Column `c` of the next row (cyclic).
    Next(usize),
    /// Public input `i`.
    Pi(usize),
    /// A constant (canonical).
    Const(u64),
}

/// `sum_j prod_k prods[j][k] - target = 0` on the rows selected by `kind`.
/// An empty product is 1, an empty sum is 0.
#[derive(Clone, Debug)]
pub struct Term {
    pub kind: Kind,
    pub prods: Vec<Vec<Atom>>,
    pub target: Atom,
}

pub fn term(kind: Kind, prods: &[&[Atom]], target: Atom) -> Term {
    Term { kind, prods: prods.iter().map(|p| p.to_vec()).collect(), target }
}

/// Linear combination of current-row and next-row columns plus a constant (mirrors
/// `starky::lookup::Column`, as plain data so that the oracle can evaluate it itself).
/// Which public `Column` constructor builds the library object. The reference semantics is always
/// the plain data (lin, next, konst); the constructor is only the route taken through the library's
/// API, so that every public constructor is exercised against the same independent meaning.
#[derive(Clone, Copy, Debug, Default, PartialEq, Eq)]
pub enum Ctor {
    /// `linear_combination_and_next_row_with_constant` (or `constant` when there are no columns)
    #[default]
    General,
    Single,
    Singles,
    SingleNext,
    SinglesNext,
    LinComb,
    LinCombConst,
    LeBits,
    LeBitsConst,
    LeBytes,
    Sum,
    Zero,
    One,
}

#[derive(Clone, Debug, Default)]
pub struct ColSpec {
    pub lin: Vec<(usize, u64)>,
    pub next: Vec<(usize, u64)>,
    pub konst: u64,
    pub ctor: Ctor,
}

impl ColSpec {
    pub fn single(c: usize) -> Self {
        ColSpec { lin: vec![(c, 1)], next: vec![], konst: 0, ctor: Ctor::General }
    }
    pub fn single_next(c: usize) -> Self {
        ColSpec { lin: vec![], next: vec![(c, 1)], konst: 0, ctor: Ctor::General }
    }
    pub fn constant(k: u64) -> Self {
        ColSpec { lin: vec![], next: vec![], konst: k, ctor: Ctor::General }
    }
    pub fn lin(lin: &[(usize, u64)], konst: u64) -> Self {
        ColSpec { lin: lin.to_vec(), next: vec![], konst, ctor: Ctor::General }
    }
    pub fn via(mut self, ctor: Ctor) -> Self {
        self.ctor = ctor;
        self
    }
    pub fn to_column(&self) -> Column<F> {
        let f = |v: &Vec<(usize, u64)>| v.iter().map(|&(c, k)| (c, F::from_canonical_u64(k % P))).collect::<Vec<_>>();
        let k = F::from_canonical_u64(self.konst % P);
        let cols = |v: &Vec<(usize, u64)>| v.iter().map(|&(c, _)| c).collect::<Vec<usize>>();
        let weights = |v: &Vec<(usize, u64)>, base: u64| {
            let mut w = 1u64;
            for &(_, k) in v {
                assert_eq!(k % P, w % P, "ColSpec weights do not match the constructor");
                w = mulm(w, base);
            }
        };
        match self.ctor {
            Ctor::General => {
                if self.lin.is_empty() && self.next.is_empty() {
                    Column::constant(k)
                } else {
                    Column::linear_combination_and_next_row_with_constant(f(&self.lin), f(&self.next), k)
                }
            }
            Ctor::Single => {
                assert!(self.lin.len() == 1 && self.lin[0].1 == 1 && self.next.is_empty() && self.konst == 0);
                Column::single(self.lin[0].0)
            }
            Ctor::Singles => {
                assert!(self.lin.len() == 1 && self.lin[0].1 == 1 && self.next.is_empty() && self.konst == 0);
                Column::singles([self.lin[0].0]).next().unwrap()
            }
            Ctor::SingleNext => {
                assert!(self.next.len() == 1 && self.next[0].1 == 1 && self.lin.is_empty() && self.konst == 0);
                Column::single_next_row(self.next[0].0)
            }
            Ctor::SinglesNext => {
                assert!(self.next.len() == 1 && self.next[0].1 == 1 && self.lin.is_empty() && self.konst == 0);
                Column::singles_next_row([self.next[0].0]).next().unwrap()
            }
            Ctor::LinComb => {
                assert!(self.next.is_empty() && self.konst == 0);
                Column::linear_combination(f(&self.lin))
            }
            Ctor::LinCombConst => {
                assert!(self.next.is_empty());
                Column::linear_combination_with_constant(f(&self.lin), k)
            }
            Ctor::LeBits => {
                assert!(self.next.is_empty() && self.konst == 0);
                weights(&self.lin, 2);
                Column::le_bits(cols(&self.lin))
            }
            Ctor::LeBitsConst => {
                assert!(self.next.is_empty());
                weights(&self.lin, 2);
                Column::le_bits_with_constant(cols(&self.lin), k)
            }
            Ctor::LeBytes => {
                assert!(self.next.is_empty() && self.konst == 0);
                weights(&self.lin, 256);
                Column::le_bytes(cols(&self.lin))
            }
            Ctor::Sum => {
                assert!(self.next.is_empty() && self.konst == 0);
                weights(&self.lin, 1);
                Column::sum(cols(&self.lin))
            }
            Ctor::Zero => {
                assert!(self.lin.is_empty() && self.next.is_empty() && self.konst == 0);
                Column::zero()
            }
            Ctor::One => {
                assert!(self.lin.is_empty() && self.next.is_empty() && self.konst == 1);
                Column::one()
            }
        }
    }
    /// Reference evaluation at `row` of a row-major trace (next row is cyclic).
    pub fn eval(&self, rows: &Rows, row: usize) -> u64 {
        let n = rows.len();
        let mut acc = self.konst % P;
        for &(c, k) in &self.lin {
            acc = addm(acc, mulm(k, rows[row][c]));
        }
        for &(c, k) in &self.next {
            acc = addm(acc, mulm(k, rows[(row + 1) % n][c]));
        }
        acc
    }
}

/// `sum products (a*b) + sum constants` (mirrors `starky::lookup::Filter`).
#[derive(Clone, Debug, Default)]
pub struct FilterSpec {
    pub products: Vec<(ColSpec, ColSpec)>,
    pub constants: Vec<ColSpec>,
}

impl FilterSpec {
    pub fn simple(c: usize) -> Self {
        FilterSpec { products: vec![], constants: vec![ColSpec::single(c).via(Ctor::Single)] }
    }
    pub fn to_filter(&self) -> Filter<F> {
        // `Filter::new_simple` is the route for the one-column shape built by `FilterSpec::simple`
        if self.products.is_empty() && self.constants.len() == 1 && self.constants[0].ctor == Ctor::Single {
            return Filter::new_simple(self.constants[0].to_column());
        }
        Filter::new(
            self.products.iter().map(|(a, b)| (a.to_column(), b.to_column())).collect(),
            self.constants.iter().map(|c| c.to_column()).collect(),
        )
    }
    pub fn eval(&self, rows: &Rows, row: usize) -> u64 {
        let mut acc = 0;
        for (a, b) in &self.products {
            acc = addm(acc, mulm(a.eval(rows, row), b.eval(rows, row)));
        }
        for c in &self.constants {
            acc = addm(acc, c.eval(rows, row));
        }
        acc
    }
}

/// A single-table lookup declaration (mirrors `starky::lookup::Lookup`). `filters[i] == None` is the
/// always-on default filter.
#[derive(Clone, Debug)]
pub struct LookupSpec {
    pub columns: Vec<ColSpec>,
    pub table: ColSpec,
    pub freq: ColSpec,
    pub filters: Vec<Option<FilterSpec>>,
}

impl LookupSpec {
    pub fn to_lookup(&self) -> Lookup<F> {
        Lookup {
            columns: self.columns.iter().map(|c| c.to_column()).collect(),
            table_column: self.table.to_column(),
            frequencies_column: self.freq.to_column(),
            filter_columns: self.filters.iter().map(|f| f.as_ref().map(|f| f.to_filter()).unwrap_or_default()).collect(),
        }
    }
}

/// A model STARK definition (plain data).
#[derive(Clone, Debug)]
pub struct Def {
    pub name: String,
    pub cols: usize,
    pub pis: usize,
    /// Declared `constraint_degree()`. Must be >= [`min_degree`]; 0 means "no constraints, no quotient".
    pub degree: usize,
    pub terms: Vec<Term>,
    pub lookups: Vec<LookupSpec>,
    /// `requires_ctls()`.
    pub ctl: bool,
}

impl Def {
    pub fn new(name: &str, cols: usize, pis: usize, degree: usize, terms: Vec<Term>) -> Self {
        Def { name: name.to_string(), cols, pis, degree, terms, lookups: vec![], ctl: false }
    }
    /// `quotient_degree_factor()` as the Stark trait computes it from the declared degree.
    pub fn quotient_factor(&self) -> usize {
        match self.degree {
            0 => 0,
            1 | 2 => 1,
            d => d - 1,
        }
    }
    /// Smallest rate_bits the prover admits: `degree <= 2^rate_bits + 1`.
    pub fn min_rate_bits(&self) -> usize {
        let mut r = 1;
        while self.degree > (1 << r) + 1 {
            r += 1;
        }
        r
    }
    /// The prover can emit a proof for a non-satisfying trace only if the quotient always fits,
    /// i.e. the factor is a power of two; otherwise the lenient-truncation knob is needed.
    pub fn needs_lenient(&self) -> bool {
        let q = self.quotient_factor();
        q != 0 && !q.is_power_of_two()
    }
}

/// Degree of the polynomial a term contributes, including the row filter (a Lagrange selector or the
/// `x - g^-1` factor adds one).
pub fn term_degree(t: &Term) -> usize {
    let atom_deg = |a: &Atom| matches!(a, Atom::Local(_) | Atom::Next(_)) as usize;
    let body = t
        .prods
        .iter()
        .map(|p| p.iter().map(atom_deg).sum::<usize>())
        .chain(std::iter::once(atom_deg(&t.target)))
        .max()
        .unwrap_or(0);
    body + (t.kind != Kind::EveryRow) as usize
}

/// Smallest admissible declared degree of the term table (lookups, if any, need >= 2).
pub fn min_degree(def: &Def) -> usize {
    let d = def.terms.iter().map(term_degree).max().unwrap_or(0);
    if def.lookups.is_empty() && !def.ctl {
        d
    } else {
        d.max(2)
    }
}

/// Static well-formedness of a definition (column / public-input indices in range, degree declared
/// high enough, shape supported). An `Err` is a harness-side mistake, never a verdict.
pub fn validate_def(def: &Def) -> Result<(), String> {
    if !supported_shape(def.cols, def.pis) {
        return Err(format!("{}: shape ({}, {}) not instantiated", def.name, def.cols, def.pis));
    }
    if def.degree < min_degree(def) {
        return Err(format!("{}: declared degree {} < needed {}", def.name, def.degree, min_degree(def)));
    }
    let ok = |a: &Atom| match *a {
        Atom::Local(c) | Atom::Next(c) => c < def.cols,
        Atom::Pi(i) => i < def.pis,
        Atom::Const(k) => k < P,
    };
    for (i, t) in def.terms.iter().enumerate() {
        if !t.prods.iter().flatten().all(ok) || !ok(&t.target) {
            return Err(format!("{}: term {i} has an index out of range", def.name));
        }
    }
    Ok(())
}

// ---------------------------------------------------------------------------------------------
// The subject side: one interpreter, two algebras.

pub trait Alg {
    type V: Copy;
    fn konst(&mut self, c: u64) -> Self::V;
    fn add(&mut self, a: Self::V, b: Self::V) -> Self::V;
    fn sub(&mut self, a: Self::V, b: Self::V) -> Self::V;
    fn mul(&mut self, a: Self::V, b: Self::V) -> Self::V;
    /// Hand the constraint value to the library's consumer with the row filter of `kind`.
    fn emit(&mut self, kind: Kind, v: Self::V);
}

pub fn interpret<A: Alg>(terms: &[Term], alg: &mut A, local: &[A::V], next: &[A::V], pis: &[A::V]) {
    for t in terms {
        let mut sum: Option<A::V> = None;
        for prod in &t.prods {
            let mut p: Option<A::V> = None;
            for atom in prod {
                let v = atom_value(alg, atom, local, next, pis);
                p = Some(match p {
                    None => v,
                    Some(q) => alg.mul(q, v),
                });
            }
            let p = match p {
                Some(p) => p,
                None => alg.konst(1),
            };
            sum = Some(match sum {
                None => p,
                Some(s) => alg.add(s, p),
            });
        }
        let sum = match sum {
            Some(s) => s,
            None => alg.konst(0),
        };
        let target = atom_value(alg, &t.target, local, next, pis);
        let c = alg.sub(sum, target);
        alg.emit(t.kind, c);
    }
}

fn atom_value<A: Alg>(alg: &mut A, atom: &Atom, local: &[A::V], next: &[A::V], pis: &[A::V]) -> A::V {
    match *atom {
        Atom::Local(c) => local[c],
        Atom::Next(c) => next[c],
        Atom::Pi(i) => pis[i],
        Atom::Const(k) => alg.konst(k),
    }
}

struct PackedAlg<'a, FE2, P, const D2: usize>
where
    FE2: FieldExtension<D2, BaseField = F>,
    P: PackedField<Scalar = FE2>,
{
    cons: &'a mut ConstraintConsumer<P>,
}

impl<'a, FE2, P, const D2: usize> Alg for PackedAlg<'a, FE2, P, D2>
where
    FE2: FieldExtension<D2, BaseField = F>,
    P: PackedField<Scalar = FE2>,
{
    type V = P;
    fn konst(&mut self, c: u64) -> P {
        P::from(FE2::from_basefield(F::from_canonical_u64(c % P_MOD)))
    }
    fn add(&mut self, a: P, b: P) -> P {
        a + b
    }
    fn sub(&mut self, a: P, b: P) -> P {
        a - b
    }
    fn mul(&mut self, a: P, b: P) -> P {
        a * b
    }
    fn emit(&mut self, kind: Kind, v: P) {
        match kind {
            Kind::FirstRow => self.cons.constraint_first_row(v),
            Kind::LastRow => self.cons.constraint_last_row(v),
            Kind::Transition => self.cons.constraint_transition(v),
            Kind::EveryRow => self.cons.constraint(v),
        }
    }
}

const P_MOD: u64 = crate::core::P;

struct CircuitAlg<'a> {
    builder: &'a mut CircuitBuilder<F, D>,
    cons: &'a mut RecursiveConstraintConsumer<F, D>,
}

impl<'a> Alg for CircuitAlg<'a> {
    type V = ExtensionTarget<D>;
    fn konst(&mut self, c: u64) -> Self::V {
        self.builder.constant_extension(<FE as FieldExtension<D>>::from_basefield(F::from_canonical_u64(c % P_MOD)))
    }
    fn add(&mut self, a: Self::V, b: Self::V) -> Self::V {
        self.builder.add_extension(a, b)
    }
    fn sub(&mut self, a: Self::V, b: Self::V) -> Self::V {
        self.builder.sub_extension(a, b)
    }
    fn mul(&mut self, a: Self::V, b: Self::V) -> Self::V {
        self.builder.mul_extension(a, b)
    }
    fn emit(&mut self, kind: Kind, v: Self::V) {
        match kind {
            Kind::FirstRow => self.cons.constraint_first_row(self.builder, v),
            Kind::LastRow => self.cons.constraint_last_row(self.builder, v),
            Kind::Transition => self.cons.constraint_transition(self.builder, v),
            Kind::EveryRow => self.cons.constraint(self.builder, v),
        }
    }
}

/// The model STARK: a [`Def`] behind the public `Stark` trait.
#[derive(Clone, Debug)]
pub struct ModelStark<const COLS: usize, const PIS: usize> {
    pub def: Def,
}

impl<const COLS: usize, const PIS: usize> ModelStark<COLS, PIS> {
    pub fn new(def: &Def) -> Self {
        assert_eq!((def.cols, def.pis), (COLS, PIS), "shape mismatch for {}", def.name);
        ModelStark { def: def.clone() }
    }
}

impl<const COLS: usize, const PIS: usize> Stark<F, D> for ModelStark<COLS, PIS> {
    type EvaluationFrame<FE2, P, const D2: usize>
        = StarkFrame<P, P::Scalar, COLS, PIS>
    where
        FE2: FieldExtension<D2, BaseField = F>,
        P: PackedField<Scalar = FE2>;

    type EvaluationFrameTarget = StarkFrame<ExtensionTarget<D>, ExtensionTarget<D>, COLS, PIS>;

    fn eval_packed_generic<FE2, P, const D2: usize>(
        &self,
        vars: &Self::EvaluationFrame<FE2, P, D2>,
        yield_constr: &mut ConstraintConsumer<P>,
    ) where
        FE2: FieldExtension<D2, BaseField = F>,
        P: PackedField<Scalar = FE2>,
    {
        let pis: Vec<P> = vars.get_public_inputs().iter().map(|&x| P::from(x)).collect();
        let mut alg = PackedAlg::<FE2, P, D2> { cons: yield_constr };
        interpret(&self.def.terms, &mut alg, vars.get_local_values(), vars.get_next_values(), &pis);
    }

    fn eval_ext_circuit(
        &self,
        builder: &mut CircuitBuilder<F, D>,
        vars: &Self::EvaluationFrameTarget,
        yield_constr: &mut RecursiveConstraintConsumer<F, D>,
    ) {
        let mut alg = CircuitAlg { builder, cons: yield_constr };
        interpret(&self.def.terms, &mut alg, vars.get_local_values(), vars.get_next_values(), vars.get_public_inputs());
    }

    fn constraint_degree(&self) -> usize {
        self.def.degree
    }

    fn lookups(&self) -> Vec<Lookup<F>> {
        self.def.lookups.iter().map(|l| l.to_lookup()).collect()
    }

    fn requires_ctls(&self) -> bool {
        self.def.ctl
    }
}

pub const SHAPE_COLS: [usize; 6] = [1, 2, 3, 4, 6, 8];
pub const SHAPE_PIS: [usize; 3] = [0, 1, 3];

pub fn supported_shape(cols: usize, pis: usize) -> bool {
    (SHAPE_COLS.contains(&cols) && SHAPE_PIS.contains(&pis)) || SHAPE_WIDE.contains(&(cols, pis))
}
/// Wide shapes: 2 * columns exceeds the number of powers one simulated opening point supplies when the
/// verifier binds the constraints before the quotient commitment (starky get_dummy_polys: 49 for
/// constraint degree <= 1, 24 for degree 2-3, 15 for degree 4-7), so several points are drawn.
pub const SHAPE_WIDE: [(usize, usize); 5] = [(9, 1), (13, 0), (13, 1), (16, 1), (26, 0)];

/// Run `$body` with `$S` bound to the `ModelStark<COLS, PIS>` type that matches `$def`'s shape.
/// `$body` is an expression that may use `$S::new($def)`; all arms must have the same type.
#[macro_export]
macro_rules! with_model_stark {
    ($def:expr, $S:ident, $body:expr) => {{
        macro_rules! __arm {
            ($c:literal, $p:literal) => {{
                type $S = $crate::starkm::ModelStark<$c, $p>;
                $body
            }};
        }
        match ($def.cols, $def.pis) {
            (1, 0) => __arm!(1, 0),
            (1, 1) => __arm!(1, 1),
            (1, 3) => __arm!(1, 3),
            (2, 0) => __arm!(2, 0),
            (2, 1) => __arm!(2, 1),
            (2, 3) => __arm!(2, 3),
            (3, 0) => __arm!(3, 0),
            (3, 1) => __arm!(3, 1),
            (3, 3) => __arm!(3, 3),
            (4, 0) => __arm!(4, 0),
            (4, 1) => __arm!(4, 1),
            (4, 3) => __arm!(4, 3),
            (6, 0) => __arm!(6, 0),
            (6, 1) => __arm!(6, 1),
            (6, 3) => __arm!(6, 3),
            (8, 0) => __arm!(8, 0),
            (8, 1) => __arm!(8, 1),
            (8, 3) => __arm!(8, 3),
            (9, 1) => __arm!(9, 1),
            (13, 0) => __arm!(13, 0),
            (13, 1) => __arm!(13, 1),
            (16, 1) => __arm!(16, 1),
            (26, 0) => __arm!(26, 0),
            (c, p) => panic!("model STARK shape ({c}, {p}) is not instantiated"),
        }
    }};
}

// ---------------------------------------------------------------------------------------------
// The oracle side: row-by-row trace checker on u64 arithmetic.

#[derive(Clone, Copy, Debug, PartialEq, Eq)]
pub struct Failure {
    pub term: usize,
    pub row: usize,
    pub kind: Kind,
}

/// All (term, row) pairs at which the trace violates the definition for the given public inputs.
/// Empty = the trace satisfies the definition. Lookups are not judged here (see C10).
pub fn check_trace(def: &Def, rows: &Rows, pis: &[u64]) -> Vec<Failure> {
    let n = rows.len();
    let mut out = Vec::new();
    for (ti, t) in def.terms.iter().enumerate() {
        for row in 0..n {
            let applies = match t.kind {
                Kind::FirstRow => row == 0,
                Kind::LastRow => row == n - 1,
                Kind::Transition => row < n - 1,
                Kind::EveryRow => true,
            };
            if !applies {
                continue;
            }
            let val = |a: &Atom| -> u64 {
                match *a {
                    Atom::Local(c) => rows[row][c] % P,
                    Atom::Next(c) => rows[(row + 1) % n][c] % P,
                    Atom::Pi(i) => pis[i] % P,
                    Atom::Const(k) => k % P,
                }
            };
            let mut sum = 0u64;
            for prod in &t.prods {
                let mut p = 1u64;
                for a in prod {
                    p = mulm(p, val(a));
                }
                sum = addm(sum, p);
            }
            if subm(sum, val(&t.target)) != 0 {
                out.push(Failure { term: ti, row, kind: t.kind });
            }
        }
    }
    out
}

pub fn satisfied(def: &Def, rows: &Rows, pis: &[u64]) -> bool {
    check_trace(def, rows, pis).is_empty()
}

// ---------------------------------------------------------------------------------------------
// The family and its trace generators.

/// Generator: `(n, choice)` -> (satisfying trace with n rows, matching public inputs).
/// `choice` in 0..3 selects one of three initial-value / public-input choices.
pub type Gen = fn(usize, usize) -> (Rows, Vec<u64>);

#[derive(Clone)]
pub struct Member {
    pub def: Def,
    pub gen: Gen,
}

fn filler(n: usize, col: usize, choice: usize) -> Vec<u64> {
    dense_vec(n, 0xC09_0000 + (col as u64) * 1315423911 + (choice as u64) * 2654435761 + n as u64)
}

fn from_cols(cols: Vec<Vec<u64>>) -> Rows {
    let n = cols[0].len();
    (0..n).map(|r| cols.iter().map(|c| c[r]).collect()).collect()
}

const SEEDS3: [[u64; 2]; 3] = [[2, 7], [P - 1, 1 << 32], [EPS, 3]];
/// Start values for x -> x^d chains (no fixed points or short cycles: -1, 0, 1 would give constant traces).
const POW_SEEDS3: [u64; 3] = [2, 1 << 32, 3];

fn gen_free1(n: usize, ch: usize) -> (Rows, Vec<u64>) {
    (from_cols(vec![filler(n, 0, ch)]), vec![])
}
fn gen_free3(n: usize, ch: usize) -> (Rows, Vec<u64>) {
    (from_cols(vec![filler(n, 0, ch), filler(n, 1, ch), filler(n, 2, ch)]), vec![SEEDS3[ch][0]])
}
fn gen_lin(n: usize, ch: usize) -> (Rows, Vec<u64>) {
    let c0 = filler(n, 0, ch);
    let c1 = c0.iter().map(|&x| mulm(3, x)).collect();
    (from_cols(vec![c0, c1]), vec![])
}
fn gen_constpi(n: usize, ch: usize) -> (Rows, Vec<u64>) {
    let v = SEEDS3[ch][0];
    (from_cols(vec![vec![v; n]]), vec![v])
}
fn gen_alt(n: usize, ch: usize) -> (Rows, Vec<u64>) {
    // x, 1-x, x, 1-x, ... (n is even, so the cyclic wrap-around pair also satisfies next = 1 - local)
    let x = SEEDS3[ch][0];
    (from_cols(vec![(0..n).map(|r| if r % 2 == 0 { x } else { subm(1, x) }).collect()]), vec![])
}
fn counter_col(n: usize, start: u64) -> Vec<u64> {
    (0..n).map(|r| addm(start, r as u64)).collect()
}
fn gen_counter0(n: usize, _ch: usize) -> (Rows, Vec<u64>) {
    (from_cols(vec![counter_col(n, 5)]), vec![])
}
fn gen_counter1(n: usize, ch: usize) -> (Rows, Vec<u64>) {
    let s = SEEDS3[ch][0];
    (from_cols(vec![counter_col(n, s)]), vec![s])
}
fn gen_lastonly1(n: usize, ch: usize) -> (Rows, Vec<u64>) {
    let c0 = filler(n, 0, ch);
    let pi = c0[n - 1];
    (from_cols(vec![c0]), vec![pi])
}
fn gen_lastonly2(n: usize, ch: usize) -> (Rows, Vec<u64>) {
    let c1 = filler(n, 1, ch);
    let pi = c1[n - 1];
    (from_cols(vec![filler(n, 0, ch), c1]), vec![pi])
}
fn fib_cols(n: usize, x0: u64, x1: u64) -> (Vec<u64>, Vec<u64>) {
    let (mut a, mut b) = (vec![x0 % P], vec![x1 % P]);
    for r in 1..n {
        let (pa, pb) = (a[r - 1], b[r - 1]);
        a.push(pb);
        b.push(addm(pa, pb));
    }
    (a, b)
}
fn gen_fib2(n: usize, ch: usize) -> (Rows, Vec<u64>) {
    let (a, b) = fib_cols(n, SEEDS3[ch][0], SEEDS3[ch][1]);
    let pis = vec![a[0], b[0], b[n - 1]];
    (from_cols(vec![a, b]), pis)
}
fn gen_fib3(n: usize, ch: usize) -> (Rows, Vec<u64>) {
    let (a, b) = fib_cols(n, SEEDS3[ch][0], SEEDS3[ch][1]);
    let pis = vec![a[0], b[0], b[n - 1]];
    (from_cols(vec![a, b, counter_col(n, SEEDS3[ch][1])]), pis)
}
fn pow_col(n: usize, x0: u64, d: u128) -> Vec<u64> {
    let mut v = vec![x0 % P];
    for r in 1..n {
        v.push(powm(v[r - 1], d));
    }
    v
}
fn gen_pow<const DEG: u32>(n: usize, ch: usize) -> (Rows, Vec<u64>) {
    let c = pow_col(n, POW_SEEDS3[ch], DEG as u128);
    let pi = c[0];
    (from_cols(vec![c]), vec![pi])
}
fn gen_firstsq(n: usize, ch: usize) -> (Rows, Vec<u64>) {
    let c0 = filler(n, 0, ch);
    let pi = mulm(c0[0], c0[0]);
    (from_cols(vec![c0]), vec![pi])
}
fn gen_pow4(n: usize, ch: usize) -> (Rows, Vec<u64>) {
    let c0 = pow_col(n, POW_SEEDS3[ch], 4);
    let c1 = counter_col(n, SEEDS3[ch][1]);
    let pis = vec![c0[0], c1[0], c0[n - 1]];
    (from_cols(vec![c0, c1]), pis)
}
fn bits(n: usize, ch: usize) -> Vec<u64> {
    (0..n).map(|r| ((0b1011_0010_1110_0101u64 >> ((r + 3 * ch) % 16)) & 1) ^ ((r as u64 / 16) & 1)).collect()
}
fn running_sum(start: u64, c0: &[u64]) -> Vec<u64> {
    let mut c1 = vec![start % P];
    for r in 1..c0.len() {
        c1.push(addm(c1[r - 1], c0[r - 1]));
    }
    c1
}
fn gen_popcount(n: usize, ch: usize) -> (Rows, Vec<u64>) {
    let c0 = bits(n, ch);
    let c1 = running_sum(0, &c0);
    let pi = addm(c1[n - 1], c0[n - 1]);
    (from_cols(vec![c0, c1]), vec![pi])
}
fn gen_acc(n: usize, ch: usize) -> (Rows, Vec<u64>) {
    let c0 = filler(n, 0, ch);
    let s = SEEDS3[ch][1];
    let c1 = running_sum(s, &c0);
    (from_cols(vec![c0, c1]), vec![s])
}
fn gen_wide8(n: usize, ch: usize) -> (Rows, Vec<u64>) {
    let (c0, c1) = fib_cols(n, SEEDS3[ch][0], SEEDS3[ch][1]);
    let mut c2 = vec![SEEDS3[ch][1]];
    for r in 1..n {
        c2.push(mulm(c0[r - 1], c1[r - 1]));
    }
    let c3: Vec<u64> = (0..n).map(|r| mulm(mulm(c0[r], c1[r]), c2[r])).collect();
    let c4 = counter_col(n, 0);
    let pi0 = c0[0];
    let c5: Vec<u64> = c4.iter().map(|&x| addm(mulm(2, x), pi0)).collect();
    let mut c6 = filler(n, 6, ch);
    c6[n - 1] = c4[n - 1];
    let c7 = filler(n, 7, ch);
    let pis = vec![c0[0], c1[0], c1[n - 1]];
    (from_cols(vec![c0, c1, c2, c3, c4, c5, c6, c7]), pis)
}

/// Wide chains: column 0 counts up from the public input, column j = column j-1 * column 0 on every
/// row; with `LASTPOW > 0` the last column instead iterates x -> x^LASTPOW (its first cell is free).
fn wide_mul_terms(cols: usize, lastpow: usize) -> Vec<Term> {
    use Atom::*;
    use Kind::*;
    let mut t = vec![term(FirstRow, &[&[Pi(0)]], Local(0)), term(Transition, &[&[Local(0)], &[Const(1)]], Next(0))];
    let chain_end = if lastpow > 0 { cols - 1 } else { cols };
    for j in 1..chain_end {
        t.push(term(EveryRow, &[&[Local(j - 1), Local(0)]], Local(j)));
    }
    if lastpow > 0 {
        t.push(term(Transition, &[&vec![Local(cols - 1); lastpow][..]], Next(cols - 1)));
    }
    t
}
fn gen_wide_mul<const C: usize, const LASTPOW: usize>(n: usize, ch: usize) -> (Rows, Vec<u64>) {
    let s = SEEDS3[ch][0];
    let c0 = counter_col(n, s);
    let mut cols = vec![c0.clone()];
    let chain_end = if LASTPOW > 0 { C - 1 } else { C };
    for j in 1..chain_end {
        let prev = cols[j - 1].clone();
        cols.push((0..n).map(|r| mulm(prev[r], c0[r])).collect());
    }
    if LASTPOW > 0 {
        let mut c = vec![POW_SEEDS3[ch]];
        for r in 1..n {
            c.push(powm(c[r - 1], LASTPOW as u128));
        }
        cols.push(c);
    }
    (from_cols(cols), vec![s])
}
/// 26 columns, unfiltered linear constraints only: column j = 3 * column j-1 + j; column 0 is free.
fn wide_lin_terms(cols: usize) -> Vec<Term> {
    use Atom::*;
    (1..cols).map(|j| term(Kind::EveryRow, &[&[Const(3), Local(j - 1)], &[Const(j as u64)]], Local(j))).collect()
}
fn gen_wide_lin<const C: usize>(n: usize, ch: usize) -> (Rows, Vec<u64>) {
    let mut cols = vec![filler(n, 0, ch)];
    for j in 1..C {
        let prev = cols[j - 1].clone();
        cols.push((0..n).map(|r| addm(mulm(3, prev[r]), j as u64)).collect());
    }
    (from_cols(cols), vec![])
}

/// The model-STARK family (every member validated by `validate_def` in the engines' self-checks).
pub fn family() -> Vec<Member> {
    use Atom::*;
    use Kind::*;
    let m = |def: Def, gen: Gen| Member { def, gen };
    let fib_terms = || {
        vec![
            term(FirstRow, &[&[Pi(0)]], Local(0)),
            term(FirstRow, &[&[Pi(1)]], Local(1)),
            term(LastRow, &[&[Local(1)]], Pi(2)),
            term(Transition, &[&[Local(1)]], Next(0)),
            term(Transition, &[&[Local(0)], &[Local(1)]], Next(1)),
        ]
    };
    let pow_terms = |d: usize| {
        vec![
            term(FirstRow, &[&[Pi(0)]], Local(0)),
            term(Transition, &[&vec![Local(0); d][..]], Next(0)),
        ]
    };
    vec![
        // degree 0: no constraints, no quotient polynomials at all
        m(Def::new("free_c1", 1, 0, 0, vec![]), gen_free1),
        m(Def::new("free_c3_p1", 3, 1, 0, vec![]), gen_free3),
        // degree 1: unfiltered linear constraints only
        m(Def::new("lin_c2", 2, 0, 1, vec![term(EveryRow, &[&[Const(3), Local(0)]], Local(1))]), gen_lin),
        m(Def::new("constpi_c1_p1", 1, 1, 1, vec![term(EveryRow, &[&[Pi(0)]], Local(0))]), gen_constpi),
        m(Def::new("alt_c1", 1, 0, 1, vec![term(EveryRow, &[&[Const(1)], &[Const(P - 1), Local(0)]], Next(0))]), gen_alt),
        // degree 2
        m(
            Def::new("counter_c1_p0", 1, 0, 2, vec![term(FirstRow, &[&[Const(5)]], Local(0)), term(Transition, &[&[Local(0)], &[Const(1)]], Next(0))]),
            gen_counter0,
        ),
        m(
            Def::new("counter_c1_p1", 1, 1, 2, vec![term(FirstRow, &[&[Pi(0)]], Local(0)), term(Transition, &[&[Local(0)], &[Const(1)]], Next(0))]),
            gen_counter1,
        ),
        m(Def::new("lastonly_c1_p1", 1, 1, 2, vec![term(LastRow, &[&[Pi(0)]], Local(0))]), gen_lastonly1),
        m(Def::new("lastonly_c2_p1", 2, 1, 2, vec![term(LastRow, &[&[Pi(0)]], Local(1))]), gen_lastonly2),
        m(Def::new("fib_c2_p3", 2, 3, 2, fib_terms()), gen_fib2),
        m(
            Def::new("fib_c3_p3", 3, 3, 2, {
                let mut t = fib_terms();
                t.push(term(Transition, &[&[Local(2)], &[Const(1)]], Next(2)));
                t
            }),
            gen_fib3,
        ),
        m(
            Def::new(
                "popcount_c2_p1",
                2,
                1,
                2,
                vec![
                    term(EveryRow, &[&[Local(0), Local(0)]], Local(0)),
                    term(FirstRow, &[], Local(1)),
                    term(Transition, &[&[Local(1)], &[Local(0)]], Next(1)),
                    term(LastRow, &[&[Local(1)], &[Local(0)]], Pi(0)),
                ],
            ),
            gen_popcount,
        ),
        // column 0 is only ever read as a *local* value of a transition: its last-row cell is free
        m(
            Def::new("acc_c2_p1", 2, 1, 2, vec![term(FirstRow, &[&[Pi(0)]], Local(1)), term(Transition, &[&[Local(1)], &[Local(0)]], Next(1))]),
            gen_acc,
        ),
        // declared degree above the needed one (upper quotient chunk is identically zero when honest)
        m(Def::new("fib_slack_c2_p3", 2, 3, 3, fib_terms()), gen_fib2),
        // degree 3 (quotient factor 2; tight for rate_bits 1)
        m(Def::new("pow2_c1_p1", 1, 1, 3, pow_terms(2)), gen_pow::<2>),
        m(Def::new("firstsq_c1_p1", 1, 1, 3, vec![term(FirstRow, &[&[Local(0), Local(0)]], Pi(0))]), gen_firstsq),
        // degree 4 (quotient factor 3: not a power of two -> lenient knob for bad traces; rate_bits >= 2)
        m(Def::new("pow3_c1_p1", 1, 1, 4, pow_terms(3)), gen_pow::<3>),
        // degree 5 = blowup + 1 for rate_bits 2
        m(
            Def::new(
                "pow4_c2_p3",
                2,
                3,
                5,
                vec![
                    term(FirstRow, &[&[Pi(0)]], Local(0)),
                    term(FirstRow, &[&[Pi(1)]], Local(1)),
                    term(LastRow, &[&[Local(0)]], Pi(2)),
                    term(Transition, &[&[Local(0), Local(0), Local(0), Local(0)]], Next(0)),
                    term(Transition, &[&[Local(1)], &[Const(1)]], Next(1)),
                ],
            ),
            gen_pow4,
        ),
        // degree 9 = blowup + 1 for rate_bits 3
        m(Def::new("pow8_c1_p1", 1, 1, 9, pow_terms(8)), gen_pow::<8>),
        // 8 columns, mixed kinds, degree 3
        m(
            Def::new("wide8_p3", 8, 3, 3, {
                let mut t = fib_terms();
                t.push(term(Transition, &[&[Local(0), Local(1)]], Next(2)));
                t.push(term(EveryRow, &[&[Local(0), Local(1), Local(2)]], Local(3)));
                t.push(term(FirstRow, &[], Local(4)));
                t.push(term(Transition, &[&[Local(4)], &[Const(1)]], Next(4)));
                t.push(term(EveryRow, &[&[Const(2), Local(4)], &[Pi(0)]], Local(5)));
                t.push(term(LastRow, &[&[Local(4)]], Local(6)));
                t
            }),
            gen_wide8,
        ),
        // wide members (appended last: engines that pick "the first members with ..." are unaffected)
        m(Def::new("wide13_p1", 13, 1, 2, wide_mul_terms(13, 0)), gen_wide_mul::<13, 0>),
        m(Def::new("wide16_d3_p1", 16, 1, 3, wide_mul_terms(16, 2)), gen_wide_mul::<16, 2>),
        m(Def::new("wide9_d5_p1", 9, 1, 5, wide_mul_terms(9, 4)), gen_wide_mul::<9, 4>),
        m(Def::new("wide26_lin", 26, 0, 1, wide_lin_terms(26)), gen_wide_lin::<26>),
    ]
}

pub fn member(name: &str) -> Member {
    family().into_iter().find(|m| m.def.name == name).unwrap_or_else(|| panic!("no model STARK named {name}"))
}

// ---------------------------------------------------------------------------------------------
// Configurations

#[derive(Clone, Debug, PartialEq, Eq)]
pub enum Arity {
    /// `Fixed([])`: no reduction, the whole codeword's polynomial is sent.
    None,
    /// `Fixed([1; k])`
    Ones(usize),
    /// `ConstantArityBits(a, f)`
    Constant(usize, usize),
    /// `MinSize(None)`
    MinSize,
}

#[derive(Clone, Debug, PartialEq, Eq)]
pub struct Cfg {
    pub rate_bits: usize,
    pub cap_height: usize,
    pub num_challenges: usize,
    pub queries: usize,
    pub pow_bits: u32,
    pub arity: Arity,
}

impl Cfg {
    pub fn tag(&self) -> String {
        let a = match &self.arity {
            Arity::None => "aN".to_string(),
            Arity::Ones(k) => format!("a1x{k}"),
            Arity::Constant(a, f) => format!("aC{a}.{f}"),
            Arity::MinSize => "aM".to_string(),
        };
        format!("r{}c{}k{}q{}w{}{}", self.rate_bits, self.cap_height, self.num_challenges, self.queries, self.pow_bits, a)
    }
    pub fn stark_config(&self) -> StarkConfig {
        let reduction_strategy = match &self.arity {
            Arity::None => FriReductionStrategy::Fixed(vec![]),
            Arity::Ones(k) => FriReductionStrategy::Fixed(vec![1; *k]),
            Arity::Constant(a, f) => FriReductionStrategy::ConstantArityBits(*a, *f),
            Arity::MinSize => FriReductionStrategy::MinSize(None),
        };
        // security_bits is what these parameters actually reach, so that `check_config` holds.
        let security = self.queries * self.rate_bits + self.pow_bits as usize;
        StarkConfig::new(
            security,
            self.num_challenges,
            FriConfig {
                rate_bits: self.rate_bits,
                cap_height: self.cap_height,
                proof_of_work_bits: self.pow_bits,
                reduction_strategy,
                num_query_rounds: self.queries,
            },
        )
    }
    /// The preconditions the prover itself asserts, written out from the source:
    /// `constraint_degree <= 2^rate_bits + 1`; `total_arities <= degree_bits + rate_bits - cap_height`
    /// (every committed tree, reduced FRI layers included, is at least as high as the cap);
    /// every reduction fits in what is left of the degree (`reduction_arity_bits` asserts it inside its
    /// loop: a panic there means inadmissible); at least one query.
    pub fn admissible(&self, def: &Def, degree_bits: usize) -> bool {
        if def.degree > (1 << self.rate_bits) + 1 || self.queries == 0 {
            return false;
        }
        if self.cap_height > degree_bits + self.rate_bits {
            return false;
        }
        let arities = match catch_quiet(|| self.stark_config().fri_params(degree_bits).reduction_arity_bits) {
            Some(a) => a,
            None => return false,
        };
        let total: usize = arities.iter().sum();
        total <= degree_bits && total + self.cap_height <= degree_bits + self.rate_bits
    }
    /// Verdict floor of DESIGN §3.7: `queries * log2(lde size) >= 40`.
    pub fn meets_floor(&self, degree_bits: usize) -> bool {
        self.queries * (degree_bits + self.rate_bits) >= 40
    }
}

fn catch_quiet<T>(f: impl FnOnce() -> T) -> Option<T> {
    std::panic::catch_unwind(std::panic::AssertUnwindSafe(f)).ok()
}

// ---------------------------------------------------------------------------------------------
// Prove / verify wrappers

pub fn to_poly_values(rows: &Rows, cols: usize) -> Vec<PolynomialValues<F>> {
    (0..cols).map(|c| PolynomialValues::new(rows.iter().map(|r| F::from_canonical_u64(r[c] % P)).collect())).collect()
}

pub fn to_field(v: &[u64]) -> Vec<F> {
    v.iter().map(|&x| F::from_canonical_u64(x % P)).collect()
}

pub enum ProveOutcome {
    Proof(Box<Proof>),
    /// The prover returned `Err`.
    Err(String),
    /// The prover panicked.
    Panic(String),
}

/// Runs `starky::prover::prove` for `def` on `rows` / `pis`. `lenient` arms the prover's
/// truncate-instead-of-panic knob for the duration of the call (to be used for non-satisfying traces
/// only: on an honest trace it would mask a quotient that does not fit).
pub fn prove_def(def: &Def, cfg: &StarkConfig, rows: &Rows, pis: &[u64], lenient: bool) -> ProveOutcome {
    let trace = to_poly_values(rows, def.cols);
    let pis = to_field(pis);
    starky::verif_hooks::knobs::set_lenient_quotient(lenient);
    plonky2_field::verif_hooks::set_seed(Some(0x5eed_c09));
    let r = guarded(|| {
        with_model_stark!(def, S, starky::prover::prove::<F, C, S, D>(S::new(def), cfg, trace.clone(), &pis, None, &mut TimingTree::default()))
    });
    plonky2_field::verif_hooks::set_seed(None);
    starky::verif_hooks::knobs::set_lenient_quotient(false);
    match r {
        Ok(Ok(p)) => ProveOutcome::Proof(Box::new(p)),
        Ok(Err(e)) => ProveOutcome::Err(format!("{e:#}")),
        Err(p) => ProveOutcome::Panic(p),
    }
}

#[derive(Clone, Debug, PartialEq, Eq)]
pub enum Verdict {
    Accepted,
    Rejected(String),
    Panicked(String),
}

impl Verdict {
    pub fn accepted(&self) -> bool {
        matches!(self, Verdict::Accepted)
    }
    /// Short stable class of the verdict (for observation classes).
    pub fn class(&self) -> String {
        match self {
            Verdict::Accepted => "accepted".into(),
            Verdict::Rejected(e) => format!("rejected:{}", error_class(e)),
            Verdict::Panicked(e) => format!("panic:{}", error_class(e)),
        }
    }
}

/// Runs `starky::verifier::verify_stark_proof` for `def`.
pub fn verify_def(def: &Def, cfg: &StarkConfig, proof: Proof) -> Verdict {
    let r = guarded(|| with_model_stark!(def, S, starky::verifier::verify_stark_proof::<F, C, S, D>(S::new(def), proof.clone(), cfg, None)));
    match r {
        Ok(Ok(())) => Verdict::Accepted,
        Ok(Err(e)) => Verdict::Rejected(format!("{e:#}")),
        Err(p) => Verdict::Panicked(p),
    }
}

/// Collapses an error / panic message to a short class: first few words, digits removed.
pub fn error_class(msg: &str) -> String {
    let first = msg.lines().next().unwrap_or("");
    let cleaned: String = first.chars().map(|c| if c.is_ascii_alphanumeric() || c == ' ' || c == '_' { c } else { ' ' }).collect();
    let words: Vec<&str> = cleaned.split_whitespace().filter(|w| !w.chars().all(|c| c.is_ascii_digit())).take(6).collect();
    if words.is_empty() {
        "unspecified".into()
    } else {
        words.join("-").to_lowercase()
    }
}

// ---------------------------------------------------------------------------------------------
// serde_json tamper walker (DESIGN §3.7, the part C09 / C10 need)

#[derive(Clone, Debug)]
pub enum Step {
    Key(String),
    Idx(usize),
}

pub type Path = Vec<Step>;

pub fn path_string(p: &Path) -> String {
    let mut s = String::new();
    for st in p {
        match st {
            Step::Key(k) => {
                if !s.is_empty() {
                    s.push('.');
                }
                s.push_str(k);
            }
            Step::Idx(i) => s.push_str(&format!("[{i}]")),
        }
    }
    s
}

/// The path with all indices wildcarded: the stable "kind of element" key.
pub fn path_class(p: &Path) -> String {
    let mut s = String::new();
    for st in p {
        match st {
            Step::Key(k) => {
                if !s.is_empty() {
                    s.push('.');
                }
                s.push_str(k);
            }
            Step::Idx(_) => s.push_str("[*]"),
        }
    }
    s
}

/// All numeric leaves and all array nodes of a JSON tree, in document order.
pub fn json_paths(v: &Value) -> (Vec<Path>, Vec<Path>) {
    fn walk(v: &Value, cur: &mut Path, leaves: &mut Vec<Path>, lists: &mut Vec<Path>) {
        match v {
            Value::Number(_) => leaves.push(cur.clone()),
            Value::Array(a) => {
                lists.push(cur.clone());
                for (i, x) in a.iter().enumerate() {
                    cur.push(Step::Idx(i));
                    walk(x, cur, leaves, lists);
                    cur.pop();
                }
            }
            Value::Object(m) => {
                for (k, x) in m {
                    cur.push(Step::Key(k.clone()));
                    walk(x, cur, leaves, lists);
                    cur.pop();
                }
            }
            _ => {}
        }
    }
    let (mut leaves, mut lists) = (Vec::new(), Vec::new());
    walk(v, &mut Vec::new(), &mut leaves, &mut lists);
    (leaves, lists)
}

pub fn json_at<'a>(v: &'a mut Value, p: &Path) -> &'a mut Value {
    let mut cur = v;
    for st in p {
        cur = match st {
            Step::Key(k) => cur.get_mut(k.as_str()).expect("path key"),
            Step::Idx(i) => cur.get_mut(*i).expect("path index"),
        };
    }
    cur
}

/// Copy of `v` with the numeric leaf at `p` replaced by `(x + 1) mod p` (always a different field
/// element, always canonical).
pub fn leaf_plus_one(v: &Value, p: &Path) -> Value {
    let mut w = v.clone();
    let leaf = json_at(&mut w, p);
    let x = leaf.as_u64().expect("numeric leaf");
    *leaf = Value::from(addm(x, 1));
    w
}

#[derive(Clone, Copy, Debug, PartialEq, Eq)]
pub enum ListMut {
    DropLast,
    DupLast,
    /// the whole list replaced by `null` (an `Option` turned from `Some` into `None`)
    Null,
}

/// Copy of `v` with the array at `p` shortened / extended / nulled; `None` when the mutation is not
/// applicable (dropping from or duplicating in an empty list, nulling the root).
pub fn list_mutate(v: &Value, p: &Path, m: ListMut) -> Option<Value> {
    let mut w = v.clone();
    if m == ListMut::Null {
        if p.is_empty() {
            return None;
        }
        *json_at(&mut w, p) = Value::Null;
        return Some(w);
    }
    let a = json_at(&mut w, p).as_array_mut().expect("array node");
    let last = a.last().cloned()?;
    match m {
        ListMut::DropLast => {
            a.pop();
        }
        ListMut::DupLast => a.push(last),
        ListMut::Null => unreachable!(),
    }
    Some(w)
}

pub fn proof_to_json(p: &Proof) -> Value {
    serde_json::to_value(p).expect("proof serialises")
}

pub fn proof_from_json(v: &Value) -> Result<Proof, String> {
    serde_json::from_value::<Proof>(v.clone()).map_err(|e| e.to_string())
}

/// The tamper pass over one accepted proof object given as a JSON tree (DESIGN §3.7): every numeric
/// leaf replaced by `leaf + 1`, every list shortened by its last element, extended by a copy of it,
/// and replaced by `null` (Some -> None for optional proof parts).
/// `verify` decodes and verifies a tampered tree (`None` = the tree no longer decodes into the typed
/// proof: not accepted). Expected: never accepted. Panics are "not accepted" (tallied in
/// `tamper_panic`; clean failure is C18's business). Returns (#leaves, #lists).
///
/// `constant_trace`: a constant trace makes every committed polynomial constant, so all leaves of each
/// Merkle tree coincide, authentication paths are position-independent and FRI's quotients vanish
/// everywhere: proof elements that only steer the query positions (`pow_witness` with 0 grinding bits,
/// an extra commit-phase cap) are information-theoretically unbound. With the flag set, acceptances
/// are observed (counter `tamper_accepted_on_constant_trace`), not judged.
///
/// The caller must have checked that `tree` itself is accepted and uses a configuration meeting the
/// verdict floor.
pub fn tamper_all(ctx: &Ctx, prefix: &str, tree: &Value, constant_trace: bool, verify: &(dyn Fn(&Value) -> Option<Verdict> + Sync)) -> (usize, usize) {
    match verify(tree) {
        Some(Verdict::Accepted) => {}
        other => {
            ctx.machinery_error(format!("{prefix}: the JSON round trip of an accepted proof is not accepted: {other:?}"));
            return (0, 0);
        }
    }
    let accepted = |what: String| -> Result<String, String> {
        if constant_trace {
            ctx.count("tamper_accepted_on_constant_trace", 1);
            Ok("accepted:constant-trace-position-independent".to_string())
        } else {
            Err(what)
        }
    };
    let judge = |t: &Value, what: String, class: String| -> Result<String, String> {
        ctx.transition(1);
        match verify(t) {
            None => Ok(format!("undecodable|{class}")),
            Some(Verdict::Accepted) => accepted(what),
            Some(v) => {
                if matches!(v, Verdict::Panicked(_)) {
                    ctx.count("tamper_panic", 1);
                }
                Ok(format!("{}|{class}", v.class()))
            }
        }
    };
    let (leaves, lists) = json_paths(tree);
    ctx.count("tamper_leaves", leaves.len() as u64);
    ctx.count("tamper_lists", lists.len() as u64);
    for p in &leaves {
        let case = format!("{prefix}leaf {}", path_string(p));
        let site = format!("verify/tampered-proof-accepted:{}", path_class(p));
        if ctx.want(&case) {
            ctx.state(1);
        }
        ctx.case(&site, &case, || judge(&leaf_plus_one(tree, p), format!("leaf {} changed by +1, proof still accepted", path_string(p)), path_class(p)));
    }
    for p in &lists {
        for (tag, mutn) in [("drop-last", ListMut::DropLast), ("dup-last", ListMut::DupLast), ("null", ListMut::Null)] {
            let case = format!("{prefix}list {} {tag}", path_string(p));
            let site = format!("verify/tampered-proof-accepted:{}:{tag}", path_class(p));
            if ctx.want(&case) {
                ctx.state(1);
            }
            ctx.case(&site, &case, || match list_mutate(tree, p, mutn) {
                None => Ok(String::new()),
                Some(t) => judge(&t, format!("list {} {tag}, proof still accepted", path_string(p)), format!("{}:{tag}", path_class(p))),
            });
        }
    }
    (leaves.len(), lists.len())
}

// ---------------------------------------------------------------------------------------------
// Single-table lookups (logUp): oracle and trace helper

#[derive(Clone, Debug, PartialEq, Eq)]
pub struct LookupFailure {
    pub lookup: usize,
    pub value: u64,
    /// sum of the filter values of the looking cells holding `value` (mod p)
    pub looking: u64,
    /// sum of the frequency cells of the table rows holding `value` (mod p)
    pub looked: u64,
}

fn filter_value(f: &Option<FilterSpec>, rows: &Rows, row: usize) -> u64 {
    match f {
        None => 1,
        Some(f) => f.eval(rows, row),
    }
}

/// Oracle for `Def::lookups`: the logUp identity
/// `sum_{looking column i, row r} filter_i(r) / (X + f_i(r)) == sum_r freq(r) / (X + table(r))`
/// holds as an identity of rational functions iff, for every value v, the filter weights of the
/// looking cells equal to v sum to the frequencies of the table rows equal to v (mod p). For boolean
/// filters and a table without repeated values this is "every filtered looking value occurs in the
/// table and the frequency column holds the true counts". Plain BTreeMap counters.
pub fn check_lookups(def: &Def, rows: &Rows) -> Vec<LookupFailure> {
    use std::collections::BTreeMap;
    let n = rows.len();
    let mut out = Vec::new();
    for (li, l) in def.lookups.iter().enumerate() {
        let mut w: BTreeMap<u64, (u64, u64)> = BTreeMap::new();
        for r in 0..n {
            for (c, f) in l.columns.iter().zip(&l.filters) {
                let e = w.entry(c.eval(rows, r)).or_insert((0, 0));
                e.0 = addm(e.0, filter_value(f, rows, r));
            }
            let e = w.entry(l.table.eval(rows, r)).or_insert((0, 0));
            e.1 = addm(e.1, l.freq.eval(rows, r));
        }
        for (v, (a, b)) in w {
            if a != b {
                out.push(LookupFailure { lookup: li, value: v, looking: a, looked: b });
            }
        }
    }
    out
}

/// Writes honest frequencies: for every lookup whose frequency column is a single plain column, the
/// weight of each looked-up value goes to the first table row holding it, 0 elsewhere.
pub fn fill_frequencies(def: &Def, rows: &mut Rows) {
    use std::collections::BTreeMap;
    let n = rows.len();
    for l in &def.lookups {
        assert!(l.freq.lin.len() == 1 && l.freq.lin[0].1 == 1 && l.freq.next.is_empty() && l.freq.konst == 0, "frequency column must be a plain column");
        let fc = l.freq.lin[0].0;
        let mut w: BTreeMap<u64, u64> = BTreeMap::new();
        for r in 0..n {
            for (c, f) in l.columns.iter().zip(&l.filters) {
                let e = w.entry(c.eval(rows, r)).or_insert(0);
                *e = addm(*e, filter_value(f, rows, r));
            }
        }
        for r in 0..n {
            rows[r][fc] = 0;
        }
        for r in 0..n {
            let t = l.table.eval(rows, r);
            if let Some(x) = w.remove(&t) {
                rows[r][fc] = x;
            }
        }
    }
}

// ---------------------------------------------------------------------------------------------
// Cross-table lookups: a minimal multi-table driver (public starky API only) and its oracle.
//
// Flow (crate docs / the zk_evm consumer): commit every trace -> one challenger observes all trace
// caps -> `get_ctl_data` draws the shared CTL challenges and builds the running sums ->
// `prove_with_commitment` per table on the same challenger. Verifier: observe all trace caps, redraw
// the CTL challenges, per table `CtlCheckVars::from_proof` + `get_challenges(ignore_trace_cap = true)`
// + `verify_stark_proof_with_challenges`, finally `verify_cross_table_lookups` on the first-row
// openings. `prove_with_commitment` documents that it does NOT observe the config while the
// verifier-side `get_challenges` does, so the driver observes the config before each table's proof.

/// One side of a cross-table lookup: table index, column combinations, filter (None = always on).
#[derive(Clone, Debug)]
pub struct TwcSpec {
    pub table: usize,
    pub columns: Vec<ColSpec>,
    pub filter: Option<FilterSpec>,
}

#[derive(Clone, Debug)]
pub struct CtlSpec {
    pub looking: Vec<TwcSpec>,
    pub looked: TwcSpec,
    /// extra looking rows that belong to no table (`ctl_extra_looking_sums`)
    pub extra: Vec<Vec<u64>>,
}

impl TwcSpec {
    fn to_twc(&self) -> starky::cross_table_lookup::TableWithColumns<F> {
        starky::cross_table_lookup::TableWithColumns::new(
            self.table,
            self.columns.iter().map(|c| c.to_column()).collect(),
            self.filter.as_ref().map(|f| f.to_filter()).unwrap_or_default(),
        )
    }
}

fn to_ctls(ctls: &[CtlSpec]) -> Vec<starky::cross_table_lookup::CrossTableLookup<F>> {
    ctls.iter()
        .map(|c| starky::cross_table_lookup::CrossTableLookup::new(c.looking.iter().map(|t| t.to_twc()).collect(), c.looked.to_twc()))
        .collect()
}

#[derive(Clone, Debug, PartialEq, Eq)]
pub struct CtlFailure {
    pub ctl: usize,
    pub tuple: Vec<u64>,
    pub looking: u64,
    pub looked: u64,
}

/// Oracle: for each CTL, the multiset of filtered looking rows (all looking tables, plus the extra
/// rows) equals the multiset of filtered looked rows; a filter value is the row's weight (mod p).
pub fn check_ctls(tables: &[Rows], ctls: &[CtlSpec]) -> Vec<CtlFailure> {
    use std::collections::BTreeMap;
    let mut out = Vec::new();
    for (ci, ctl) in ctls.iter().enumerate() {
        let mut w: BTreeMap<Vec<u64>, (u64, u64)> = BTreeMap::new();
        let mut add = |t: &TwcSpec, looked: bool, w: &mut BTreeMap<Vec<u64>, (u64, u64)>| {
            let rows = &tables[t.table];
            for r in 0..rows.len() {
                let f = filter_value(&t.filter, rows, r);
                if f == 0 {
                    continue;
                }
                let tuple: Vec<u64> = t.columns.iter().map(|c| c.eval(rows, r)).collect();
                let e = w.entry(tuple).or_insert((0, 0));
                if looked {
                    e.1 = addm(e.1, f);
                } else {
                    e.0 = addm(e.0, f);
                }
            }
        };
        for t in &ctl.looking {
            add(t, false, &mut w);
        }
        add(&ctl.looked, true, &mut w);
        for row in &ctl.extra {
            let e = w.entry(row.iter().map(|x| x % P).collect()).or_insert((0, 0));
            e.0 = addm(e.0, 1);
        }
        for (tuple, (a, b)) in w {
            if a != b {
                out.push(CtlFailure { ctl: ci, tuple, looking: a, looked: b });
            }
        }
    }
    out
}

fn ctl_extra_sums(ctls: &[CtlSpec], challenges: &starky::lookup::GrandProductChallengeSet<F>) -> hashbrown::HashMap<usize, Vec<F>> {
    let mut m = hashbrown::HashMap::new();
    for (i, c) in ctls.iter().enumerate() {
        if c.extra.is_empty() {
            continue;
        }
        let sums = challenges
            .challenges
            .iter()
            .map(|ch| {
                c.extra
                    .iter()
                    .map(|row| {
                        let row = to_field(row);
                        ch.combine::<F, F, _, 1>(row.iter()).inverse()
                    })
                    .sum::<F>()
            })
            .collect();
        m.insert(i, sums);
    }
    m
}

fn ctl_prove_n<const N: usize>(defs: &[Def], tables: &[Rows], ctls: &[CtlSpec], cfg: &StarkConfig) -> anyhow::Result<Vec<Proof>> {
    use plonky2::fri::oracle::PolynomialBatch;
    use plonky2::iop::challenger::Challenger;
    use plonky2::plonk::config::GenericConfig;
    let degree = defs[0].degree;
    let lib_ctls = to_ctls(ctls);
    let mut timing = TimingTree::default();
    let traces: [Vec<PolynomialValues<F>>; N] = core::array::from_fn(|i| to_poly_values(&tables[i], defs[i].cols));
    let commitments: Vec<PolynomialBatch<F, C, D>> = traces
        .iter()
        .map(|t| PolynomialBatch::<F, C, D>::from_values(t.clone(), cfg.fri_config.rate_bits, false, cfg.fri_config.cap_height, &mut timing, None))
        .collect();
    let mut challenger = Challenger::<F, <C as GenericConfig<D>>::Hasher>::new();
    for c in &commitments {
        challenger.observe_cap(&c.merkle_tree.cap);
    }
    let (ctl_challenges, ctl_data) = starky::cross_table_lookup::get_ctl_data::<F, C, D, N>(cfg, &traces, &lib_ctls, &mut challenger, degree);
    let mut proofs = Vec::new();
    for i in 0..N {
        cfg.observe(&mut challenger);
        let def = &defs[i];
        let p = with_model_stark!(
            def,
            S,
            starky::prover::prove_with_commitment::<F, C, S, D>(
                &S::new(def),
                cfg,
                &traces[i],
                &commitments[i],
                Some(&ctl_data[i]),
                Some(&ctl_challenges),
                &mut challenger,
                &[],
                None,
                None,
                &mut timing,
            )
        )?;
        proofs.push(p);
    }
    Ok(proofs)
}

fn ctl_verify_n<const N: usize>(defs: &[Def], ctls: &[CtlSpec], cfg: &StarkConfig, proofs: &[Proof]) -> anyhow::Result<()> {
    use plonky2::iop::challenger::Challenger;
    use plonky2::plonk::config::GenericConfig;
    use starky::cross_table_lookup::{verify_cross_table_lookups, CrossTableLookup, CtlCheckVars};
    anyhow::ensure!(proofs.len() == N, "wrong number of table proofs");
    let degree = defs[0].degree;
    let lib_ctls = to_ctls(ctls);
    let mut challenger = Challenger::<F, <C as GenericConfig<D>>::Hasher>::new();
    for p in proofs {
        challenger.observe_cap(&p.proof.trace_cap);
    }
    let ctl_challenges = starky::lookup::get_grand_product_challenge_set(&mut challenger, cfg.num_challenges);
    for i in 0..N {
        let def = &defs[i];
        let (total_helpers, _num_zs, helpers_by_ctl) = CrossTableLookup::num_ctl_helpers_zs_all(&lib_ctls, i, cfg.num_challenges, degree);
        with_model_stark!(def, S, {
            let stark = S::new(def);
            let num_lookup_columns = stark.num_lookup_helper_columns(cfg);
            let ctl_vars = CtlCheckVars::from_proof::<C>(i, &proofs[i].proof, &lib_ctls, &ctl_challenges, num_lookup_columns, total_helpers, &helpers_by_ctl);
            let challenges = proofs[i].get_challenges(&stark, &mut challenger, Some(&ctl_challenges), Some(&ctl_vars), true, cfg, None);
            starky::verifier::verify_stark_proof_with_challenges::<F, C, S, D>(&stark, &proofs[i].proof, &challenges, Some(&ctl_vars), &proofs[i].public_inputs, cfg)
        })?;
    }
    let mut firsts: Vec<Vec<F>> = Vec::new();
    for p in proofs {
        firsts.push(p.proof.openings.ctl_zs_first.clone().ok_or_else(|| anyhow::anyhow!("missing ctl_zs_first"))?);
    }
    let firsts: [Vec<F>; N] = core::array::from_fn(|i| firsts[i].clone());
    verify_cross_table_lookups::<F, D, N>(&lib_ctls, firsts, &ctl_extra_sums(ctls, &ctl_challenges), cfg)
}

/// Preconditions of the driver: 1..=3 tables, all of the same declared degree (the CTL helper
/// batching uses one `constraint_degree` for the whole system), `ctl == true`, no public inputs.
pub fn ctl_system_ok(defs: &[Def]) -> bool {
    (1..=3).contains(&defs.len()) && defs.iter().all(|d| d.ctl && d.pis == 0 && d.degree == defs[0].degree && d.degree >= 3)
}

/// Proves a multi-table system; one proof per table.
pub fn ctl_prove(defs: &[Def], tables: &[Rows], ctls: &[CtlSpec], cfg: &StarkConfig, lenient: bool) -> Result<Vec<Proof>, String> {
    ctl_prove_adv(defs, tables, ctls, cfg, lenient, None)
}

/// Same with the adversarial running-sum strategy of hook H3c: `balance = Some(0)` shifts the whole Z
/// column of the first looking table, `Some(1)` that of the looked table, so that the first-row values
/// balance whatever the tables contain (every row-to-row difference and every helper column stays honest).
pub fn ctl_prove_adv(defs: &[Def], tables: &[Rows], ctls: &[CtlSpec], cfg: &StarkConfig, lenient: bool, balance: Option<u8>) -> Result<Vec<Proof>, String> {
    assert!(ctl_system_ok(defs) && defs.len() == tables.len());
    starky::verif_hooks::knobs::set_ctl_balance(balance);
    starky::verif_hooks::knobs::set_lenient_quotient(lenient);
    plonky2_field::verif_hooks::set_seed(Some(0x5eed_c10));
    let r = guarded(|| match defs.len() {
        1 => ctl_prove_n::<1>(defs, tables, ctls, cfg),
        2 => ctl_prove_n::<2>(defs, tables, ctls, cfg),
        _ => ctl_prove_n::<3>(defs, tables, ctls, cfg),
    });
    plonky2_field::verif_hooks::set_seed(None);
    starky::verif_hooks::knobs::set_lenient_quotient(false);
    starky::verif_hooks::knobs::set_ctl_balance(None);
    match r {
        Ok(Ok(p)) => Ok(p),
        Ok(Err(e)) => Err(format!("error: {e:#}")),
        Err(p) => Err(format!("panic: {p}")),
    }
}

/// Verifies a multi-table system.
pub fn ctl_verify(defs: &[Def], ctls: &[CtlSpec], cfg: &StarkConfig, proofs: &[Proof]) -> Verdict {
    let r = guarded(|| match defs.len() {
        1 => ctl_verify_n::<1>(defs, ctls, cfg, proofs),
        2 => ctl_verify_n::<2>(defs, ctls, cfg, proofs),
        _ => ctl_verify_n::<3>(defs, ctls, cfg, proofs),
    });
    match r {
        Ok(Ok(())) => Verdict::Accepted,
        Ok(Err(e)) => Verdict::Rejected(format!("{e:#}")),
        Err(p) => Verdict::Panicked(p),
    }
}

// ---------------------------------------------------------------------------------------------
// Lookup members of the family (single-table logUp lookups). Generators leave the frequency
// columns at 0; `Member::trace` fills them with the true counts.

impl Member {
    /// Satisfying trace + public inputs (frequencies of declared lookups filled in).
    pub fn trace(&self, n: usize, choice: usize) -> (Rows, Vec<u64>) {
        let (mut rows, pis) = (self.gen)(n, choice);
        if !self.def.lookups.is_empty() {
            fill_frequencies(&self.def, &mut rows);
        }
        (rows, pis)
    }
}

#[derive(Clone, Copy)]
enum TableKind {
    Counter,
    Permuted,
    Repeated,
    High,
}

fn table_col(kind: TableKind, n: usize) -> Vec<u64> {
    (0..n as u64)
        .map(|r| match kind {
            TableKind::Counter => r,
            TableKind::Permuted => (5 * r + 3) % n as u64,
            TableKind::Repeated => r / 2,
            TableKind::High => P - 1 - r,
        })
        .collect()
}

/// Looking column j: values drawn from the table (with repetitions, leaving some table values unused).
fn looking_col(table: &[u64], j: usize, ch: usize) -> Vec<u64> {
    let n = table.len();
    (0..n).map(|r| table[(r * r + 3 * j + ch) % n]).collect()
}

fn filter_col(n: usize, ch: usize) -> Vec<u64> {
    (0..n).map(|r| ((r + ch) % 3 != 0) as u64).collect()
}

/// Rows whose filter is 0 get a value that is NOT in the table: they must be ignored.
fn mask_absent(col: &mut [u64], filter: &[u64]) {
    for (r, v) in col.iter_mut().enumerate() {
        if filter[r] == 0 {
            *v = 1_000_003 + r as u64;
        }
    }
}

fn gen_lk1_counter(n: usize, ch: usize) -> (Rows, Vec<u64>) {
    let t = table_col(TableKind::Counter, n);
    (from_cols(vec![looking_col(&t, 0, ch), t, vec![0; n]]), vec![])
}
fn gen_lk1_perm(n: usize, ch: usize) -> (Rows, Vec<u64>) {
    let t = table_col(TableKind::Permuted, n);
    (from_cols(vec![looking_col(&t, 0, ch), t, vec![0; n]]), vec![])
}
fn gen_lk1_dup(n: usize, ch: usize) -> (Rows, Vec<u64>) {
    let t = table_col(TableKind::Repeated, n);
    (from_cols(vec![looking_col(&t, 0, ch), t, vec![0; n]]), vec![])
}
fn gen_lk2(n: usize, ch: usize) -> (Rows, Vec<u64>) {
    let t = table_col(TableKind::High, n);
    (from_cols(vec![looking_col(&t, 0, ch), looking_col(&t, 1, ch), t, vec![0; n]]), vec![])
}
fn gen_lk3f(n: usize, ch: usize) -> (Rows, Vec<u64>) {
    let t = table_col(TableKind::Permuted, n);
    let f = filter_col(n, ch);
    let mut l2 = looking_col(&t, 2, ch);
    mask_absent(&mut l2, &f);
    (from_cols(vec![looking_col(&t, 0, ch), looking_col(&t, 1, ch), l2, t, vec![0; n], f]), vec![])
}
fn gen_lk5(n: usize, ch: usize) -> (Rows, Vec<u64>) {
    let t = table_col(TableKind::Counter, n);
    let f = filter_col(n, ch);
    let mut l0 = looking_col(&t, 0, ch);
    let mut l4 = looking_col(&t, 4, ch);
    mask_absent(&mut l0, &f);
    mask_absent(&mut l4, &f);
    (from_cols(vec![l0, looking_col(&t, 1, ch), looking_col(&t, 2, ch), looking_col(&t, 3, ch), l4, t, vec![0; n], f]), vec![])
}
fn gen_lk_lin(n: usize, ch: usize) -> (Rows, Vec<u64>) {
    // looking value 2*a + 3 with a in 0..n; table 2*r + 3
    let a: Vec<u64> = (0..n).map(|r| ((r * r + ch) % n) as u64).collect();
    let t: Vec<u64> = (0..n as u64).map(|r| 2 * r + 3).collect();
    (from_cols(vec![a, t, vec![0; n]]), vec![])
}
fn gen_lk_two(n: usize, ch: usize) -> (Rows, Vec<u64>) {
    let t0 = table_col(TableKind::Counter, n);
    let t1 = table_col(TableKind::High, n);
    (from_cols(vec![looking_col(&t0, 0, ch), t0, vec![0; n], looking_col(&t1, 1, ch), t1, vec![0; n]]), vec![])
}

/// gen_lk3f with looking column 2 rotated down by one row: the declared lookup reads it on the NEXT row.
fn gen_lk3f_next(n: usize, ch: usize) -> (Rows, Vec<u64>) {
    let (mut rows, pis) = gen_lk3f(n, ch);
    let old: Vec<u64> = rows.iter().map(|r| r[2]).collect();
    for r in 0..n {
        rows[(r + 1) % n][2] = old[r];
    }
    (rows, pis)
}
/// Looking value split over three columns with weights (1, base, base^2); table = counter.
fn gen_lk_split<const BASE: u64>(n: usize, ch: usize) -> (Rows, Vec<u64>) {
    let t = table_col(TableKind::Counter, n);
    let v = looking_col(&t, 0, ch);
    let (mut a, mut b, mut c) = (vec![], vec![], vec![]);
    for (r, &x) in v.iter().enumerate() {
        if BASE == 1 {
            // x = a + b + c with field-sized summands
            let s = 7 + r as u64;
            a.push(x);
            b.push(s);
            c.push(negm(s));
        } else {
            a.push(x % BASE);
            b.push((x / BASE) % BASE);
            c.push(x / (BASE * BASE));
        }
    }
    (from_cols(vec![a, b, c, t, vec![0; n], filler(n, 5, ch)]), vec![])
}
fn gen_lk_lin0(n: usize, ch: usize) -> (Rows, Vec<u64>) {
    let a: Vec<u64> = (0..n).map(|r| ((r * r + ch) % n) as u64).collect();
    let t: Vec<u64> = (0..n as u64).map(|r| 2 * r).collect();
    (from_cols(vec![a, t, vec![0; n]]), vec![])
}
/// Filter identically zero: the looking column holds values that are NOT in the table.
fn gen_lk1_filter_zero(n: usize, ch: usize) -> (Rows, Vec<u64>) {
    let t = table_col(TableKind::Counter, n);
    let absent: Vec<u64> = (0..n as u64).map(|r| (1 << 40) + r * 3 + ch as u64).collect();
    (from_cols(vec![absent, t, vec![0; n]]), vec![])
}

/// Members that reach every public `Column` / `Filter` constructor (same traces and meanings as the
/// members above, another route through the API).
fn constructor_members() -> Vec<Member> {
    let m = |def: Def, gen: Gen| Member { def, gen };
    let s = |c: usize, k: Ctor| ColSpec::single(c).via(k);
    let mut v = Vec::new();
    // singular / plural constructors
    let mut l = plain_lookup(&[0, 1], 2, 3);
    l.columns = vec![s(0, Ctor::Singles), s(1, Ctor::Single)];
    l.table = s(2, Ctor::Single);
    l.freq = s(3, Ctor::Singles);
    v.push(m(lookup_def("lkc_singles_d2", 4, 2, vec![l], vec![]), gen_lk2));
    // next-row constructors under a filter that is not always on
    for (name, k) in [("lkc_next_plural_d3", Ctor::SinglesNext), ("lkc_next_single_d3", Ctor::SingleNext)] {
        let mut l3 = plain_lookup(&[0, 1, 2], 3, 4);
        l3.columns[2] = ColSpec::single_next(2).via(k);
        l3.filters[2] = Some(FilterSpec { products: vec![], constants: vec![ColSpec::single(5)] }); // Filter::new route (FilterSpec::simple takes new_simple)
        v.push(m(lookup_def(name, 6, 3, vec![l3], vec![]), gen_lk3f_next));
    }
    // weighted combinations
    for (name, k, base, gen) in [
        ("lkc_le_bits_d2", Ctor::LeBits, 2u64, gen_lk_split::<2> as Gen),
        ("lkc_le_bytes_d3", Ctor::LeBytes, 256, gen_lk_split::<256> as Gen),
        ("lkc_sum_d2", Ctor::Sum, 1, gen_lk_split::<1> as Gen),
    ] {
        let mut l = plain_lookup(&[0], 3, 4);
        l.columns[0] = ColSpec::lin(&[(0, 1), (1, base), (2, mulm(base, base))], 0).via(k);
        v.push(m(lookup_def(name, 6, if name.ends_with("d3") { 3 } else { 2 }, vec![l], vec![]), gen));
    }
    {
        // le_bits_with_constant: value - 1 split in bits, constant 1 added back
        let mut l = plain_lookup(&[0], 1, 2);
        l.columns[0] = ColSpec::lin(&[(0, 1)], 3).via(Ctor::LeBitsConst);
        l.table = ColSpec::lin(&[(1, 1)], 3).via(Ctor::LinCombConst);
        v.push(m(lookup_def("lkc_le_bits_const_d2", 3, 2, vec![l], vec![]), gen_lk1_counter));
    }
    let mut l = plain_lookup(&[0], 1, 2);
    l.columns[0] = ColSpec::lin(&[(0, 2)], 0).via(Ctor::LinComb);
    v.push(m(lookup_def("lkc_lincomb_d2", 3, 2, vec![l], vec![]), gen_lk_lin0));
    let mut l = plain_lookup(&[0], 1, 2);
    l.columns[0] = ColSpec::lin(&[(0, 2)], 3).via(Ctor::LinCombConst);
    v.push(m(lookup_def("lkc_lincomb_const_d3", 3, 3, vec![l], vec![]), gen_lk_lin));
    // constant filters
    let mut l = plain_lookup(&[0], 1, 2);
    l.filters[0] = Some(FilterSpec { products: vec![], constants: vec![ColSpec::constant(1).via(Ctor::One)] });
    v.push(m(lookup_def("lkc_filter_one_d2", 3, 2, vec![l], vec![]), gen_lk1_counter));
    let mut l = plain_lookup(&[0], 1, 2);
    l.filters[0] = Some(FilterSpec { products: vec![], constants: vec![ColSpec::constant(0).via(Ctor::Zero)] });
    v.push(m(lookup_def("lkc_filter_zero_d2", 3, 2, vec![l], vec![]), gen_lk1_filter_zero));
    v
}

fn lookup_def(name: &str, cols: usize, degree: usize, lookups: Vec<LookupSpec>, terms: Vec<Term>) -> Def {
    Def { name: name.to_string(), cols, pis: 0, degree, terms, lookups, ctl: false }
}

fn plain_lookup(looking: &[usize], table: usize, freq: usize) -> LookupSpec {
    LookupSpec {
        columns: looking.iter().map(|&c| ColSpec::single(c)).collect(),
        table: ColSpec::single(table),
        freq: ColSpec::single(freq),
        filters: vec![None; looking.len()],
    }
}

/// Model STARKs that declare single-table lookups. Looking columns 1, 2, 3, 5 (crossing the helper
/// batch size `constraint_degree - 1` for degrees 2 and 3); column kinds single / linear combination
/// with constant / next-row; filters none / single boolean column / product; tables counter /
/// permuted range / repeated values / large values; two lookups in one STARK; lookups next to
/// ordinary constraint terms.
fn gen_lk1_wide13(n: usize, ch: usize) -> (Rows, Vec<u64>) {
    let (mut rows, pis) = gen_lk1_counter(n, ch);
    for c in 3..13 {
        let f = filler(n, c, ch);
        for (r, row) in rows.iter_mut().enumerate() {
            row.push(f[r]);
        }
    }
    (rows, pis)
}
pub fn lookup_family() -> Vec<Member> {
    use Atom::*;
    use Kind::*;
    let m = |def: Def, gen: Gen| Member { def, gen };
    let mut v = Vec::new();
    for d in [2usize, 3] {
        v.push(m(lookup_def(&format!("lk1_counter_d{d}"), 3, d, vec![plain_lookup(&[0], 1, 2)], vec![]), gen_lk1_counter));
        v.push(m(lookup_def(&format!("lk2_high_d{d}"), 4, d, vec![plain_lookup(&[0, 1], 2, 3)], vec![]), gen_lk2));
        let mut l3 = plain_lookup(&[0, 1, 2], 3, 4);
        l3.filters[2] = Some(FilterSpec::simple(5));
        v.push(m(lookup_def(&format!("lk3_filter_d{d}"), 6, d, vec![l3], vec![]), gen_lk3f));
        let mut l5 = plain_lookup(&[0, 1, 2, 3, 4], 5, 6);
        l5.filters[0] = Some(FilterSpec::simple(7));
        l5.filters[4] = Some(FilterSpec { products: vec![(ColSpec::single(7), ColSpec::single(7))], constants: vec![] });
        v.push(m(lookup_def(&format!("lk5_prodfilter_d{d}"), 8, d, vec![l5], vec![]), gen_lk5));
    }
    v.push(m(lookup_def("lk1_perm_d2", 3, 2, vec![plain_lookup(&[0], 1, 2)], vec![]), gen_lk1_perm));
    v.push(m(lookup_def("lk1_dup_d3", 3, 3, vec![plain_lookup(&[0], 1, 2)], vec![]), gen_lk1_dup));
    let mut lin = plain_lookup(&[0], 1, 2);
    lin.columns[0] = ColSpec::lin(&[(0, 2)], 3);
    v.push(m(lookup_def("lk_lincomb_d3", 3, 3, vec![lin], vec![]), gen_lk_lin));
    let mut nx = plain_lookup(&[0], 1, 2);
    nx.columns[0] = ColSpec::single_next(0);
    v.push(m(lookup_def("lk_nextrow_d2", 3, 2, vec![nx], vec![]), gen_lk1_perm));
    let mut tn = plain_lookup(&[0], 1, 2);
    tn.table = ColSpec::single_next(1);
    v.push(m(lookup_def("lk_table_nextrow_d2", 3, 2, vec![tn], vec![]), gen_lk1_perm));
    v.push(m(lookup_def("lk_two_d3", 6, 3, vec![plain_lookup(&[0], 1, 2), plain_lookup(&[3], 4, 5)], vec![]), gen_lk_two));
    // wide: 2 * (13 trace + 2 auxiliary polynomials) simulated openings need two simulated points
    v.push(m(lookup_def("lk1_wide13_d2", 13, 2, vec![plain_lookup(&[0], 1, 2)], vec![]), gen_lk1_wide13));
    // the table column is additionally pinned to be the counter 0, 1, 2, ... by ordinary constraints
    v.push(m(
        lookup_def(
            "lk1_pinned_table_d2",
            3,
            2,
            vec![plain_lookup(&[0], 1, 2)],
            vec![term(FirstRow, &[], Local(1)), term(Transition, &[&[Local(1)], &[Const(1)]], Next(1))],
        ),
        gen_lk1_counter,
    ));
    v.extend(constructor_members());
    v
}
