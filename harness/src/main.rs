#![allow(clippy::all)]
#![allow(dead_code)]
mod core;
mod c01;
mod c02;
mod c03;
mod c04;
mod c04s;
mod c05;
mod c06;
mod c07;
mod c08;
mod c09;
mod c10;
mod c11;
mod c12;
mod c13;
mod c14;
mod c15;
mod c16;
mod c17;
mod c18;
mod c20;
mod plonkm;
mod recm;
mod starkm;
mod tamper;

use crate::core::*;

pub fn variant_name() -> String {
    let mut v = String::new();
    v.push_str(if cfg!(debug_assertions) { "chk" } else { "rel" });
    if cfg!(target_feature = "avx512f") {
        v.push_str("+avx512");
    } else if cfg!(target_feature = "avx2") {
        v.push_str("+avx2");
    }
    if cfg!(feature = "par") {
        v.push_str("+par");
    }
    v
}

fn main() {
    // glibc serves every allocation above 128 KiB with a fresh mmap (page faults, munmap): the
    // provers allocate many such buffers per case and 16 workers then spend most of their time in
    // the kernel. Keep large blocks on the heap instead.
    unsafe {
        libc::mallopt(libc::M_MMAP_THRESHOLD, 1 << 30);
        libc::mallopt(libc::M_TRIM_THRESHOLD, i32::MAX);
        libc::mallopt(libc::M_TOP_PAD, 1 << 28);
    }
    // anyhow captures a backtrace per error under a global lock when RUST_BACKTRACE is set in the
    // environment: every *rejected* verification would serialise the workers.
    if std::env::var("VERIF_BACKTRACE").is_err() {
        std::env::set_var("RUST_LIB_BACKTRACE", "0");
    }
    let args: Vec<String> = std::env::args().collect();
    if args.len() < 2 {
        eprintln!("usage: mc <ID> [--tier quick|thorough] [--replay <file>]");
        std::process::exit(2);
    }
    let id = args[1].clone();
    let mut tier = match std::env::var("VERIF_TIER").as_deref() {
        Ok("thorough") => Tier::Thorough,
        _ => Tier::Quick,
    };
    let mut filter: Option<String> = None;
    let mut i = 2;
    while i < args.len() {
        match args[i].as_str() {
            "--tier" => {
                tier = if args.get(i + 1).map(|s| s.as_str()) == Some("thorough") { Tier::Thorough } else { Tier::Quick };
                i += 1;
            }
            "--replay" => {
                let path = args.get(i + 1).expect("--replay <file>");
                let body = std::fs::read_to_string(path).expect("replay file");
                let v: serde_json::Value = serde_json::from_str(&body).expect("replay json");
                filter = Some(v["case"].as_str().expect("case").to_string());
                i += 1;
            }
            "--case" => {
                filter = Some(args.get(i + 1).expect("--case <descriptor>").clone());
                i += 1;
            }
            _ => {}
        }
        i += 1;
    }
    if std::env::var("VERIF_BACKTRACE").is_err() {
        silence_panics();
    }
    let ctx = Ctx::new(&id, tier, filter);
    let code = match id.as_str() {
        "C01" => c01::run(&ctx),
        "C02" => c02::run(&ctx),
        "C03" => c03::run(&ctx),
        "C04" => c04::run(&ctx),
        "C05" => c05::run(&ctx),
        "C06" => c06::run(&ctx),
        "C07" => c07::run(&ctx),
        "C08" => c08::run(&ctx),
        "C09" => c09::run(&ctx),
        "C10" => c10::run(&ctx),
        "C11" => c11::run(&ctx),
        "C12" => c12::run(&ctx),
        "C13" => c13::run(&ctx),
        "C16" => c16::run(&ctx),
        "C17" => c17::run(&ctx),
        "C18" => c18::run(&ctx),
        "C20" => c20::run(&ctx),
        "C14" => c14::run(&ctx),
        "C15" => c15::run(&ctx),
        _ => {
            eprintln!("unknown property {id}");
            2
        }
    };
    std::process::exit(code);
}
