#![allow(clippy::all)]
#![allow(dead_code)]
mod core;
#[cfg(not(feature = "c19slim"))]
mod c01;
mod c02;
#[cfg(not(feature = "c19slim"))]
mod c03;
#[cfg(not(feature = "c19slim"))]
mod c04;
#[cfg(not(feature = "c19slim"))]
mod c04s;
#[cfg(not(feature = "c19slim"))]
mod c05;
#[cfg(not(feature = "c19slim"))]
mod c06;
#[cfg(not(feature = "c19slim"))]
mod c07;
#[cfg(not(feature = "c19slim"))]
mod c08;
#[cfg(not(feature = "c19slim"))]
mod c09;
#[cfg(not(feature = "c19slim"))]
mod c10;
#[cfg(not(feature = "c19slim"))]
mod c11;
#[cfg(not(feature = "c19slim"))]
mod c12;
mod c13;
#[cfg(not(feature = "c19slim"))]
mod c14;
#[cfg(not(feature = "c19slim"))]
mod c15;
#[cfg(not(feature = "c19slim"))]
mod c16;
#[cfg(not(feature = "c19slim"))]
mod c17;
#[cfg(not(feature = "c19slim"))]
mod c18;
mod c19;
#[cfg(not(feature = "c19slim"))]
mod c20;
mod plonkm;
mod recm;
mod starkm;
mod tamper;

use crate::core::*;

pub fn variant_name() -> String {
    let mut v = String::new();
    v.push_str(if cfg!(debug_assertions) { "chk" } else { "rel" });
    if cfg!(target_feature = "avx512f") {
        v.push_str("+avx512");
    } else if cfg!(target_feature = "avx2") {
        v.push_str("+avx2");
    }
    if cfg!(feature = "par") {
        v.push_str("+par");
    }
    v
}

fn main() {
    // glibc serves every allocation above 128 KiB with a fresh mmap (page faults, munmap): the
    // provers allocate many such buffers per case and 16 workers then spend most of their time in
    // the kernel. Keep large blocks on the heap instead.
    unsafe {
        libc::mallopt(libc::M_MMAP_THRESHOLD, 1 << 30);
        libc::mallopt(libc::M_TRIM_THRESHOLD, i32::MAX);
        libc::mallopt(libc::M_TOP_PAD, 1 << 28);
    }
    // anyhow captures a backtrace per error under a global lock when RUST_BACKTRACE is set in the
    // environment: every *rejected* verification would serialise the workers.
    if std::env::var("VERIF_BACKTRACE").is_err() {
        std::env::set_var("RUST_LIB_BACKTRACE", "0");
    }
    let args: Vec<String> = std::env::args().collect();
    if args.len() < 2 {
        eprintln!("usage: mc <ID> [--tier quick|thorough] [--replay <file>]");
        std::process::exit(2);
    }
    let id = args[1].clone();
    let mut tier = match std::env::var("VERIF_TIER").as_deref() {
        Ok("thorough") => Tier::Thorough,
        _ => Tier::Quick,
    };
    let mut filter: Option<String> = None;
    let mut i = 2;
    while i < args.len() {
        match args[i].as_str() {
            "--tier" => {
                tier = if args.get(i + 1).map(|s| s.as_str()) == Some("thorough") { Tier::Thorough } else { Tier::Quick };
                i += 1;
            }
            "--replay" => {
                let path = args.get(i + 1).expect("--replay <file>");
                let body = std::fs::read_to_string(path).expect("replay file");
                let v: serde_json::Value = serde_json::from_str(&body).expect("replay json");
                filter = Some(v["case"].as_str().expect("case").to_string());
                i += 1;
            }
            "--case" => {
                filter = Some(args.get(i + 1).expect("--case <descriptor>").clone());
                i += 1;
            }
            _ => {}
        }
        i += 1;
    }
    if std::env::var("VERIF_BACKTRACE").is_err() {
        silence_panics();
    }
    let ctx = Ctx::new(&id, tier, filter);
    let code = match id.as_str() {
        #[cfg(not(feature = "c19slim"))]
        "C01" => c01::run(&ctx),
        "C02" => c02::run(&ctx),
        #[cfg(not(feature = "c19slim"))]
        "C03" => c03::run(&ctx),
        #[cfg(not(feature = "c19slim"))]
        "C04" => c04::run(&ctx),
        #[cfg(not(feature = "c19slim"))]
        "C05" => c05::run(&ctx),
        #[cfg(not(feature = "c19slim"))]
        "C06" => c06::run(&ctx),
        #[cfg(not(feature = "c19slim"))]
        "C07" => c07::run(&ctx),
        #[cfg(not(feature = "c19slim"))]
        "C08" => c08::run(&ctx),
        #[cfg(not(feature = "c19slim"))]
        "C09" => c09::run(&ctx),
        #[cfg(not(feature = "c19slim"))]
        "C10" => c10::run(&ctx),
        #[cfg(not(feature = "c19slim"))]
        "C11" => c11::run(&ctx),
        #[cfg(not(feature = "c19slim"))]
        "C12" => c12::run(&ctx),
        "C13" => c13::run(&ctx),
        #[cfg(not(feature = "c19slim"))]
        "C16" => c16::run(&ctx),
        #[cfg(not(feature = "c19slim"))]
        "C17" => c17::run(&ctx),
        #[cfg(not(feature = "c19slim"))]
        "C18" => c18::run(&ctx),
        "C19" => c19::run(&ctx),
        "C19-keygen" => c19::keygen_main(&args[2..]),
        "C19-verify" => c19::verify_main(&args[2..]),
        #[cfg(not(feature = "c19slim"))]
        "C20" => c20::run(&ctx),
        #[cfg(not(feature = "c19slim"))]
        "C14" => c14::run(&ctx),
        #[cfg(not(feature = "c19slim"))]
        "C15" => c15::run(&ctx),
        _ => {
            eprintln!("unknown property {id}");
            2
        }
    };
    std::process::exit(code);
}
