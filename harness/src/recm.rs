//! Recursion helpers shared by C06, C17, C19, C20: inner circuits, outer verifier circuits built
//! once, and assignment of (possibly invalid) inner proofs through the library's own routines.

use plonky2::fri::reduction_strategies::FriReductionStrategy;
use plonky2::iop::generator::generate_partial_witness;
use plonky2::iop::witness::{PartialWitness, WitnessWrite};
use plonky2::plonk::circuit_builder::CircuitBuilder;
use plonky2::plonk::circuit_data::{CircuitConfig, CircuitData, CommonCircuitData, VerifierCircuitTarget, VerifierOnlyCircuitData};
use plonky2::plonk::proof::{ProofWithPublicInputs, ProofWithPublicInputsTarget};

use crate::core::*;
use crate::plonkm::*;

/// A recursion-friendly small configuration: few queries, constant arity so that the in-circuit
/// verifier needs one interpolation gate parameterisation.
pub fn rec_config(queries: usize, arity_bits: usize, final_bits: usize, cap: usize, pow: u32) -> CircuitConfig {
    let mut c = cfg_small(queries, pow);
    c.fri_config.reduction_strategy = FriReductionStrategy::ConstantArityBits(arity_bits, final_bits);
    c.fri_config.cap_height = cap;
    fix_security(&mut c);
    c
}

pub struct Outer {
    pub data: CircuitData<F, PC, D>,
    pub pt: ProofWithPublicInputsTarget<D>,
    pub vdt: VerifierCircuitTarget,
}

/// Outer circuit: verify one inner proof and re-expose the inner public inputs.
pub fn build_outer(inner_common: &CommonCircuitData<F, D>, outer_cfg: &CircuitConfig) -> Outer {
    let mut builder = CircuitBuilder::<F, D>::new(outer_cfg.clone());
    let pt = builder.add_virtual_proof_with_pis(inner_common);
    let vdt = builder.add_virtual_verifier_data(inner_common.config.fri_config.cap_height);
    builder.verify_proof::<PC>(&pt, &vdt, inner_common);
    builder.register_public_inputs(&pt.public_inputs);
    let data = builder.build::<PC>();
    Outer { data, pt, vdt }
}

/// Assignment through the library's own witness-assignment routines. Err = the routine refused
/// (shape mismatch) or panicked.
pub fn outer_pw(
    outer: &Outer,
    proof: &ProofWithPublicInputs<F, PC, D>,
    vo: &VerifierOnlyCircuitData<PC, D>,
) -> Result<PartialWitness<F>, String> {
    let r = guarded(|| {
        let mut pw = PartialWitness::new();
        pw.set_proof_with_pis_target(&outer.pt, proof)?;
        pw.set_verifier_data_target(&outer.vdt, vo)?;
        Ok::<_, anyhow::Error>(pw)
    });
    match r {
        Ok(Ok(pw)) => Ok(pw),
        Ok(Err(e)) => Err(format!("assign-err: {e}")),
        Err(p) => Err(format!("assign-panic: {p}")),
    }
}

/// Outcome of pushing an assignment through witness generation and the satisfaction oracle.
/// Ok(values) = generation succeeded AND the witness satisfies the outer circuit.
pub fn outer_accepts(outer: &Outer, sc: &SatCtx, pw: PartialWitness<F>) -> Result<Vec<F>, String> {
    let r = guarded(|| generate_partial_witness(pw, &outer.data.prover_only, &outer.data.common));
    let w = match r {
        Err(p) => return Err(format!("witgen-panic: {}", truncate(&p, 80))),
        Ok(Err(e)) => return Err(format!("witgen-err: {}", truncate(&e.to_string(), 80))),
        Ok(Ok(w)) => w,
    };
    let n = outer.data.prover_only.representative_map.len();
    let values: Vec<F> = (0..n).map(|i| w.values[outer.data.prover_only.representative_map[i]].unwrap_or(plonky2::field::types::Field::ZERO)).collect();
    let nw = outer.data.common.config.num_wires;
    let degree = outer.data.common.degree();
    let pis: Vec<F> = outer.data.prover_only.public_inputs.iter().map(|t| values[t.index(nw, degree)]).collect();
    sat(&outer.data, sc, &values, &pis).map_err(|e| format!("unsat: {e}"))?;
    Ok(values)
}
