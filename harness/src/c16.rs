//! C16 — proof compression is lossless and verification-equivalent.
//!
//! The query-index multiset of a proof is steered through the proof-of-work witness (knob H1d with
//! proof_of_work_bits = 0: every witness is admissible and each one yields a different index tuple
//! for the same statement), so one small circuit produces proofs for a large part of ALL index
//! tuples of its LDE domain — equal indices, indices sharing a coset at layer 0 / 1 / 2 only, same
//! cap sub-tree. For every such proof: decompress(compress(p)) == p, bytes round trip of the
//! compressed form, verify(p) and verify_compressed(compress(p)) both accept. Verification
//! equivalence on invalid proofs: every leaf-tampered p' satisfies
//! verify(p') Ok <=> verify_compressed(compress(p')) Ok.

use std::collections::{BTreeMap, BTreeSet};

use plonky2::fri::reduction_strategies::FriReductionStrategy;
use plonky2::plonk::circuit_data::CircuitConfig;
use plonky2::plonk::config::GenericConfig;
use plonky2::plonk::proof::{CompressedProofWithPublicInputs, ProofWithPublicInputs};
use plonky2::verif_hooks::knobs::{self, Knobs};
use serde_json::json;

use crate::c02::subject_programs;
use crate::core::*;
use crate::plonkm::*;
use crate::tamper::*;

fn steer_config(queries: usize, strategy: FriReductionStrategy, cap: usize) -> CircuitConfig {
    let mut c = cfg_small(queries, 0);
    c.fri_config.reduction_strategy = strategy;
    c.fri_config.cap_height = cap;
    fix_security(&mut c);
    c
}

/// Collision pattern of an index tuple under an arity schedule: number of distinct values at each
/// layer (layer 0 = the indices themselves, layer k = after k reductions) and in the cap.
fn pattern(indices: &[usize], arities: &[usize], lde_bits: usize, cap_height: usize) -> String {
    let mut cur: Vec<usize> = indices.to_vec();
    let mut parts = Vec::new();
    let distinct = |v: &Vec<usize>| v.iter().collect::<BTreeSet<_>>().len();
    parts.push(distinct(&cur));
    for a in arities {
        cur = cur.iter().map(|x| x >> a).collect();
        parts.push(distinct(&cur));
    }
    let caps: Vec<usize> = indices.iter().map(|x| x >> (lde_bits - cap_height)).collect();
    format!("layers{:?}cap{}", parts, distinct(&caps))
}

fn roundtrip<Cfg: GenericConfig<D, F = F>>(
    data: &plonky2::plonk::circuit_data::CircuitData<F, Cfg, D>,
    proof: &ProofWithPublicInputs<F, Cfg, D>,
) -> Result<(), String> {
    let digest = &data.verifier_only.circuit_digest;
    let comp = match guarded(|| proof.clone().compress(digest, &data.common)) {
        Ok(Ok(c)) => c,
        Ok(Err(e)) => return Err(format!("compress failed: {e}")),
        Err(p) => return Err(format!("compress panicked: {p}")),
    };
    let back = match guarded(|| comp.clone().decompress(digest, &data.common)) {
        Ok(Ok(p)) => p,
        Ok(Err(e)) => return Err(format!("decompress failed: {e}")),
        Err(p) => return Err(format!("decompress panicked: {p}")),
    };
    if &back != proof {
        return Err("decompress(compress(p)) != p".into());
    }
    let bytes = comp.to_bytes();
    match guarded(|| CompressedProofWithPublicInputs::<F, Cfg, D>::from_bytes(bytes.clone(), &data.common)) {
        Ok(Ok(c2)) => {
            if c2 != comp {
                return Err("from_bytes(to_bytes(compressed)) != compressed".into());
            }
        }
        other => return Err(format!("compressed from_bytes failed: {:?}", other.map(|r| r.map(|_| ()).map_err(|e| e.to_string())))),
    }
    match guarded(|| data.verify(proof.clone())) {
        Ok(Ok(())) => {}
        other => return Err(format!("verify rejects: {:?}", other.map(|r| r.map_err(|e| e.to_string())))),
    }
    match guarded(|| data.verify_compressed(comp.clone())) {
        Ok(Ok(())) => {}
        other => return Err(format!("verify_compressed rejects the compression of an accepted proof: {:?}", other.map(|r| r.map_err(|e| e.to_string())))),
    }
    Ok(())
}

pub fn run(ctx: &Ctx) -> i32 {
    let thorough = ctx.tier.thorough();
    let progs = subject_programs();
    // 1. steered index tuples
    let schedules: Vec<(&str, FriReductionStrategy)> = vec![
        ("none", FriReductionStrategy::Fixed(vec![])),
        ("a1", FriReductionStrategy::Fixed(vec![1])),
        ("a1_1", FriReductionStrategy::Fixed(vec![1, 1])),
        ("a2", FriReductionStrategy::Fixed(vec![2])),
        ("a2_1", FriReductionStrategy::Fixed(vec![2, 1])),
        ("a1_2", FriReductionStrategy::Fixed(vec![1, 2])),
        ("a3", FriReductionStrategy::Fixed(vec![3])),
        // three reductions with unequal arities: the inferred element of step 2 depends on the
        // evaluation point being advanced by the arity of the step that was folded
        ("a2_1_1", FriReductionStrategy::Fixed(vec![2, 1, 1])),
        ("a1_2_1", FriReductionStrategy::Fixed(vec![1, 2, 1])),
        ("a1_1_2", FriReductionStrategy::Fixed(vec![1, 1, 2])),
        ("a3_2_1", FriReductionStrategy::Fixed(vec![3, 2, 1])),
    ];
    let caps: Vec<usize> = if thorough { vec![0, 1, 2] } else { vec![0, 2] };
    let queries: Vec<usize> = if thorough { vec![1, 2, 3, 4] } else { vec![2, 3] };
    let witnesses: u64 = if thorough { 4000 } else { 180 };
    let mut jobs: Vec<(usize, usize, usize, usize)> = Vec::new(); // prog, schedule, cap, queries
    for pi in [0usize, 2] {
        for si in 0..schedules.len() {
            for &cap in &caps {
                for &q in &queries {
                    jobs.push((pi, si, cap, q));
                }
            }
        }
    }
    let patterns: std::sync::Mutex<BTreeMap<String, u64>> = std::sync::Mutex::new(BTreeMap::new());
    let tuples: std::sync::Mutex<BTreeSet<(usize, Vec<usize>)>> = std::sync::Mutex::new(BTreeSet::new());
    par_for(jobs.len(), |j| {
        let (pi, si, cap, q) = jobs[j];
        let (prog, ivs) = &progs[pi];
        let cfg = steer_config(q, schedules[si].1.clone(), cap);
        let tag = format!("{}@{}cap{}q{}", prog.name, schedules[si].0, cap, q);
        if ctx.replaying() && !ctx.filter.as_deref().unwrap_or("").starts_with(&tag) {
            return;
        }
        let built = match guarded(|| build_program::<PC>(prog, &cfg)) {
            Ok(b) => b,
            Err(p) => {
                if p.contains("FRI total reduction arity is too large") {
                    ctx.class(format!("inadmissible:{}", schedules[si].0));
                    return;
                }
                ctx.machinery_error(format!("{tag}: build failed: {p}"));
                return;
            }
        };
        let lde_bits = built.data.common.degree_bits() + cfg.fri_config.rate_bits;
        let arities = built.data.common.fri_params.reduction_arity_bits.clone();
        // a Fixed schedule folding further than the degree leaves no final polynomial at all
        // (final_poly_bits would be negative): inadmissible for this circuit size
        if arities.iter().sum::<usize>() > built.data.common.degree_bits() {
            ctx.class(format!("inadmissible:{}:folds-below-degree", schedules[si].0));
            return;
        }
        ctx.state(1);
        // one query round can only reach |domain| tuples: fewer witnesses are needed to see them all
        let witnesses = if thorough && q == 1 { 600 } else if thorough && q == 2 { 2500 } else { witnesses };
        for w in 0..witnesses {
            let case = format!("{tag} pow_witness={w}");
            ctx.case("steered-roundtrip", &case, || {
                knobs::set(Knobs { pow_witness: Some(w), ..Knobs::default() });
                let r = guarded(|| built.data.prove(inputs_pw(&built, &ivs[0])));
                knobs::reset();
                let proof = match r {
                    Ok(Ok(p)) => p,
                    other => return Err(format!("prove failed: {:?}", other.map(|r| r.map(|_| ()).map_err(|e| e.to_string())))),
                };
                let ch = proof
                    .get_challenges(proof.get_public_inputs_hash(), &built.data.verifier_only.circuit_digest, &built.data.common)
                    .map_err(|e| e.to_string())?;
                let idx = ch.fri_challenges.fri_query_indices.clone();
                let pat = pattern(&idx, &arities, lde_bits, cap);
                *patterns.lock().unwrap().entry(format!("{}:{}", schedules[si].0, pat)).or_insert(0) += 1;
                roundtrip(&built.data, &proof)?;
                ctx.transition(1);
                ctx.trace(1);
                let mut sorted = idx.clone();
                sorted.sort();
                tuples.lock().unwrap().insert((j, sorted));
                Ok(format!("steered:{}:{}", schedules[si].0, pat))
            });
        }
    });
    let pats = patterns.lock().unwrap().clone();
    ctx.count("distinct_collision_patterns", pats.len() as u64);
    ctx.count("distinct_index_multisets", tuples.lock().unwrap().len() as u64);
    ctx.sample(json!({"collision_patterns_seen (schedule:distinct-per-layer,cap) -> proofs": pats.iter().take(40).collect::<Vec<_>>() }));
    // vacuity guard: collisions must actually have occurred
    if !ctx.replaying() && !pats.keys().any(|k| k.contains("layers[1")) {
        ctx.machinery_error("no proof with fully coinciding indices was produced: the steering is vacuous");
    }
    // 2. round trip across the configuration lattice (blinding, lookups, arity strategies, caps)
    let lattice = config_lattice(3);
    let pairs: Vec<(usize, usize)> = (0..progs.len().min(if thorough { 6 } else { 4 })).flat_map(|p| (0..lattice.len()).map(move |c| (p, c))).collect();
    par_for(pairs.len(), |k| {
        let (pi, ci) = pairs[k];
        let (prog, ivs) = &progs[pi];
        let (cname, cfg) = &lattice[ci];
        let case = format!("{}@{} lattice roundtrip", prog.name, cname);
        if !ctx.want(&case) {
            return;
        }
        let built = match guarded(|| build_program::<PC>(prog, cfg)) {
            Ok(b) => b,
            Err(p) => {
                if p.contains("FRI total reduction arity is too large") || p.contains("degree_bits >= arity_bits") {
                    return;
                }
                ctx.machinery_error(format!("{case}: build failed: {p}"));
                return;
            }
        };
        ctx.case("lattice-roundtrip", &case, || {
            plonky2_field::verif_hooks::set_seed(Some(ctx.seed + 7));
            let r = guarded(|| built.data.prove(inputs_pw(&built, &ivs[0])));
            plonky2_field::verif_hooks::set_seed(None);
            let proof = match r {
                Ok(Ok(p)) => p,
                other => return Err(format!("prove failed: {:?}", other.map(|r| r.map(|_| ()).map_err(|e| e.to_string())))),
            };
            roundtrip(&built.data, &proof)?;
            Ok(format!("lattice:{cname}"))
        });
    });
    // 3. verification equivalence on tampered proofs
    let n_sub = if thorough { 4 } else { 2 };
    for pi in 0..n_sub {
        let (prog, ivs) = &progs[pi];
        let mut cfg = crate::c03::floor_config(8);
        if pi % 2 == 1 {
            cfg.fri_config.reduction_strategy = FriReductionStrategy::ConstantArityBits(2, 1);
        }
        let Some(a) = crate::c03::make_accepted::<PC>(ctx, &format!("{}@c16", prog.name), prog, &ivs[0], &cfg, ctx.seed + 9) else { continue };
        let sh = shape(&a.json);
        let honest_comp: CompressedProofWithPublicInputs<F, PC, D> = serde_json::from_value(a.cjson.clone()).expect("honest compressed");
        let step = if thorough { 1 } else { 3 };
        let leaves: Vec<usize> = (0..sh.leaves.len()).step_by(step).collect();
        par_for_chunk(leaves.len(), 16, |k| {
            let path = &sh.leaves[leaves[k]];
            let case = format!("{} equivalence leaf {}", a.name, path_str(path));
            ctx.case("verification-equivalence", &case, || {
                let Some((t, changed)) = mutate_leaf(&a.json, path, LeafMut::Add1) else { return Ok(String::new()) };
                if !changed {
                    return Ok(String::new());
                }
                let Ok(p) = serde_json::from_value::<ProofWithPublicInputs<F, PC, D>>(t) else { return Ok("not-constructible".into()) };
                let plain = matches!(guarded(|| a.data.verify(p.clone())), Ok(Ok(())));
                let comp = guarded(|| p.clone().compress(&a.data.verifier_only.circuit_digest, &a.data.common));
                // Compression discards what other query paths already determine (shared Merkle
                // nodes, inferable coset elements): if the altered element is such a redundant one,
                // compress(p') is literally the compression of the honest proof and is rightly accepted.
                if let Ok(Ok(c)) = &comp {
                    if *c == honest_comp {
                        return Ok(format!("equiv:{}:tampered-element-discarded-by-compression", path_kind(path)));
                    }
                }
                let cverdict = match comp {
                    Ok(Ok(c)) => match guarded(|| a.data.verify_compressed(c)) {
                        Ok(Ok(())) => "accepted",
                        Ok(Err(_)) => "rejected",
                        Err(_) => "panic",
                    },
                    Ok(Err(_)) => "compress-err",
                    Err(_) => "compress-panic",
                };
                if plain != (cverdict == "accepted") {
                    return Err(format!("verify says {} but compressed verification says {cverdict}", if plain { "accepted" } else { "rejected" }));
                }
                Ok(format!("equiv:{}:{}", path_kind(path), cverdict))
            });
        });
    }
    ctx.finish(Finish {
        level: "exploration",
        rule: "index multisets are enumerated by steering the proof-of-work witness (pow bits 0) over 0..N for each (circuit, Fixed arity schedule in {[],[1],[1,1],[2],[2,1],[1,2],[3]}, cap height, query count): every produced proof goes through compress -> decompress (must be identical), to_bytes/from_bytes of the compressed form, verify and verify_compressed (both accept); collision patterns (distinct indices per FRI layer and per cap) are measured; plus one round trip per (subject x single-axis configuration deviation) and the tampered-leaf equivalence verify(p') <=> verify_compressed(compress(p')) for every p' whose compression differs from the honest compression (elements that compression discards as redundant vanish by design). states = circuits, transitions = proofs round-tripped. distinct_nontrivial = distinct (schedule, collision pattern) / configuration / equivalence classes",
        exhaustive: false,
        assumptions: vec![
            "the index tuples are those reachable through N pow witnesses per circuit (reported: distinct multisets and collision patterns), not all lde^q tuples".into(),
            "Merkle path compression alone is enumerated over all index tuples by C12".into(),
        ],
        extra: json!({"pow_witnesses_per_circuit": witnesses, "thorough_q1": 600, "thorough_q2": 2500}),
    })
}
