//! C14 — field arithmetic is exact modular arithmetic on every representation.
//! Bounded exhaustive enumeration over the representation alphabet R (DESIGN §3.1), a BFS closure
//! over reachable raw representations, the three extension fields against schoolbook arithmetic,
//! batch inversion and the packed (SIMD) field.

use std::collections::BTreeSet;

use num::BigUint;
use plonky2_field::extension::quadratic::QuadraticExtension;
use plonky2_field::extension::quartic::QuarticExtension;
use plonky2_field::extension::quintic::QuinticExtension;
use plonky2_field::extension::{Extendable, FieldExtension, Frobenius, OEF};
use plonky2_field::goldilocks_field::GoldilocksField as F;
use plonky2_field::ops::Square;
use plonky2_field::packable::Packable;
use plonky2_field::packed::PackedField;
use plonky2_field::types::{Field, Field64, PrimeField, PrimeField64};
use serde_json::json;

use crate::core::*;

fn can(x: F) -> u64 {
    // independent canonicalisation (never the library's)
    x.0 % P
}

fn chk(ctx: &Ctx, site: &str, case: String, got: Result<u64, String>, want: u64) {
    if !ctx.want(&case) {
        return;
    }
    ctx.tick(1);
    match got {
        Ok(g) => {
            if g % P != want % P {
                ctx.violation(site, case, format!("got raw {g} (= {} mod p), expected {}", g % P, want % P));
            } else if g >= P {
                ctx.class(format!("{site}:noncanonical-result"));
            } else {
                ctx.class(format!("{site}:ok"));
            }
        }
        Err(p) => ctx.violation(format!("{site}:panic"), case, format!("panic: {p}")),
    }
}

pub fn run(ctx: &Ctx) -> i32 {
    let r = r_alphabet();
    ctx.sample(json!({"alphabet_R_len": r.len(), "first": &r[..10], "noncanonical": nc()}));
    scalar_binary(ctx, &r);
    scalar_mac(ctx, &r);
    scalar_unary(ctx, &r);
    reductions(ctx, &r);
    closure(ctx, &r);
    dense_grid(ctx);
    ext_all(ctx);
    batch_inverse(ctx);
    packed(ctx, &r);
    let variant = crate::variant_name();
    ctx.finish(Finish {
        level: "exploration",
        rule: "every operator of GoldilocksField on every tuple over the representation alphabet R (A24 ∪ non-canonical ∪ 7x7 32-bit limb products), BFS closure over raw result representations, extension fields D=2,4,5 over coordinate alphabets E_k, batch inversion for all lengths 0..=13, packed lanes; oracle = u128 %p / schoolbook arithmetic written in the harness; a class is (operator, result canonical? / panic) so distinct_nontrivial counts distinct operator-outcome classes",
        exhaustive: true,
        assumptions: vec![
            "operand pairs outside the alphabet R and its depth-bounded closure are not covered (2^128 pairs are out of reach of enumeration)".into(),
            format!("build variant: {variant}; `assume` violations are observable only in the checked profile (debug_assert), which the quick tier uses"),
        ],
        extra: json!({"variant": variant}),
    })
}

fn scalar_binary(ctx: &Ctx, r: &[u64]) {
    let n = r.len();
    par_for(n, |i| {
        let a = r[i];
        for &b in r {
            let fa = F(a);
            let fb = F(b);
            chk(ctx, "add", format!("add {a} {b}"), guarded(|| (fa + fb).0), addm(a, b));
            chk(ctx, "sub", format!("sub {a} {b}"), guarded(|| (fa - fb).0), subm(a, b));
            chk(ctx, "mul", format!("mul {a} {b}"), guarded(|| (fa * fb).0), mulm(a, b));
            chk(ctx, "add_assign", format!("add_assign {a} {b}"), guarded(|| { let mut x = fa; x += fb; x.0 }), addm(a, b));
            chk(ctx, "sub_assign", format!("sub_assign {a} {b}"), guarded(|| { let mut x = fa; x -= fb; x.0 }), subm(a, b));
            chk(ctx, "mul_assign", format!("mul_assign {a} {b}"), guarded(|| { let mut x = fa; x *= fb; x.0 }), mulm(a, b));
            if b % P != 0 {
                let want = mulm(a, invm(b).unwrap());
                chk(ctx, "div", format!("div {a} {b}"), guarded(|| (fa / fb).0), want);
                chk(ctx, "div_assign", format!("div_assign {a} {b}"), guarded(|| { let mut x = fa; x /= fb; x.0 }), want);
            }
            // unsafe add/sub of a canonical u64 (documented precondition: rhs canonical)
            let bc = b % P;
            chk(ctx, "add_canonical_u64", format!("add_canonical_u64 {a} {bc}"), guarded(|| unsafe { fa.add_canonical_u64(bc).0 }), addm(a, bc));
            chk(ctx, "sub_canonical_u64", format!("sub_canonical_u64 {a} {bc}"), guarded(|| unsafe { fa.sub_canonical_u64(bc).0 }), subm(a, bc));
            // Sum / Product of a three-element iterator
            chk(ctx, "sum", format!("sum {a} {b}"), guarded(|| [fa, fb, fa].into_iter().sum::<F>().0), addm(addm(a, b), a));
            chk(ctx, "product", format!("product {a} {b}"), guarded(|| [fa, fb, fb].into_iter().product::<F>().0), mulm(mulm(a, b), b));
            // equality / hashing are defined on canonical values
            ctx.tick(1);
            if (fa == fb) != (a % P == b % P) {
                ctx.violation("eq", format!("eq {a} {b}"), "PartialEq disagrees with equality mod p");
            }
        }
    });
}

fn scalar_mac(ctx: &Ctx, r: &[u64]) {
    let n = r.len();
    par_for(n * n, |ij| {
        let (a, x) = (r[ij / n], r[ij % n]);
        for &y in r {
            chk(
                ctx,
                "multiply_accumulate",
                format!("mac {a} {x} {y}"),
                guarded(|| F(a).multiply_accumulate(F(x), F(y)).0),
                // NB: multiply_accumulate adds the *raw* representation, which is the same residue
                addm(a, mulm(x, y)),
            );
        }
    });
}

fn scalar_unary(ctx: &Ctx, r: &[u64]) {
    let exps: Vec<u64> = vec![0, 1, 2, 3, 7, P - 2, P - 1, P, 1 << 63, u64::MAX];
    par_for(r.len(), |i| {
        let a = r[i];
        let fa = F(a);
        chk(ctx, "neg", format!("neg {a}"), guarded(|| (-fa).0), negm(a));
        chk(ctx, "square", format!("square {a}"), guarded(|| fa.square().0), mulm(a, a));
        chk(ctx, "double", format!("double {a}"), guarded(|| fa.double().0), addm(a, a));
        chk(ctx, "triple", format!("triple {a}"), guarded(|| fa.triple().0), mulm(3, a));
        chk(ctx, "cube", format!("cube {a}"), guarded(|| fa.cube().0), mulm(a, mulm(a, a)));
        chk(ctx, "to_canonical_u64", format!("to_canonical_u64 {a}"), guarded(|| fa.to_canonical_u64()), a % P);
        ctx.tick(1);
        match guarded(|| fa.to_canonical_u64()) {
            Ok(c) if c >= P => ctx.violation("to_canonical_u64:range", format!("to_canonical_u64 {a}"), "result not < p"),
            _ => {}
        }
        chk(ctx, "to_canonical", format!("to_canonical {a}"), guarded(|| fa.to_canonical().0), a % P);
        chk(ctx, "to_canonical_biguint", format!("to_canonical_biguint {a}"), guarded(|| u64::try_from(fa.to_canonical_biguint()).unwrap()), a % P);
        chk(ctx, "add_one", format!("add_one {a}"), guarded(|| fa.add_one().0), addm(a, 1));
        chk(ctx, "sub_one", format!("sub_one {a}"), guarded(|| fa.sub_one().0), subm(a, 1));
        ctx.tick(3);
        if fa.is_zero() != (a % P == 0) {
            ctx.violation("is_zero", format!("is_zero {a}"), "wrong");
        }
        if fa.is_one() != (a % P == 1) {
            ctx.violation("is_one", format!("is_one {a}"), "wrong");
        }
        if fa.is_nonzero() != (a % P != 0) {
            ctx.violation("is_nonzero", format!("is_nonzero {a}"), "wrong");
        }
        // inverse
        let case = format!("try_inverse {a}");
        if ctx.want(&case) {
            ctx.tick(1);
            match guarded(|| fa.try_inverse()) {
                Ok(None) => {
                    if a % P != 0 {
                        ctx.violation("try_inverse", case, "None for a non-zero element");
                    } else {
                        ctx.class("try_inverse:none");
                    }
                }
                Ok(Some(v)) => {
                    if a % P == 0 || mulm(v.0, a) != 1 {
                        ctx.violation("try_inverse", case, format!("got {}", v.0));
                    } else {
                        ctx.class("try_inverse:some");
                    }
                }
                Err(p) => ctx.violation("try_inverse:panic", case, p),
            }
        }
        for &e in &exps {
            chk(ctx, "exp_u64", format!("exp_u64 {a} {e}"), guarded(|| fa.exp_u64(e).0), powm(a, e as u128));
            chk(
                ctx,
                "exp_biguint",
                format!("exp_biguint {a} {e}"),
                guarded(|| fa.exp_biguint(&BigUint::from(e)).0),
                powm(a, e as u128),
            );
        }
        // exponent beyond 64 bits
        let big = (BigUint::from(1u8) << 100usize) + BigUint::from(12345u32);
        let big_mod = ((1u128 << 100) + 12345) % (P as u128 - 1);
        if a % P != 0 {
            chk(ctx, "exp_biguint", format!("exp_biguint {a} 2^100+12345"), guarded(|| fa.exp_biguint(&big).0), powm(a, big_mod));
        }
        for k in [0usize, 1, 2, 5, 31, 32, 33, 63, 64, 65] {
            let mut want = a % P;
            for _ in 0..k {
                want = mulm(want, want);
            }
            chk(ctx, "exp_power_of_2", format!("exp_power_of_2 {a} {k}"), guarded(|| fa.exp_power_of_2(k).0), want);
        }
        // sqrt / quadratic residue
        let case = format!("sqrt {a}");
        if ctx.want(&case) {
            ctx.tick(1);
            let is_qr_ref = a % P == 0 || powm(a, ((P - 1) / 2) as u128) == 1;
            match guarded(|| (fa.is_quadratic_residue(), fa.sqrt())) {
                Ok((qr, s)) => {
                    if qr != is_qr_ref {
                        ctx.violation("is_quadratic_residue", case.clone(), format!("got {qr}"));
                    }
                    match s {
                        Some(v) => {
                            if mulm(v.0, v.0) != a % P {
                                ctx.violation("sqrt", case, format!("sqrt returned {} whose square differs", v.0));
                            } else {
                                ctx.class("sqrt:some");
                            }
                        }
                        None => {
                            if is_qr_ref {
                                ctx.violation("sqrt", case, "None for a quadratic residue");
                            } else {
                                ctx.class("sqrt:none");
                            }
                        }
                    }
                }
                Err(p) => ctx.violation("sqrt:panic", case, p),
            }
        }
        // k-th roots for exponents coprime to p-1 = 2^32*3*5*17*257*65537
        for k in [7u64, 11, 13] {
            let case = format!("kth_root {a} {k}");
            if ctx.want(&case) {
                ctx.tick(1);
                match guarded(|| fa.kth_root_u64(k)) {
                    Ok(v) => {
                        if powm(v.0, k as u128) != a % P {
                            ctx.violation("kth_root_u64", case, format!("got {}", v.0));
                        } else {
                            ctx.class("kth_root:ok");
                        }
                    }
                    Err(p) => ctx.violation("kth_root_u64:panic", case, p),
                }
            }
        }
    });
    // constants and roots of unity
    for e in 0..=130usize {
        let want = invm(powm(2, e as u128)).unwrap();
        chk(ctx, "inverse_2exp", format!("inverse_2exp {e}"), guarded(|| F::inverse_2exp(e).0), want);
    }
    for n_log in 0..=32usize {
        let case = format!("primitive_root_of_unity {n_log}");
        if !ctx.want(&case) {
            continue;
        }
        ctx.tick(1);
        match guarded(|| F::primitive_root_of_unity(n_log).0) {
            Ok(g) => {
                let full = powm(g, 1u128 << n_log) == 1;
                let half = n_log == 0 || powm(g, 1u128 << (n_log - 1)) == P - 1;
                if !(full && half) {
                    ctx.violation("primitive_root_of_unity", case, format!("{g} does not have order 2^{n_log}"));
                } else {
                    ctx.class("root_of_unity:ok");
                }
            }
            Err(p) => ctx.violation("primitive_root_of_unity:panic", case, p),
        }
    }
    // multiplicative generator: g^((p-1)/q) != 1 for every prime q | p-1
    ctx.tick(1);
    let g = F::MULTIPLICATIVE_GROUP_GENERATOR.0;
    for q in [2u64, 3, 5, 17, 257, 65537] {
        if powm(g, ((P - 1) / q) as u128) == 1 {
            ctx.violation("generator", format!("generator q={q}"), "MULTIPLICATIVE_GROUP_GENERATOR is not a generator");
        }
    }
    if powm(g, ((P - 1) >> 32) as u128) != F::POWER_OF_TWO_GENERATOR.0 {
        ctx.violation("generator", "two-adic generator".to_string(), "POWER_OF_TWO_GENERATOR != g^((p-1)/2^32)");
    }
    if F::order() != BigUint::from(P) || F::NEG_ONE.0 != P - 1 || F::TWO_ADICITY != 32 {
        ctx.violation("constants", "order".to_string(), "ORDER/NEG_ONE/TWO_ADICITY constants inconsistent");
    }
}

fn reductions(ctx: &Ctx, r: &[u64]) {
    let limbs: Vec<u64> = dedup(vec![
        0, 1, 2, (1 << 31) - 1, 1 << 31, (1 << 31) + 1, (1u64 << 32) - 2, (1u64 << 32) - 1, 0xFFFF, 0x10000, 0xFFFF_0000, 0x8000_0001,
    ]);
    // u96
    par_for(r.len(), |i| {
        let lo = r[i];
        for &hi in &limbs {
            let want = ((((hi as u128) << 64) | lo as u128) % P as u128) as u64;
            chk(ctx, "from_noncanonical_u96", format!("u96 {lo} {hi}"), guarded(|| F::from_noncanonical_u96((lo, hi as u32)).0), want);
        }
        for &b in r {
            let n = (lo as u128) * (b as u128);
            chk(ctx, "from_noncanonical_u128", format!("u128 {n}"), guarded(|| F::from_noncanonical_u128(n).0), (n % P as u128) as u64);
            let n2 = ((lo as u128) << 64) | b as u128;
            chk(ctx, "from_noncanonical_u128", format!("u128 {n2}"), guarded(|| F::from_noncanonical_u128(n2).0), (n2 % P as u128) as u64);
        }
        chk(ctx, "from_noncanonical_u64", format!("u64 {lo}"), guarded(|| F::from_noncanonical_u64(lo).0), lo % P);
        chk(
            ctx,
            "from_noncanonical_biguint",
            format!("biguint {lo}"),
            guarded(|| F::from_noncanonical_biguint((BigUint::from(lo) << 70usize) + BigUint::from(lo)).0),
            ((((lo as u128 % P as u128) * ((1u128 << 70) % P as u128)) % P as u128 + (lo % P) as u128) % P as u128) as u64,
        );
    });
    // all 4-limb words over the 12-value limb alphabet
    let l = limbs.len();
    par_for(l * l, |ij| {
        let (w3, w2) = (limbs[ij / l], limbs[ij % l]);
        for &w1 in &limbs {
            for &w0 in &limbs {
                let n = ((w3 as u128) << 96) | ((w2 as u128) << 64) | ((w1 as u128) << 32) | w0 as u128;
                chk(ctx, "from_noncanonical_u128", format!("u128 {n}"), guarded(|| F::from_noncanonical_u128(n).0), (n % P as u128) as u64);
            }
        }
    });
    // signed
    let signed: Vec<i64> = vec![0, 1, -1, 2, -2, i64::MAX, i64::MIN, i64::MIN + 1, i64::MAX - 1, 1 << 32, -(1 << 32), (1 << 32) - 1, -((1 << 32) - 1), 1 << 62, -(1 << 62)];
    for &s in &signed {
        let want = (((s as i128) % (P as i128) + P as i128) % P as i128) as u64;
        chk(ctx, "from_noncanonical_i64", format!("i64 {s}"), guarded(|| F::from_noncanonical_i64(s).0), want);
        if s >= 0 {
            // documented precondition: 0 <= n < ORDER
            chk(ctx, "from_canonical_i64", format!("ci64 {s}"), guarded(|| F::from_canonical_i64(s).0), want);
        }
    }
}

/// Dense limb grid: every u64 whose two 32-bit halves come from a limb alphabet L (carry / borrow /
/// EPSILON-correction conditions are conditions on these halves and on the halves of the 128-bit
/// product), all ordered pairs for add/sub/mul and all triples for multiply_accumulate. No per-case
/// allocation on the agreeing path; a disagreeing (or panicking) case is re-run through `chk`.
fn dense_grid(ctx: &Ctx) {
    let th = ctx.tier.thorough();
    let mut limbs: Vec<u64> = vec![0, 1, 2, 0xFFFF, 0x1_0000, 0x7FFF_FFFF, 0x8000_0000, 0x8000_0001, 0xFFFF_0000, 0xFFFF_FFFD, 0xFFFF_FFFE, 0xFFFF_FFFF];
    if th {
        limbs.extend_from_slice(&[3, 4, 0xFF, 0x100, 0x7FFF, 0x8000, 0x1_0001, 0x00FF_FFFF, 0x0100_0000, 0x3FFF_FFFF, 0x4000_0000, 0x5555_5555, 0x7FFF_FFFE, 0xAAAA_AAAA, 0xC000_0000, 0xFFFE_FFFF, 0xFFFF_00FF, 0xFFFF_FF00, 0xFFFF_FFF0, 0xFFFF_FFFC, 5, 7, 0xFFFE, 0x1_FFFF, 0x7FFF_0000, 0x8000_FFFF, 0x7FFF_FFFD, 0x8000_0002, 0xFFFF_FFFB, 0xFFFF_FFF8, 0xFFFF_8000, 0xFFFF_7FFF, 0x1234_5678, 0xFEDC_BA98, 0x0000_FFFF ^ 0xFFFF_FFFF, 0x2000_0000]);
    }
    let limbs = dedup(limbs);
    let mut g: Vec<u64> = Vec::with_capacity(limbs.len() * limbs.len());
    for &hi in &limbs {
        for &lo in &limbs {
            g.push((hi << 32) | lo);
        }
    }
    let n = g.len();
    ctx.sample(json!({"dense_grid": {"limbs": limbs.len(), "values": n, "pairs": n * n, "mac_triples": n * n * n}}));
    ctx.count("dense_grid_values", n as u64);
    // pairs
    par_for(n, |i| {
        let a = g[i];
        let fa = F(a);
        let fast = guarded(|| {
            let mut bad = Vec::new();
            for &b in &g {
                let fb = F(b);
                if (fa + fb).0 % P != addm(a, b) || (fa - fb).0 % P != subm(a, b) || (fa * fb).0 % P != mulm(a, b) {
                    bad.push(b);
                }
            }
            bad
        });
        ctx.tick(3 * n as u64);
        let redo: Vec<u64> = match fast {
            Ok(bad) => bad,
            Err(_) => g.clone(),
        };
        for b in redo {
            let fb = F(b);
            chk(ctx, "add", format!("add {a} {b}"), guarded(|| (fa + fb).0), addm(a, b));
            chk(ctx, "sub", format!("sub {a} {b}"), guarded(|| (fa - fb).0), subm(a, b));
            chk(ctx, "mul", format!("mul {a} {b}"), guarded(|| (fa * fb).0), mulm(a, b));
        }
    });
    ctx.class("dense_grid:pairs");
    // multiply_accumulate on all ordered triples
    let acc: Vec<u64> = g.clone();
    par_for(n * n, |ij| {
        let (x, y) = (g[ij / n], g[ij % n]);
        let xy = mulm(x, y);
        let fast = guarded(|| {
            let mut bad = Vec::new();
            for &a in &acc {
                if F(a).multiply_accumulate(F(x), F(y)).0 % P != addm(a, xy) {
                    bad.push(a);
                }
            }
            bad
        });
        ctx.tick(acc.len() as u64);
        let redo: Vec<u64> = match fast {
            Ok(bad) => bad,
            Err(_) => acc.clone(),
        };
        for a in redo {
            chk(ctx, "multiply_accumulate", format!("mac {a} {x} {y}"), guarded(|| F(a).multiply_accumulate(F(x), F(y)).0), addm(a, xy));
        }
    });
    ctx.class("dense_grid:mac_triples");
}

/// BFS over raw u64 representations reachable from R by applying operators with R operands.
fn closure(ctx: &Ctx, r: &[u64]) {
    let depth = if ctx.tier.thorough() { 3 } else { 2 };
    let cap: usize = if ctx.tier.thorough() { 1 << 20 } else { 1 << 17 };
    let mut seen: BTreeSet<u64> = r.iter().copied().collect();
    let mut frontier: Vec<u64> = r.to_vec();
    ctx.state(seen.len() as u64);
    let mut capped = false;
    for d in 0..depth {
        let results = par_map(frontier.len(), |i| {
            let a = frontier[i];
            let fa = F(a);
            let mut out: Vec<u64> = Vec::new();
            let mut push = |site: &str, case: String, got: Result<u64, String>, want: u64| {
                ctx.transition(1);
                match got {
                    Ok(g) => {
                        if g % P != want {
                            ctx.violation(format!("closure:{site}"), case, format!("got raw {g}, expected {want}"));
                        }
                        out.push(g);
                    }
                    Err(p) => ctx.violation(format!("closure:{site}:panic"), case, p),
                }
            };
            for &b in r {
                let fb = F(b);
                push("add", format!("add {a} {b}"), guarded(|| (fa + fb).0), addm(a, b));
                push("sub", format!("sub {a} {b}"), guarded(|| (fa - fb).0), subm(a, b));
                push("rsub", format!("sub {b} {a}"), guarded(|| (fb - fa).0), subm(b, a));
                push("mul", format!("mul {a} {b}"), guarded(|| (fa * fb).0), mulm(a, b));
                push("mac", format!("mac {a} {b} {b}"), guarded(|| fa.multiply_accumulate(fb, fb).0), addm(a, mulm(b, b)));
                push("mac2", format!("mac {b} {a} {a}"), guarded(|| fb.multiply_accumulate(fa, fa).0), addm(b, mulm(a, a)));
            }
            push("neg", format!("neg {a}"), guarded(|| (-fa).0), negm(a));
            push("square", format!("square {a}"), guarded(|| fa.square().0), mulm(a, a));
            push("double", format!("double {a}"), guarded(|| fa.double().0), addm(a, a));
            if a % P != 0 {
                push("inverse", format!("inverse {a}"), guarded(|| fa.inverse().0), invm(a).unwrap());
            }
            out
        });
        ctx.tick(frontier.len() as u64);
        let mut next = Vec::new();
        'outer: for v in results {
            for g in v {
                if seen.len() >= cap {
                    capped = true;
                    break 'outer;
                }
                if seen.insert(g) {
                    next.push(g);
                }
            }
        }
        ctx.state(next.len() as u64);
        ctx.count(&format!("closure_depth_{}_new_states", d + 1), next.len() as u64);
        // bound the frontier that is expanded further: keep non-canonical results first (they are the
        // interesting ones: only reachable as outputs), then the rest up to a budget.
        let budget = if ctx.tier.thorough() { 40_000 } else { 6_000 };
        next.sort_by_key(|g| (*g < P, *g));
        let noncanon = next.iter().filter(|g| **g >= P).count();
        ctx.count(&format!("closure_depth_{}_noncanonical_states", d + 1), noncanon as u64);
        if next.len() > budget {
            ctx.note(format!("closure: frontier at depth {} truncated from {} to {} representations (all {} non-canonical ones kept first)", d + 1, next.len(), budget, noncanon));
            next.truncate(budget);
        }
        frontier = next;
        if capped || frontier.is_empty() {
            break;
        }
    }
    if capped {
        ctx.note(format!("closure: state cap {cap} reached; closure is complete only below the cap"));
    }
    ctx.class(format!("closure:states>{}", seen.len().min(1)));
}

// ---------------------------------------------------------------------------------------------

fn small_primes(n: usize) -> Vec<u64> {
    let mut sieve = vec![true; n + 1];
    sieve[0] = false;
    sieve[1] = false;
    let mut i = 2;
    while i * i <= n {
        if sieve[i] {
            let mut j = i * i;
            while j <= n {
                sieve[j] = false;
                j += i;
            }
        }
        i += 1;
    }
    (0..=n).filter(|i| sieve[*i]).map(|i| i as u64).collect()
}

fn e_alphabet(k: usize) -> Vec<u64> {
    let mut v = vec![0, 1, u64::MAX, P - 1, 2, EPS, 1 << 32, 1 << 63, P, P - 2, P + 1, EPS + 2, 7, (P - 1) / 2, u64::MAX - 1, 1 << 31];
    v.extend_from_slice(&[EPS - 1, 1 << 48, 255, 256, 65535, 65536, (P + 1) / 2, P - EPS]);
    v.truncate(k);
    v
}

fn tuples(alpha: &[u64], d: usize) -> Vec<Vec<u64>> {
    let mut out: Vec<Vec<u64>> = vec![vec![]];
    for _ in 0..d {
        let mut n = Vec::with_capacity(out.len() * alpha.len());
        for t in &out {
            for &a in alpha {
                let mut t2 = t.clone();
                t2.push(a);
                n.push(t2);
            }
        }
        out = n;
    }
    out
}

fn ext_all(ctx: &Ctx) {
    let th = ctx.tier.thorough();
    {
        // the same provided methods at the prime field itself, seen as its own degree-1 extension
        let ts = tuples(&e_alphabet(if th { 40 } else { 24 }), 1);
        ext_trait_defaults::<F, 1>(ctx, "base", 0, &ts, &BigUint::from(P));
    }
    ext_field::<QuadraticExtension<F>, 2>(ctx, "ext2", if th { 24 } else { 12 }, 3);
    ext_field::<QuarticExtension<F>, 4>(ctx, "ext4", if th { 5 } else { 4 }, 2);
    ext_field::<QuinticExtension<F>, 5>(ctx, "ext5", if th { 4 } else { 3 }, 2);
}

fn to_raw<E: FieldExtension<D, BaseField = F>, const D: usize>(x: E) -> Vec<u64> {
    x.to_basefield_array().iter().map(|c| c.0 % P).collect()
}
fn from_raw<E: FieldExtension<D, BaseField = F>, const D: usize>(v: &[u64]) -> E {
    let mut arr = [F(0); D];
    for i in 0..D {
        arr[i] = F(v[i]);
    }
    E::from_basefield_array(arr)
}

fn ext_field<E, const D: usize>(ctx: &Ctx, name: &str, k: usize, k_axioms: usize)
where
    E: FieldExtension<D, BaseField = F> + OEF<D> + Frobenius<D> + Square,
    F: Extendable<D, Extension = E>,
{
    let w = <E as OEF<D>>::W.0;
    let alpha = e_alphabet(k);
    let ts = tuples(&alpha, D);
    let canon = |v: &[u64]| -> Vec<u64> { v.iter().map(|x| x % P).collect() };
    let order: BigUint = {
        let p = BigUint::from(P);
        let mut o = BigUint::from(1u8);
        for _ in 0..D {
            o *= &p;
        }
        o
    };
    ctx.sample(json!({"ext": name, "W": w, "coordinate_alphabet": alpha, "tuples": ts.len()}));
    let cmp = |site: &str, case: String, got: Result<Vec<u64>, String>, want: Vec<u64>| {
        if !ctx.want(&case) {
            return;
        }
        ctx.tick(1);
        match got {
            Ok(g) => {
                if g != want {
                    ctx.violation(format!("{name}:{site}"), case, format!("got {g:?}, expected {want:?}"));
                } else {
                    ctx.class(format!("{name}:{site}:ok"));
                }
            }
            Err(p) => ctx.violation(format!("{name}:{site}:panic"), case, p),
        }
    };
    // unary
    par_for(ts.len(), |i| {
        let a = &ts[i];
        let ea: E = from_raw::<E, D>(a);
        let ca = canon(a);
        cmp("square", format!("{name} square {a:?}"), guarded(|| to_raw::<E, D>(ea.square())), ext_mul(&ca, &ca, w));
        cmp("neg", format!("{name} neg {a:?}"), guarded(|| to_raw::<E, D>(-ea)), ext_sub(&vec![0; D], &ca));
        cmp("double", format!("{name} double {a:?}"), guarded(|| to_raw::<E, D>(ea.double())), ext_add(&ca, &ca));
        let zero = ca.iter().all(|x| *x == 0);
        let case = format!("{name} try_inverse {a:?}");
        if ctx.want(&case) {
            ctx.tick(1);
            match guarded(|| ea.try_inverse()) {
                Ok(None) => {
                    if !zero {
                        ctx.violation(format!("{name}:try_inverse"), case, "None for non-zero");
                    }
                }
                Ok(Some(inv)) => {
                    let prod = ext_mul(&to_raw::<E, D>(inv), &ca, w);
                    if zero || prod != ext_one(D) {
                        ctx.violation(format!("{name}:try_inverse"), case, format!("a * a^-1 = {prod:?}"));
                    } else {
                        ctx.class(format!("{name}:inverse:ok"));
                    }
                }
                Err(p) => ctx.violation(format!("{name}:try_inverse:panic"), case, p),
            }
        }
        for &s in &alpha {
            let want: Vec<u64> = ca.iter().map(|c| mulm(*c, s)).collect();
            cmp("scalar_mul", format!("{name} scalar_mul {a:?} {s}"), guarded(|| to_raw::<E, D>(ea.scalar_mul(F(s)))), want);
        }
        ctx.tick(1);
        let in_base = ca[1..].iter().all(|x| *x == 0);
        if ea.is_in_basefield() != in_base {
            ctx.violation(format!("{name}:is_in_basefield"), format!("{name} is_in_basefield {a:?}"), "wrong");
        }
    });
    // frobenius == x^(p^count) (on a subset: exponentiation with a 64*count-bit exponent is slow)
    let fro_set: Vec<&Vec<u64>> = ts.iter().step_by((ts.len() / 400).max(1)).collect();
    ctx.count(&format!("{name}_frobenius_inputs"), fro_set.len() as u64);
    par_for(fro_set.len(), |i| {
        let a = fro_set[i];
        let ea: E = from_raw::<E, D>(a);
        let ca = canon(a);
        let p = BigUint::from(P);
        let mut e = BigUint::from(1u8);
        for count in 0..=D {
            let want = ext_pow(&ca, &e, w);
            cmp("repeated_frobenius", format!("{name} repeated_frobenius {a:?} {count}"), guarded(|| to_raw::<E, D>(ea.repeated_frobenius(count))), want.clone());
            if count == 1 {
                cmp("frobenius", format!("{name} frobenius {a:?}"), guarded(|| to_raw::<E, D>(ea.frobenius())), want);
            }
            e *= &p;
        }
        // exp_biguint vs reference ext_pow
        let ex = BigUint::from(P) + BigUint::from(12345u32);
        cmp("exp_biguint", format!("{name} exp_biguint {a:?}"), guarded(|| to_raw::<E, D>(ea.exp_biguint(&ex))), ext_pow(&ca, &ex, w));
        cmp("exp_u64", format!("{name} exp_u64 {a:?}"), guarded(|| to_raw::<E, D>(ea.exp_u64(u64::MAX))), ext_pow(&ca, &BigUint::from(u64::MAX), w));
    });
    // binary
    par_for(ts.len(), |i| {
        let a = &ts[i];
        let ea: E = from_raw::<E, D>(a);
        let ca = canon(a);
        for b in &ts {
            let eb: E = from_raw::<E, D>(b);
            let cb = canon(b);
            cmp("mul", format!("{name} mul {a:?} {b:?}"), guarded(|| to_raw::<E, D>(ea * eb)), ext_mul(&ca, &cb, w));
            cmp("add", format!("{name} add {a:?} {b:?}"), guarded(|| to_raw::<E, D>(ea + eb)), ext_add(&ca, &cb));
            cmp("sub", format!("{name} sub {a:?} {b:?}"), guarded(|| to_raw::<E, D>(ea - eb)), ext_sub(&ca, &cb));
            cmp("mul_assign", format!("{name} mul_assign {a:?} {b:?}"), guarded(|| { let mut x = ea; x *= eb; to_raw::<E, D>(x) }), ext_mul(&ca, &cb, w));
        }
    });
    // division on a sub-grid (inverse costs an exponentiation)
    let sub: Vec<&Vec<u64>> = ts.iter().step_by((ts.len() / 120).max(1)).collect();
    par_for(sub.len(), |i| {
        let a = sub[i];
        let ea: E = from_raw::<E, D>(a);
        for b in &sub {
            let cb = canon(b);
            if cb.iter().all(|x| *x == 0) {
                continue;
            }
            let eb: E = from_raw::<E, D>(b);
            let case = format!("{name} div {a:?} {b:?}");
            if !ctx.want(&case) {
                continue;
            }
            ctx.tick(1);
            match guarded(|| to_raw::<E, D>(ea / eb)) {
                Ok(q) => {
                    if ext_mul(&q, &cb, w) != canon(a) {
                        ctx.violation(format!("{name}:div"), case, format!("q = {q:?}, q*b != a"));
                    } else {
                        ctx.class(format!("{name}:div:ok"));
                    }
                }
                Err(p) => ctx.violation(format!("{name}:div:panic"), case, p),
            }
        }
    });
    // field axioms on all triples over E_{k_axioms}^D (through the implementation only)
    let ax = tuples(&e_alphabet(k_axioms), D);
    let m = ax.len();
    ctx.count(&format!("{name}_axiom_triples"), (m * m * m) as u64);
    par_for(m * m, |ij| {
        let a: E = from_raw::<E, D>(&ax[ij / m]);
        let b: E = from_raw::<E, D>(&ax[ij % m]);
        for c in &ax {
            let c: E = from_raw::<E, D>(c);
            ctx.tick(1);
            let r = guarded(|| {
                let assoc = to_raw::<E, D>((a * b) * c) == to_raw::<E, D>(a * (b * c));
                let distr = to_raw::<E, D>(a * (b + c)) == to_raw::<E, D>(a * b + a * c);
                let comm = to_raw::<E, D>(a * b) == to_raw::<E, D>(b * a);
                let addassoc = to_raw::<E, D>((a + b) + c) == to_raw::<E, D>(a + (b + c));
                assoc && distr && comm && addassoc
            });
            match r {
                Ok(true) => {}
                Ok(false) => ctx.violation(format!("{name}:axioms"), format!("{name} axioms {:?} {:?} {:?}", to_raw::<E, D>(a), to_raw::<E, D>(b), to_raw::<E, D>(c)), "associativity/distributivity/commutativity fails"),
                Err(p) => ctx.violation(format!("{name}:axioms:panic"), format!("{name} axioms"), p),
            }
        }
    });
    ctx.class(format!("{name}:axioms"));
    // generators: EXT_MULTIPLICATIVE_GROUP_GENERATOR has full order (checked on the known prime
    // factors of p-1 and on the cofactor (p^D-1)/(p-1) via small primes), EXT_POWER_OF_TWO_GENERATOR
    // has order exactly 2^(32 + log2 D) where that is the extension's two-adicity.
    ctx.tick(1);
    let g: Vec<u64> = <F as Extendable<D>>::EXT_MULTIPLICATIVE_GROUP_GENERATOR.iter().map(|c| c.0 % P).collect();
    let om1 = &order - BigUint::from(1u8);
    if ext_pow(&g, &om1, w) != ext_one(D) {
        ctx.violation(format!("{name}:generator"), format!("{name} generator"), "g^(|E|-1) != 1");
    }
    // every prime q < 2^21 dividing |E|-1 (trial division; larger prime factors are not known to the
    // harness, so "generates the whole group" is decided only up to subgroups of small prime index)
    let small_q: Vec<u64> = small_primes(1 << 21).into_iter().filter(|q| (&om1 % BigUint::from(*q)) == BigUint::from(0u8)).collect();
    ctx.sample(json!({"ext": name, "small_prime_factors_of_group_order": small_q}));
    let ge: E = from_raw::<E, D>(&g);
    let mut missing = Vec::new();
    for &q in &small_q {
        let e = &om1 / BigUint::from(q);
        ctx.tick(1);
        let by_ref = ext_pow(&g, &e, w) == ext_one(D);
        let by_impl = to_raw::<E, D>(ge.exp_biguint(&e)) == ext_one(D);
        if by_ref != by_impl {
            ctx.violation(format!("{name}:exp_biguint"), format!("{name} generator q={q}"), "exp_biguint disagrees with reference exponentiation");
        }
        if by_ref {
            missing.push(q);
        }
    }
    if !missing.is_empty() {
        ctx.violation(
            format!("{name}:MULTIPLICATIVE_GROUP_GENERATOR-not-a-generator"),
            format!("{name} generator"),
            format!("MULTIPLICATIVE_GROUP_GENERATOR^((|E|-1)/q) == 1 for q in {missing:?}: it lies in a proper subgroup although types.rs documents it as a generator of the entire multiplicative group"),
        );
    } else {
        ctx.class(format!("{name}:generator:ok"));
    }
    let t: Vec<u64> = <F as Extendable<D>>::EXT_POWER_OF_TWO_GENERATOR.iter().map(|c| c.0 % P).collect();
    let two_adicity = E::TWO_ADICITY;
    let mut x = t.clone();
    let mut ord_log = None;
    for i in 0..=(two_adicity + 2) {
        if x == ext_one(D) {
            ord_log = Some(i);
            break;
        }
        x = ext_mul(&x, &x, w);
    }
    if ord_log != Some(two_adicity) {
        ctx.violation(format!("{name}:two_adic_generator"), format!("{name} two-adic generator"), format!("order 2^{ord_log:?}, TWO_ADICITY = {two_adicity}"));
    }
    // it must also equal g^((|E|-1)/2^two_adicity)
    let e = &om1 >> two_adicity;
    if ext_pow(&g, &e, w) != t {
        ctx.violation(format!("{name}:two_adic_generator"), format!("{name} two-adic generator consistency"), "EXT_POWER_OF_TWO_GENERATOR != g^((|E|-1)/2^adicity)");
    }
    // DTH_ROOT = W^((p-1)/D)
    if D > 1 && powm(w, ((P - 1) / D as u64) as u128) != <E as OEF<D>>::DTH_ROOT.0 % P {
        ctx.violation(format!("{name}:dth_root"), format!("{name} dth_root"), "DTH_ROOT != W^((p-1)/D)");
    }
    if E::order() != order {
        ctx.violation(format!("{name}:order"), format!("{name} order"), "order() != p^D");
    }
    ext_trait_defaults::<E, D>(ctx, name, w, &ts, &order);
    // from_basefield
    for &s in &alpha {
        let mut want = vec![0; D];
        want[0] = s % P;
        cmp("from_basefield", format!("{name} from_basefield {s}"), guarded(|| to_raw::<E, D>(E::from_basefield(F(s)))), want);
    }
}

/// The provided (default) methods of the `Field` trait, instantiated at an extension field: they are
/// written once in types.rs against associated constants (TWO_ADICITY vs CHARACTERISTIC_TWO_ADICITY,
/// POWER_OF_TWO_GENERATOR, order()) whose values differ between the prime field and its extensions.
fn ext_trait_defaults<E, const D: usize>(ctx: &Ctx, name: &str, w: u64, ts: &[Vec<u64>], order: &BigUint)
where
    E: FieldExtension<D, BaseField = F>,
{
    let canon = |v: &[u64]| -> Vec<u64> { v.iter().map(|x| x % P).collect() };
    let base = |x: u64| -> Vec<u64> {
        let mut v = vec![0; D];
        v[0] = x % P;
        v
    };
    let cmp = |site: &str, case: String, got: Result<Vec<u64>, String>, want: Vec<u64>| {
        if !ctx.want(&case) {
            return;
        }
        ctx.tick(1);
        match got {
            Ok(g) => {
                if g != want {
                    ctx.violation(format!("{name}:{site}"), case, format!("got {g:?}, expected {want:?}"));
                } else {
                    ctx.class(format!("{name}:{site}:ok"));
                }
            }
            Err(p) => ctx.violation(format!("{name}:{site}:panic"), case, p),
        }
    };
    let om1 = order - BigUint::from(1u8);
    // inverse_2exp: 2^-e lies in the prime subfield, for every e (both sides of TWO_ADICITY and of
    // CHARACTERISTIC_TWO_ADICITY, and several multiples beyond)
    for e in 0..=140usize {
        let want = base(invm(powm(2, e as u128)).unwrap());
        cmp("inverse_2exp", format!("{name} inverse_2exp {e}"), guarded(|| to_raw::<E, D>(E::inverse_2exp(e))), want);
    }
    // primitive_root_of_unity(n) has order exactly 2^n for every n up to the extension's two-adicity
    let adicity = E::TWO_ADICITY;
    for n_log in 0..=adicity {
        let case = format!("{name} primitive_root_of_unity {n_log}");
        if !ctx.want(&case) {
            continue;
        }
        ctx.tick(1);
        match guarded(|| to_raw::<E, D>(E::primitive_root_of_unity(n_log))) {
            Ok(g) => {
                let mut x = g.clone();
                let mut ord = None;
                for i in 0..=n_log {
                    if x == ext_one(D) {
                        ord = Some(i);
                        break;
                    }
                    x = ext_mul(&x, &x, w);
                }
                if ord != Some(n_log) {
                    ctx.violation(format!("{name}:primitive_root_of_unity"), case, format!("{g:?} has order 2^{ord:?}"));
                } else {
                    ctx.class(format!("{name}:primitive_root_of_unity:ok"));
                }
            }
            Err(p) => ctx.violation(format!("{name}:primitive_root_of_unity:panic"), case, p),
        }
    }
    // subgroup enumerations against reference powers
    for n_log in 0..=5usize {
        let g = to_raw::<E, D>(E::primitive_root_of_unity(n_log));
        let ge: E = from_raw::<E, D>(&g);
        let mut want = Vec::new();
        let mut x = ext_one(D);
        for _ in 0..(1usize << n_log) {
            want.push(x.clone());
            x = ext_mul(&x, &g, w);
        }
        let flat = |v: Vec<E>| -> Vec<u64> { v.into_iter().flat_map(|e| to_raw::<E, D>(e)).collect() };
        let wflat: Vec<u64> = want.iter().flatten().copied().collect();
        cmp("two_adic_subgroup", format!("{name} two_adic_subgroup {n_log}"), guarded(|| flat(E::two_adic_subgroup(n_log))), wflat.clone());
        cmp("cyclic_subgroup_known_order", format!("{name} cyclic_subgroup_known_order {n_log}"), guarded(|| flat(E::cyclic_subgroup_known_order(ge, 1 << n_log))), wflat.clone());
        cmp("cyclic_subgroup_unknown_order", format!("{name} cyclic_subgroup_unknown_order {n_log}"), guarded(|| flat(E::cyclic_subgroup_unknown_order(ge))), wflat.clone());
        if n_log > 0 {
            cmp("generator_order", format!("{name} generator_order {n_log}"), guarded(|| vec![E::generator_order(ge) as u64]), vec![1u64 << n_log]);
        }
        for shift in [&ts[ts.len() / 2], &ts[ts.len() - 1]] {
            let sc = canon(shift);
            let wshift: Vec<u64> = want.iter().flat_map(|x| ext_mul(x, &sc, w)).collect();
            cmp("cyclic_subgroup_coset_known_order", format!("{name} coset {n_log} {shift:?}"), guarded(|| flat(E::cyclic_subgroup_coset_known_order(ge, from_raw::<E, D>(shift), 1 << n_log))), wshift);
        }
    }
    // conversions into the field
    for &s in &[0u64, 1, 2, 255, 256, 65535, 65536, (1 << 32) - 1, 1 << 32, P - 1] {
        cmp("from_canonical_u64", format!("{name} from_canonical_u64 {s}"), guarded(|| to_raw::<E, D>(E::from_canonical_u64(s))), base(s));
        cmp("from_canonical_usize", format!("{name} from_canonical_usize {s}"), guarded(|| to_raw::<E, D>(E::from_canonical_usize(s as usize))), base(s));
        if s <= u32::MAX as u64 {
            cmp("from_canonical_u32", format!("{name} from_canonical_u32 {s}"), guarded(|| to_raw::<E, D>(E::from_canonical_u32(s as u32))), base(s));
        }
        if s <= u16::MAX as u64 {
            cmp("from_canonical_u16", format!("{name} from_canonical_u16 {s}"), guarded(|| to_raw::<E, D>(E::from_canonical_u16(s as u16))), base(s));
        }
        if s <= u8::MAX as u64 {
            cmp("from_canonical_u8", format!("{name} from_canonical_u8 {s}"), guarded(|| to_raw::<E, D>(E::from_canonical_u8(s as u8))), base(s));
        }
    }
    cmp("from_bool", format!("{name} from_bool"), guarded(|| [to_raw::<E, D>(E::from_bool(false)), to_raw::<E, D>(E::from_bool(true))].concat()), [base(0), base(1)].concat());
    for &s in &[0u64, 1, P - 1, P, P + 1, u64::MAX, 1 << 63, 0xffff_ffff_0000_0000] {
        cmp("from_noncanonical_u64", format!("{name} from_noncanonical_u64 {s}"), guarded(|| to_raw::<E, D>(E::from_noncanonical_u64(s))), base(s % P));
        for &hi in &[0u64, 1, 0xffff_ffff, u64::MAX, P, P - 1] {
            let n = ((hi as u128) << 64) | s as u128;
            cmp("from_noncanonical_u128", format!("{name} from_noncanonical_u128 {n}"), guarded(|| to_raw::<E, D>(E::from_noncanonical_u128(n))), base((n % P as u128) as u64));
            if hi <= u32::MAX as u64 {
                cmp("from_noncanonical_u96", format!("{name} from_noncanonical_u96 {n}"), guarded(|| to_raw::<E, D>(E::from_noncanonical_u96((s, hi as u32)))), base((n % P as u128) as u64));
            }
        }
        let i = s as i64;
        let want = if i >= 0 { (i as u64) % P } else { P - ((i.unsigned_abs()) % P) };
        cmp("from_noncanonical_i64", format!("{name} from_noncanonical_i64 {i}"), guarded(|| to_raw::<E, D>(E::from_noncanonical_i64(i))), base(want % P));
        let big = BigUint::from(s) * BigUint::from(u64::MAX) + BigUint::from(s);
        let bw = (&big % BigUint::from(P)).to_u64_digits().first().copied().unwrap_or(0);
        cmp("from_noncanonical_biguint", format!("{name} from_noncanonical_biguint {big}"), guarded(|| to_raw::<E, D>(E::from_noncanonical_biguint(big.clone()))), base(bw));
    }
    if E::characteristic() != BigUint::from(P) {
        ctx.violation(format!("{name}:characteristic"), format!("{name} characteristic"), "characteristic() != p");
    }
    cmp("coset_shift", format!("{name} coset_shift"), guarded(|| to_raw::<E, D>(E::coset_shift())), to_raw::<E, D>(E::MULTIPLICATIVE_GROUP_GENERATOR));
    cmp("constants", format!("{name} constants"), guarded(|| [to_raw::<E, D>(E::ZERO), to_raw::<E, D>(E::ONE), to_raw::<E, D>(E::TWO), to_raw::<E, D>(E::NEG_ONE)].concat()), [base(0), base(1), base(2), base(P - 1)].concat());
    // element-wise defaults on a sub-grid of the coordinate tuples
    let sub: Vec<&Vec<u64>> = ts.iter().step_by((ts.len() / 150).max(1)).collect();
    ctx.count(&format!("{name}_trait_default_inputs"), sub.len() as u64);
    let k_roots: Vec<u64> = [3u64, 5, 7, 11, 13, 17, 2, 4, 9, 1 << 32, 65537].into_iter().collect();
    par_for(sub.len(), |i| {
        let a = sub[i];
        let ea: E = from_raw::<E, D>(a);
        let ca = canon(a);
        let sq = ext_mul(&ca, &ca, w);
        cmp("cube", format!("{name} cube {a:?}"), guarded(|| to_raw::<E, D>(ea.cube())), ext_mul(&sq, &ca, w));
        cmp("triple", format!("{name} triple {a:?}"), guarded(|| to_raw::<E, D>(ea.triple())), ext_add(&ext_add(&ca, &ca), &ca));
        for k in [0usize, 1, 2, 5, 63, 64, 65] {
            let e = BigUint::from(1u8) << k;
            cmp("exp_power_of_2", format!("{name} exp_power_of_2 {a:?} {k}"), guarded(|| to_raw::<E, D>(ea.exp_power_of_2(k))), ext_pow(&ca, &e, w));
        }
        for e in [0u64, 1, 2, 3, 7, 1 << 32, (1 << 32) + 1, 1 << 63, P, u64::MAX - 1] {
            cmp("exp_u64", format!("{name} exp_u64 {a:?} {e}"), guarded(|| to_raw::<E, D>(ea.exp_u64(e))), ext_pow(&ca, &BigUint::from(e), w));
        }
        for e in [BigUint::from(0u8), BigUint::from(1u8) << 64, (BigUint::from(1u8) << 128) + BigUint::from(3u8), om1.clone(), order.clone()] {
            cmp("exp_biguint", format!("{name} exp_biguint {a:?} {e}"), guarded(|| to_raw::<E, D>(ea.exp_biguint(&e))), ext_pow(&ca, &e, w));
        }
        // powers / shifted_powers, incl. the iterator shortcuts
        let mut pw = vec![ext_one(D)];
        for _ in 0..9 {
            let l = pw.last().unwrap().clone();
            pw.push(ext_mul(&l, &ca, w));
        }
        let pflat: Vec<u64> = pw.iter().take(6).flatten().copied().collect();
        cmp("powers", format!("{name} powers {a:?}"), guarded(|| ea.powers().take(6).flat_map(|e| to_raw::<E, D>(e)).collect()), pflat);
        cmp("powers_nth", format!("{name} powers_nth {a:?}"), guarded(|| { let mut it = ea.powers(); let x = it.nth(4).unwrap(); let y = it.next().unwrap(); let z = it.nth(2).unwrap(); [to_raw::<E, D>(x), to_raw::<E, D>(y), to_raw::<E, D>(z)].concat() }), [pw[4].clone(), pw[5].clone(), pw[8].clone()].concat());
        let sh = sub[(i * 7 + 3) % sub.len()];
        let csh = canon(sh);
        let sflat: Vec<u64> = pw.iter().take(4).flat_map(|x| ext_mul(x, &csh, w)).collect();
        cmp("shifted_powers", format!("{name} shifted_powers {a:?} {sh:?}"), guarded(|| ea.shifted_powers(from_raw::<E, D>(sh)).take(4).flat_map(|e| to_raw::<E, D>(e)).collect()), sflat);
        let y = sub[(i * 11 + 5) % sub.len()];
        cmp("multiply_accumulate", format!("{name} multiply_accumulate {a:?} {sh:?} {y:?}"), guarded(|| to_raw::<E, D>(ea.multiply_accumulate(from_raw::<E, D>(sh), from_raw::<E, D>(y)))), ext_add(&ca, &ext_mul(&csh, &canon(y), w)));
        let zero = ca.iter().all(|x| *x == 0);
        if !zero {
            let case = format!("{name} inverse {a:?}");
            if ctx.want(&case) {
                ctx.tick(1);
                match guarded(|| to_raw::<E, D>(ea.inverse())) {
                    Ok(inv) if ext_mul(&inv, &ca, w) == ext_one(D) => ctx.class(format!("{name}:inverse():ok")),
                    Ok(inv) => ctx.violation(format!("{name}:inverse"), case, format!("a * inverse(a) != 1 (got {inv:?})")),
                    Err(p) => ctx.violation(format!("{name}:inverse:panic"), case, p),
                }
            }
        }
        // k-th roots where x -> x^k permutes the field (gcd(k, |E|-1) = 1 by the harness's own gcd)
        for &k in &k_roots {
            let perm = k == 1 || (k != 0 && num::Integer::gcd(&om1, &BigUint::from(k)) == BigUint::from(1u8));
            let case = format!("{name} kth_root_u64 {a:?} {k}");
            if !ctx.want(&case) {
                continue;
            }
            ctx.tick(1);
            match guarded(|| E::is_monomial_permutation_u64(k)) {
                Ok(b) if b == perm => {}
                other => ctx.violation(format!("{name}:is_monomial_permutation_u64"), case.clone(), format!("got {other:?}, gcd says {perm}")),
            }
            if perm {
                match guarded(|| to_raw::<E, D>(ea.kth_root_u64(k))) {
                    Ok(r) if ext_pow(&r, &BigUint::from(k), w) == ca => ctx.class(format!("{name}:kth_root:ok")),
                    Ok(r) => ctx.violation(format!("{name}:kth_root_u64"), case, format!("root^k != a (root {r:?})")),
                    Err(p) => ctx.violation(format!("{name}:kth_root_u64:panic"), case, p),
                }
            }
        }
    });
    // batch inversion for every length 0..=13 over non-zero sub-grid elements (four interleaved chains + tail)
    let nonzero: Vec<&Vec<u64>> = sub.iter().copied().filter(|t| t.iter().any(|x| x % P != 0)).collect();
    for len in 0..=13usize {
        for rot in 0..3usize {
            let v: Vec<E> = (0..len).map(|i| from_raw::<E, D>(nonzero[(i * (rot + 1) + rot * 17) % nonzero.len()])).collect();
            let case = format!("{name} batch_inverse len={len} rot={rot}");
            if !ctx.want(&case) {
                continue;
            }
            ctx.tick(1);
            match guarded(|| E::batch_multiplicative_inverse(&v)) {
                Ok(out) => {
                    let ok = out.len() == len && out.iter().zip(&v).all(|(o, x)| ext_mul(&to_raw::<E, D>(*o), &to_raw::<E, D>(*x), w) == ext_one(D));
                    if !ok {
                        ctx.violation(format!("{name}:batch_inverse"), case, "wrong inverse");
                    } else {
                        ctx.class(format!("{name}:batch_inverse:ok"));
                    }
                }
                Err(p) => ctx.violation(format!("{name}:batch_inverse:panic"), case, p),
            }
        }
    }
}

fn batch_inverse(ctx: &Ctx) {
    let alpha = [1u64, P - 1, 7, u64::MAX];
    let mut vectors: Vec<Vec<u64>> = Vec::new();
    for len in 0..=6usize {
        vectors.extend(tuples(&alpha, len));
    }
    for len in 7..=13usize {
        vectors.push((0..len).map(|i| alpha[i % 4]).collect());
        vectors.push((0..len).map(|i| (i as u64 + 2) * 0x1_0000_0001).collect());
        vectors.push((0..len).map(|i| u64::MAX - i as u64).collect());
        vectors.push(dense_vec(len, len as u64));
    }
    ctx.count("batch_inverse_vectors", vectors.len() as u64);
    par_for(vectors.len(), |i| {
        let v = &vectors[i];
        let case = format!("batch_inverse {v:?}");
        if !ctx.want(&case) {
            return;
        }
        ctx.tick(1);
        let fv: Vec<F> = v.iter().map(|x| F(*x)).collect();
        match guarded(|| F::batch_multiplicative_inverse(&fv)) {
            Ok(out) => {
                let ok = out.len() == v.len() && out.iter().zip(v).all(|(o, x)| mulm(o.0, *x) == 1);
                if !ok {
                    ctx.violation("batch_inverse", case, format!("got {:?}", out.iter().map(|o| o.0).collect::<Vec<_>>()));
                } else {
                    ctx.class(format!("batch_inverse:len{}", v.len().min(5)));
                }
            }
            Err(p) => ctx.violation("batch_inverse:panic", case, p),
        }
    });
    // a zero element must panic (documented), never return garbage
    for len in 1..=9usize {
        for pos in 0..len {
            let mut v: Vec<F> = (0..len).map(|i| F(i as u64 + 2)).collect();
            v[pos] = F(if pos % 2 == 0 { 0 } else { P });
            let case = format!("batch_inverse_zero len={len} pos={pos}");
            if !ctx.want(&case) {
                continue;
            }
            ctx.tick(1);
            match guarded(|| F::batch_multiplicative_inverse(&v)) {
                Ok(out) => ctx.violation("batch_inverse_zero", case, format!("returned {:?} for an input containing zero", out.iter().map(|o| o.0).collect::<Vec<_>>())),
                Err(_) => ctx.class("batch_inverse_zero:panics"),
            }
        }
    }
    // extension batch inverse
    type E2 = QuadraticExtension<F>;
    let ts = tuples(&[1u64, u64::MAX, 0, 5], 2);
    let nonzero: Vec<&Vec<u64>> = ts.iter().filter(|t| t.iter().any(|x| x % P != 0)).collect();
    for len in 0..=9usize {
        let v: Vec<E2> = (0..len).map(|i| from_raw::<E2, 2>(nonzero[i % nonzero.len()])).collect();
        ctx.tick(1);
        match guarded(|| E2::batch_multiplicative_inverse(&v)) {
            Ok(out) => {
                let ok = out.len() == len && out.iter().zip(&v).all(|(o, x)| ext_mul(&to_raw::<E2, 2>(*o), &to_raw::<E2, 2>(*x), 7) == ext_one(2));
                if !ok {
                    ctx.violation("batch_inverse_ext2", format!("batch_inverse_ext2 len={len}"), "wrong inverse");
                }
            }
            Err(p) => ctx.violation("batch_inverse_ext2:panic", format!("batch_inverse_ext2 len={len}"), p),
        }
    }
}

fn packed(ctx: &Ctx, r: &[u64]) {
    type PF = <F as Packable>::Packing;
    let w = PF::WIDTH;
    ctx.count("packed_width", w as u64);
    let n = r.len();
    par_for(n, |i| {
        let a = r[i];
        for &b in r {
            for lane in 0..w {
                // the pair under test sits in `lane`; other lanes hold a different pair
                let mut xa = vec![F(P - 3); w];
                let mut xb = vec![F(u64::MAX); w];
                for l in 0..w {
                    xa[l] = F(r[(i + 3 * l + 1) % n]);
                    xb[l] = F(r[(i + 5 * l + 2) % n]);
                }
                xa[lane] = F(a);
                xb[lane] = F(b);
                let pa = *PF::from_slice(&xa);
                let pb = *PF::from_slice(&xb);
                let ops: [(&str, Box<dyn Fn() -> PF>, Box<dyn Fn(u64, u64) -> u64>); 6] = [
                    ("padd", Box::new(move || pa + pb), Box::new(addm)),
                    ("psub", Box::new(move || pa - pb), Box::new(subm)),
                    ("pmul", Box::new(move || pa * pb), Box::new(mulm)),
                    ("pneg", Box::new(move || -pa), Box::new(|x, _| negm(x))),
                    ("psquare", Box::new(move || pa.square()), Box::new(|x, _| mulm(x, x))),
                    ("pscalar_mul", Box::new(move || pa * F(b)), Box::new(move |x, _| mulm(x, b))),
                ];
                for (name, f, reff) in ops.iter() {
                    let case = format!("{name} lane={lane} {a} {b}");
                    if !ctx.want(&case) {
                        continue;
                    }
                    ctx.tick(1);
                    match guarded(|| f().as_slice().iter().map(|x| x.0).collect::<Vec<_>>()) {
                        Ok(res) => {
                            let mut ok = true;
                            for l in 0..w {
                                if res[l] % P != reff(xa[l].0, xb[l].0) {
                                    ok = false;
                                }
                            }
                            if !ok {
                                ctx.violation(format!("packed:{name}"), case, format!("lanes {res:?} for a={:?} b={:?}", xa.iter().map(|x| x.0).collect::<Vec<_>>(), xb.iter().map(|x| x.0).collect::<Vec<_>>()));
                            } else {
                                ctx.class(format!("packed:{name}:ok"));
                            }
                        }
                        Err(p) => ctx.violation(format!("packed:{name}:panic"), case, p),
                    }
                }
            }
        }
    });
    // interleave for every block length
    let mut bl = 1;
    while bl <= w {
        let xa: Vec<F> = (0..w).map(|i| F(i as u64)).collect();
        let xb: Vec<F> = (0..w).map(|i| F(100 + i as u64)).collect();
        let (ra, rb) = PF::from_slice(&xa).interleave(*PF::from_slice(&xb), bl);
        ctx.tick(1);
        // definition: blocks of length bl are transposed between the two vectors
        let mut ea = xa.clone();
        let mut eb = xb.clone();
        if bl < w {
            let mut i = 0;
            while i < w {
                for j in 0..bl {
                    ea[i + bl + j] = xb[i + j];
                    eb[i + j] = xa[i + bl + j];
                }
                i += 2 * bl;
            }
        }
        if ra.as_slice() != &ea[..] || rb.as_slice() != &eb[..] {
            ctx.violation("packed:interleave", format!("interleave block_len={bl}"), format!("got {:?} {:?}", ra.as_slice(), rb.as_slice()));
        }
        bl *= 2;
    }
    // batch_multiply_inplace / batch_add_inplace for all lengths crossing the packed leftover path
    for len in 0..=(2 * w + 1).max(9) {
        let a: Vec<F> = (0..len).map(|i| F(r[(i * 7 + 3) % n])).collect();
        let b: Vec<F> = (0..len).map(|i| F(r[(i * 11 + 5) % n])).collect();
        let mut m = a.clone();
        plonky2_field::batch_util::batch_multiply_inplace(&mut m, &b);
        let mut s = a.clone();
        plonky2_field::batch_util::batch_add_inplace(&mut s, &b);
        ctx.tick(2);
        for i in 0..len {
            if m[i].0 % P != mulm(a[i].0, b[i].0) {
                ctx.violation("batch_multiply_inplace", format!("batch_multiply_inplace len={len}"), format!("index {i}"));
            }
            if s[i].0 % P != addm(a[i].0, b[i].0) {
                ctx.violation("batch_add_inplace", format!("batch_add_inplace len={len}"), format!("index {i}"));
            }
        }
    }
    ctx.class(format!("packed:width{w}"));
}
