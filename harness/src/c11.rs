//! C11 — the in-circuit STARK verifier agrees with the native STARK verifier.
//!
//! Differential fault enumeration (same oracle shape as C06). For each (model STARK, inner
//! StarkConfig, outer-circuit mode) the outer plonky2 circuit `verify_stark_proof_circuit` + re-exposed
//! inner public inputs is built ONCE:
//!   * exact mode:  `add_virtual_stark_proof_with_pis(.., degree_bits)`, `min_degree_bits_to_support = None`;
//!   * padded mode: sized for `max` with `Some(min)`: one circuit for every supported power-of-two length
//!     in `min..=max`; proofs are produced by the real prover with `verifier_circuit_fri_params =
//!     config.fri_params(max)` (the prover / verifier transcripts then absorb zero caps and zero final-polynomial
//!     coefficients; the proof object itself is NOT padded, `set_fri_proof_target` zero-fills the targets).
//! Then a set of inner proofs is pushed through the library's own assignment routine
//! (`set_stark_proof_with_pis_target(.., degree_bits argument, zero)`) and witness generation.
//!
//! Oracle.  N := native `verify_stark_proof(stark, proof, config, vparams)` is Ok, where `vparams` is what the
//!               circuit mode prescribes (`None` for an exact circuit, `Some(fri_params(max))` for a padded one —
//!               exactly how starky's own `test_recursive_verifier_with_multiple_degree_bits` verifies natively);
//!          N' := N  AND  the `degree_bits` argument equals the proof's real length  AND  that length lies in
//!               the window the circuit was built for;
//!          C := assignment Ok AND witness generation Ok without panic AND exact `sat` on the outer circuit.
//! Required: N' <=> C for every case; for honest proofs additionally N itself, and (subset) outer prove +
//! verify + re-exposed public inputs.
//!
//! Admissibility. The padded mode has tight documented preconditions. They are restated here as a reference
//! predicate (`Tuple::{provable, max_ok, fits}`) written out from the asserts in starky::prover::prove / FriReductionStrategy /
//! fri_verifier_query_round_with_multiple_degree_bits, and the whole candidate grid
//! (arity, final bits, rate, cap, max <= 12, the 5 lengths below max) is scanned against the real prover and
//! native verifier: predicted-admissible => proves and verifies; prover panic => must be predicted. A length
//! inside a window whose honest proof is larger than the circuit's targets (documented: the circuit's maximum
//! must yield the longest final polynomial; `set_fri_proof_target` returns "target length is less than the proof
//! length") is classified `unsupported-length`, and only if the reference predicate says it does not fit.
//!
//! Adversarial provers. Single-element tampering cannot exhibit a missing constraint in a Merkle-bound
//! protocol, so three harness-side forgers (public API only, see `forge`) build complete proof objects whose
//! ground truth is known (a statement the committed trace violates / a trace of another length); both
//! verifiers must reject them:
//!   FullInterpolant  padded circuits: the full interpolant of the last FRI layer sent as final polynomial
//!                    (targets for the maximum length are longer than the proof's own length admits);
//!   NoQuotientCap    `quotient_polys_cap = None`, quotient leaves chosen after the challenges;
//!   ShorterTrace     exact circuits: an honest proof of a 2^d' trace committed at blow-up 2^(rate + d - d').
//!
//! Constant traces (every committed polynomial constant, FRI function identically zero, Merkle paths position
//! independent) leave many proof elements information-theoretically unbound; disagreements of the two
//! verifiers on malformed proofs of such traces are observed (class + counter), not judged.

use std::collections::BTreeMap;

use plonky2::fri::FriParams;
use plonky2::iop::generator::generate_partial_witness;
use plonky2::iop::target::Target;
use plonky2::iop::witness::PartialWitness;
use plonky2::plonk::circuit_builder::CircuitBuilder;
use plonky2::plonk::circuit_data::CircuitData;
use plonky2::util::timing::TimingTree;
use serde_json::{json, Value};
use starky::config::StarkConfig;
use starky::proof::StarkProofWithPublicInputsTarget;
use starky::recursive_verifier::{add_virtual_stark_proof_with_pis, set_stark_proof_with_pis_target, verify_stark_proof_circuit};

use crate::core::*;
use crate::plonkm::{cfg_small, sat, sat_prepare, SatCtx};
use crate::starkm::*;
use crate::with_model_stark;

// ---------------------------------------------------------------------------------------------
// Reference model of the FRI reduction schedule and of the documented preconditions.

/// `ConstantArityBits(a, f)` schedule for a trace of `d` bits: None = the documented assert
/// `degree_bits >= arity_bits` inside the loop fires. Returns (number of steps, final polynomial bits).
fn schedule(a: usize, f: usize, rate: usize, cap: usize, d: usize) -> Option<(usize, usize)> {
    let (mut x, mut steps) = (d, 0);
    while x > f {
        // the library evaluates `degree_bits + rate_bits - arity_bits >= cap_height` on usize: when the
        // difference would be negative it wraps (or panics on overflow checks), the loop goes on and the
        // assert fires
        if x + rate < a {
            return None;
        }
        if x + rate - a < cap {
            break;
        }
        if x < a {
            return None;
        }
        x -= a;
        steps += 1;
    }
    Some((steps, x))
}

#[derive(Clone, Copy, Debug, PartialEq, Eq)]
struct Tuple {
    a: usize,
    f: usize,
    rate: usize,
    cap: usize,
}

impl Tuple {
    fn cfg(&self, num_challenges: usize) -> Cfg {
        Cfg { rate_bits: self.rate, cap_height: self.cap, num_challenges, queries: 2, pow_bits: 0, arity: Arity::Constant(self.a, self.f) }
    }
    fn sched(&self, d: usize) -> Option<(usize, usize)> {
        schedule(self.a, self.f, self.rate, self.cap, d)
    }
    /// Prover-side asserts for proving a trace of `d` bits (no padding).
    fn provable(&self, d: usize) -> bool {
        match self.sched(d) {
            // "FRI total reduction arity is too large."
            Some((steps, _)) => d >= 1 && steps * self.a + self.cap <= d + self.rate,
            None => false,
        }
    }
    /// `assert_eq!(final_poly_coeff_len(max), 1 << (1 + final_poly_bits))` in starky::prover::prove.
    fn max_ok(&self, max: usize) -> bool {
        matches!(self.sched(max), Some((_, fin)) if fin == self.f + 1)
    }
    /// An honest proof of `d` bits fits the targets of a circuit sized for `max`.
    fn fits(&self, d: usize, max: usize) -> bool {
        match (self.sched(d), self.sched(max)) {
            (Some((s, fin)), Some((sm, fm))) => d <= max && s <= sm && fin <= fm,
            _ => false,
        }
    }
    fn tag(&self) -> String {
        format!("a{}f{}r{}c{}", self.a, self.f, self.rate, self.cap)
    }
}

// ---------------------------------------------------------------------------------------------
// Outer circuits

#[derive(Clone, Debug)]
struct Spec {
    member: usize,
    tuple: Tuple,
    num_challenges: usize,
    max: usize,
    /// None = exact mode
    min: Option<usize>,
    /// full fault enumeration (otherwise honest proofs + degree arguments only)
    deep: bool,
}

impl Spec {
    fn name(&self, fam: &[Member]) -> String {
        let mode = match self.min {
            None => format!("x{}", self.max),
            Some(m) => format!("m{}-{}", m, self.max),
        };
        format!("{}|{}k{}|{}", fam[self.member].def.name, self.tuple.tag(), self.num_challenges, mode)
    }
    fn lo(&self) -> usize {
        self.min.unwrap_or(self.max)
    }
}

struct Outer {
    name: String,
    spec: Spec,
    def: Def,
    gen: Member,
    ssc: StarkConfig,
    vparams: Option<FriParams>,
    data: CircuitData<F, C, D>,
    pt: StarkProofWithPublicInputsTarget<D>,
    zero: Target,
    sat: SatCtx,
    /// every row of the generated traces is the same: all committed polynomials are constants, the FRI
    /// function is identically zero, Merkle paths are position-independent
    constant_trace: bool,
}

fn build_outer(fam: &[Member], spec: &Spec) -> Result<Outer, String> {
    let m = &fam[spec.member];
    let def = &m.def;
    let ssc = spec.tuple.cfg(spec.num_challenges).stark_config();
    let built = guarded(|| {
        let mut builder = CircuitBuilder::<F, D>::new(cfg_small(2, 1));
        let zero = builder.zero();
        let pt = with_model_stark!(def, S, {
            let stark = S::new(def);
            let pt = add_virtual_stark_proof_with_pis::<F, S, D>(&mut builder, &stark, &ssc, spec.max, 0, 0);
            verify_stark_proof_circuit::<F, C, S, D>(&mut builder, stark, pt.clone(), &ssc, spec.min);
            pt
        });
        builder.register_public_inputs(&pt.public_inputs);
        (builder.build::<C>(), pt, zero)
    });
    let (data, pt, zero) = built?;
    let sat = sat_prepare(&data);
    let vparams = spec.min.map(|_| ssc.fri_params(spec.max));
    let (rows, _) = m.trace(4, 1);
    let constant_trace = rows.iter().all(|r| r == &rows[0]);
    Ok(Outer { name: spec.name(fam), spec: spec.clone(), def: def.clone(), gen: m.clone(), ssc, vparams, data, pt, zero, sat, constant_trace })
}

/// C: Ok(outer public inputs) = the outer circuit accepts the assignment derived from `proof`.
fn circuit_accepts(o: &Outer, proof: &Proof, arg: usize) -> Result<(Vec<F>, PartialWitness<F>), String> {
    let r = guarded(|| {
        let mut pw = PartialWitness::new();
        set_stark_proof_with_pis_target::<F, C, _, D>(&mut pw, &o.pt, proof, arg, o.zero)?;
        Ok::<_, anyhow::Error>(pw)
    });
    let pw = match r {
        Ok(Ok(pw)) => pw,
        Ok(Err(e)) => return Err(format!("assign-err: {e}")),
        Err(p) => return Err(format!("assign-panic: {}", truncate(&p, 80))),
    };
    let w = match guarded(|| generate_partial_witness(pw.clone(), &o.data.prover_only, &o.data.common)) {
        Err(p) => return Err(format!("witgen-panic: {}", truncate(&p, 80))),
        Ok(Err(e)) => return Err(format!("witgen-err: {}", truncate(&e.to_string(), 80))),
        Ok(Ok(w)) => w,
    };
    let rm = &o.data.prover_only.representative_map;
    let values: Vec<F> = (0..rm.len()).map(|i| w.values[rm[i]].unwrap_or(plonky2::field::types::Field::ZERO)).collect();
    let nw = o.data.common.config.num_wires;
    let degree = o.data.common.degree();
    let pis: Vec<F> = o.data.prover_only.public_inputs.iter().map(|t| values[t.index(nw, degree)]).collect();
    sat(&o.data, &o.sat, &values, &pis).map_err(|e| format!("unsat: {e}"))?;
    Ok((pis, pw))
}

fn native(o: &Outer, proof: &Proof) -> Verdict {
    let (def, vp) = (&o.def, &o.vparams);
    let r = guarded(|| with_model_stark!(def, S, starky::verifier::verify_stark_proof::<F, C, S, D>(S::new(def), proof.clone(), &o.ssc, vp.clone())));
    match r {
        Ok(Ok(())) => Verdict::Accepted,
        Ok(Err(e)) => Verdict::Rejected(format!("{e:#}")),
        Err(p) => Verdict::Panicked(p),
    }
}

/// `starky::prover::prove` with the padding argument.
fn prove_with(def: &Def, ssc: &StarkConfig, rows: &Rows, pis: &[u64], lenient: bool, vparams: Option<FriParams>) -> ProveOutcome {
    let trace = to_poly_values(rows, def.cols);
    let pis = to_field(pis);
    starky::verif_hooks::knobs::set_lenient_quotient(lenient);
    plonky2_field::verif_hooks::set_seed(Some(0x5eed_c11));
    let r = guarded(|| with_model_stark!(def, S, starky::prover::prove::<F, C, S, D>(S::new(def), ssc, trace.clone(), &pis, vparams.clone(), &mut TimingTree::default())));
    plonky2_field::verif_hooks::set_seed(None);
    starky::verif_hooks::knobs::set_lenient_quotient(false);
    match r {
        Ok(Ok(p)) => ProveOutcome::Proof(Box::new(p)),
        Ok(Err(e)) => ProveOutcome::Err(format!("{e:#}")),
        Err(p) => ProveOutcome::Panic(p),
    }
}

fn real_bits(o: &Outer, p: &Proof) -> Option<usize> {
    guarded(|| p.proof.recover_degree_bits(&o.ssc)).ok()
}

const TOO_LONG: &str = "target length is less than the proof length";

fn reason_class(e: &str) -> String {
    let head = e.split(':').next().unwrap_or("");
    if head == "unsat" {
        let kind = e.split(':').nth(1).unwrap_or("").trim();
        let g = e.split(':').nth(2).unwrap_or("").trim();
        let g: String = g.split(|c: char| c == ' ' || c == '{' || c == '<' || c == '(').next().unwrap_or("").to_string();
        format!("unsat-{kind}-{g}")
    } else if e.contains(TOO_LONG) {
        "assign-err-too-long".to_string()
    } else {
        head.to_string()
    }
}

/// One differential case. Err((direction, detail)).
fn differential(o: &Outer, p: &Proof, arg: usize, what: &str) -> Result<String, (String, String)> {
    let n = native(o, p);
    let rb = if n.accepted() { real_bits(o, p) } else { None };
    let in_window = rb.map_or(false, |b| o.spec.lo() <= b && b <= o.spec.max);
    let n_eff = n.accepted() && rb == Some(arg) && in_window;
    let c = circuit_accepts(o, p, arg);
    let nclass = if n.accepted() {
        if n_eff {
            "accepted".to_string()
        } else if !in_window {
            "accepted-but-length-outside-window".to_string()
        } else {
            "accepted-but-wrong-degree-argument".to_string()
        }
    } else {
        n.class()
    };
    match (n_eff, &c) {
        (true, Ok(_)) => Ok(format!("{what}:both-accept")),
        (true, Err(e)) => {
            if e.contains(TOO_LONG) && !o.spec.tuple.fits(arg, o.spec.max) {
                return Ok(format!("{what}:unsupported-length-in-window(documented)"));
            }
            Err(("native-accepts-circuit-rejects".into(), format!("native verifier ACCEPTS (length {arg} inside the window, degree argument right) but the in-circuit verifier rejects the derived assignment: {e}")))
        }
        (false, Ok(_)) => Err(("circuit-accepts-native-rejects".into(), format!("native side says {nclass} (degree argument {arg}, real length {rb:?}) but the derived assignment SATISFIES the outer circuit"))),
        (false, Err(e)) => Ok(format!("{what}:both-reject:native-{nclass}:circuit-{}", reason_class(e))),
    }
}


// ---------------------------------------------------------------------------------------------
// Adversarial provers (harness-side; public plonky2 / starky API only).
//
// Challenges are obtained from the library's own public `get_challenges` on the partially built proof
// object (every challenge depends only on the parts of the transcript absorbed before it), so no transcript
// logic is replicated here; the FRI function is computed from the committed leaves with the verifier's own
// combination formula and folded in coefficient form. If a forger's arithmetic were wrong, both verifiers
// would reject and the case would be a plain `both-reject`: the real verifiers are the only judges.
//
// FullInterpolant (padded circuits). The final-polynomial targets have the length the MAXIMUM length needs
//   (2^fm coefficients). For a shorter proof whose last FRI layer lives on 2^(fin + rate) <= 2^fm points, ANY
//   function on that domain is interpolated by a polynomial that fits the targets. The forger commits an honest
//   trace for a FALSE statement (last public input + 1), arbitrary "quotient" polynomials, claims quotient
//   openings that make the vanishing identity hold at zeta (t_0(zeta) := V(zeta) / Z_H(zeta)), folds the resulting
//   non-low-degree FRI function honestly and sends the full interpolant of the last layer as final polynomial.
//   Native: rejected (final polynomial longer than fri_params(d) allows). Property: the circuit must reject too.
// NoQuotientCap (any circuit). Same false statement and forged quotient openings, but `quotient_polys_cap = None`:
//   the quotient "oracle" is then neither absorbed into the transcript nor authenticated, so its leaves can be
//   chosen AFTER all challenges: constants q_0, q_1 with sum_m alpha^m q_m = sum_m alpha^m t_m make the quotient
//   part of the FRI function vanish identically. The circuit has a quotient-cap target (assignment leaves it
//   unset: rejected); the case records what the NATIVE verifier says.
// ShorterTrace(d') (exact circuits). An honest proof for a trace of 2^d' rows, committed with blow-up
//   2^(rate + d - d') so that every Merkle path has the length the circuit for d expects, folded with the
//   circuit's schedule, assigned with degree argument d'. Native: length d is recovered from the Merkle paths
//   and the proof is rejected. Property: a circuit built for exactly 2^d rows must reject it too.

#[derive(Clone, Copy, Debug, PartialEq, Eq)]
enum Forgery {
    FullInterpolant,
    NoQuotientCap,
    ShorterTrace(usize),
}

fn vanishing_at(def: &Def, local: &[FE], next: &[FE], pis: &[F], alphas: &[F], zeta: FE, d: usize) -> Vec<FE> {
    use plonky2::field::types::Field;
    use starky::constraint_consumer::ConstraintConsumer;
    use starky::evaluation_frame::StarkEvaluationFrame;
    use starky::stark::Stark;
    let n = FE::from_canonical_usize(1 << d);
    let g: FE = F::primitive_root_of_unity(d).into();
    let z_x = zeta.exp_power_of_2(d) - FE::ONE;
    let l_0 = z_x / (n * (zeta - FE::ONE));
    let l_last = z_x / (n * (g * zeta - FE::ONE));
    let z_last = zeta - g.inverse();
    let mut consumer = ConstraintConsumer::<FE>::new(alphas.iter().map(|&a| a.into()).collect(), z_last, l_0, l_last);
    let pis_ext: Vec<FE> = pis.iter().map(|&x| x.into()).collect();
    with_model_stark!(def, S, {
        let vars = <S as Stark<F, D>>::EvaluationFrame::<FE, FE, D>::from_values(local, next, &pis_ext);
        S::new(def).eval_packed_generic::<FE, FE, D>(&vars, &mut consumer)
    });
    consumer.accumulators()
}

/// Err = the construction does not apply (not a verdict). Returns the proof and the degree argument to assign.
fn forge(o: &Outer, d: usize, kind: Forgery) -> Result<(Proof, usize), String> {
    use plonky2::field::extension::{flatten, unflatten, FieldExtension};
    use plonky2::field::polynomial::{PolynomialCoeffs, PolynomialValues};
    use plonky2::field::types::{Field, PrimeField64};
    use plonky2::fri::oracle::PolynomialBatch;
    use plonky2::fri::proof::{FriInitialTreeProof, FriProof, FriQueryRound, FriQueryStep};
    use plonky2::fri::structure::FriBatchInfo;
    use plonky2::hash::hash_types::HashOut;
    use plonky2::hash::hashing::PlonkyPermutation;
    use plonky2::hash::merkle_proofs::MerkleProof;
    use plonky2::hash::merkle_tree::MerkleTree;
    use plonky2::hash::poseidon::PoseidonHash;
    use plonky2::iop::challenger::Challenger;
    use plonky2::plonk::plonk_common::reduce_with_powers;
    use plonky2::util::reducing::ReducingFactor;
    use plonky2::util::reverse_index_bits_in_place;
    use starky::proof::{StarkOpeningSet, StarkProof};
    use starky::stark::Stark;
    let reverse_bits = |x: usize, bits: usize| -> usize { (0..bits).fold(0usize, |acc, b| acc | (((x >> b) & 1) << (bits - 1 - b))) };

    let def = &o.def;
    let t = o.spec.tuple;
    let k = o.spec.num_challenges;
    let q = def.quotient_factor();
    if !def.lookups.is_empty() || def.ctl || def.degree == 0 || def.pis == 0 {
        return Err("not applicable".into());
    }
    let (steps, fin) = t.sched(d).ok_or("no schedule")?;
    let target_len = o.pt.proof.opening_proof.final_poly.0.len();
    let (rate, cap) = (t.rate, t.cap);
    // dt = length of the committed trace, rate_eff = its blow-up; the LDE always has d + rate bits
    let (dt, final_len) = match kind {
        Forgery::FullInterpolant => {
            if o.vparams.is_none() || (1usize << (fin + rate)) > target_len || steps > o.pt.proof.opening_proof.commit_phase_merkle_caps.len() {
                return Err("last FRI layer larger than the final-polynomial targets: the test is not vacuous here".into());
            }
            (d, 1usize << (fin + rate))
        }
        Forgery::NoQuotientCap => {
            if k * q < 2 {
                return Err("fewer than two quotient polynomials".into());
            }
            (d, 1usize << fin)
        }
        Forgery::ShorterTrace(dt) => {
            if o.vparams.is_some() || dt >= d || dt == 0 || dt + rate < cap {
                return Err("not applicable".into());
            }
            (dt, 1usize << fin)
        }
    };
    let rate_eff = rate + d - dt;
    let n = 1usize << dt;
    let (rows, mut pis) = o.gen.trace(n, 1);
    if kind != Forgery::ShorterTrace(dt) {
        let last = pis.len() - 1;
        pis[last] = addm(pis[last], 1);
        if satisfied(def, &rows, &pis) {
            return Err("changed public input is not constrained".into());
        }
    }
    let mut timing = TimingTree::default();
    let tc = PolynomialBatch::<F, C, D>::from_values(to_poly_values(&rows, def.cols), rate_eff, false, cap, &mut timing, None);

    // The skeleton's Merkle path length tells `get_challenges` the degree it binds the constraints with
    // (the circuit uses the degree TARGET there): dt.
    let zero_path = MerkleProof::<F, PoseidonHash> { siblings: vec![HashOut::ZERO; dt + rate - cap] };
    let skeleton = FriQueryRound::<F, PoseidonHash, D> { initial_trees_proof: FriInitialTreeProof { evals_proofs: vec![(vec![], zero_path)] }, steps: vec![] };
    let mut p = Proof {
        proof: StarkProof {
            trace_cap: tc.merkle_tree.cap.clone(),
            auxiliary_polys_cap: None,
            quotient_polys_cap: None,
            openings: StarkOpeningSet { local_values: vec![], next_values: vec![], auxiliary_polys: None, auxiliary_polys_next: None, ctl_zs_first: None, quotient_polys: None },
            opening_proof: FriProof { commit_phase_merkle_caps: vec![], query_round_proofs: vec![skeleton], final_poly: PolynomialCoeffs::empty(), pow_witness: F::ZERO },
        },
        public_inputs: to_field(&pis),
    };
    // returns the challenges and the sponge state the last squeeze came from
    let challenges = |p: &Proof| {
        let mut ch = Challenger::<F, PoseidonHash>::new();
        let c = with_model_stark!(def, S, p.get_challenges(&S::new(def), &mut ch, None, None, false, &o.ssc, o.vparams.clone()));
        (c, ch.compact())
    };
    let alphas = challenges(&p).0.stark_alphas;
    let g = F::primitive_root_of_unity(dt);

    // quotient oracle
    let mut qc: Option<PolynomialBatch<F, C, D>> = match kind {
        Forgery::FullInterpolant => {
            let qvals: Vec<PolynomialValues<F>> = (0..k * q).map(|j| PolynomialValues::new((0..n).map(|r| F::from_canonical_usize(1 + j + 3 * r)).collect())).collect();
            Some(PolynomialBatch::<F, C, D>::from_values(qvals, rate_eff, false, cap, &mut timing, None))
        }
        Forgery::NoQuotientCap => None,
        Forgery::ShorterTrace(_) => {
            // the real quotient of the short trace: V_i / Z_H' on a coset of 2^(dt + rq) points, interpolated
            let rq = (0..).find(|r| (1usize << r) >= q + 1).unwrap();
            let bits = dt + rq;
            let shift = F::coset_shift();
            let w = F::primitive_root_of_unity(bits);
            let mut vals: Vec<Vec<F>> = vec![Vec::with_capacity(1 << bits); k];
            for j in 0..1usize << bits {
                let x = shift * w.exp_u64(j as u64);
                let local: Vec<FE> = tc.polynomials.iter().map(|c| c.eval(x).into()).collect();
                let next: Vec<FE> = tc.polynomials.iter().map(|c| c.eval(x * g).into()).collect();
                let v = vanishing_at(def, &local, &next, &p.public_inputs, &alphas, x.into(), dt);
                let z = x.exp_power_of_2(dt) - F::ONE;
                for i in 0..k {
                    let [re, im] = <FE as FieldExtension<D>>::to_basefield_array(&v[i]);
                    if im != F::ZERO {
                        return Err("internal: base-field constraint evaluation left the base field".into());
                    }
                    vals[i].push(re / z);
                }
            }
            let mut chunks = Vec::new();
            for i in 0..k {
                let coeffs = PolynomialValues::new(vals[i].clone()).coset_ifft(shift);
                if coeffs.coeffs[q * n..].iter().any(|c| *c != F::ZERO) {
                    return Err("internal: quotient of the honest short trace has too high a degree".into());
                }
                for j in 0..q {
                    chunks.push(PolynomialCoeffs::new(coeffs.coeffs[j * n..(j + 1) * n].to_vec()));
                }
            }
            Some(PolynomialBatch::<F, C, D>::from_coeffs(chunks, rate_eff, false, cap, &mut timing, None))
        }
    };
    p.proof.quotient_polys_cap = qc.as_ref().map(|b| b.merkle_tree.cap.clone());

    // openings
    let zeta = challenges(&p).0.stark_zeta;
    let zeta_next = zeta * FE::from(g);
    let local: Vec<FE> = tc.polynomials.iter().map(|c| c.to_extension::<D>().eval(zeta)).collect();
    let next: Vec<FE> = tc.polynomials.iter().map(|c| c.to_extension::<D>().eval(zeta_next)).collect();
    let qo: Vec<FE> = match kind {
        Forgery::ShorterTrace(_) => qc.as_ref().unwrap().polynomials.iter().map(|c| c.to_extension::<D>().eval(zeta)).collect(),
        _ => {
            let v = vanishing_at(def, &local, &next, &p.public_inputs, &alphas, zeta, dt);
            let z_h = zeta.exp_power_of_2(dt) - FE::ONE;
            let mut qo = Vec::new();
            for i in 0..k {
                qo.push(v[i] / z_h);
                qo.extend(std::iter::repeat(FE::ZERO).take(q - 1));
            }
            qo
        }
    };
    p.proof.openings.local_values = local.clone();
    p.proof.openings.next_values = next.clone();
    p.proof.openings.quotient_polys = Some(qo.clone());

    let alpha = challenges(&p).0.fri_challenges.fri_alpha;
    if kind == Forgery::NoQuotientCap {
        // unauthenticated, unabsorbed quotient leaves: constants with sum_m alpha^m q_m = sum_m alpha^m t_m
        let w = qo.iter().rev().fold(FE::ZERO, |acc, t| acc * alpha + *t);
        let [w0, w1] = <FE as FieldExtension<D>>::to_basefield_array(&w);
        let [a0, a1] = <FE as FieldExtension<D>>::to_basefield_array(&alpha);
        if a1 == F::ZERO {
            return Err("alpha in the base field".into());
        }
        let q1 = w1 / a1;
        let q0 = w0 - a0 * q1;
        let qvals: Vec<PolynomialValues<F>> = (0..k * q).map(|m| PolynomialValues::new(vec![if m == 0 { q0 } else if m == 1 { q1 } else { F::ZERO }; n])).collect();
        qc = Some(PolynomialBatch::<F, C, D>::from_values(qvals, rate_eff, false, cap, &mut timing, None));
    }
    let qc = qc.unwrap();

    // the FRI function, computed from the leaves exactly as the verifier combines them
    let instance = with_model_stark!(def, S, S::new(def).fri_instance(zeta, g, 0, vec![], &o.ssc));
    let batch_values: Vec<Vec<FE>> = vec![local.iter().chain(qo.iter()).copied().collect(), next.clone()];
    let reduced_openings: Vec<FE> = batch_values.iter().map(|b| ReducingFactor::new(alpha).reduce(b.iter())).collect();
    let trees = [&tc.merkle_tree, &qc.merkle_tree];
    let log_n = d + rate;
    let big_n = 1usize << log_n;
    let mut nat = vec![FE::ZERO; big_n];
    for i in 0..big_n {
        let j = reverse_bits(i, log_n);
        let x: FE = (F::MULTIPLICATIVE_GROUP_GENERATOR * F::primitive_root_of_unity(log_n).exp_u64(j as u64)).into();
        let mut a = ReducingFactor::new(alpha);
        let mut sum = FE::ZERO;
        for (FriBatchInfo { point, polynomials }, ro) in instance.batches.iter().zip(&reduced_openings) {
            let evals: Vec<FE> = polynomials.iter().map(|pi| FE::from(trees[pi.oracle_index].get(i)[pi.polynomial_index])).collect();
            let reduced = a.reduce(evals.iter());
            sum = a.shift(sum);
            sum += (reduced - *ro) / (x - *point);
        }
        nat[j] = sum;
    }
    let mut values = PolynomialValues::new(nat);
    let mut coeffs = values.clone().coset_ifft(F::coset_shift().into());
    let mut shift = F::MULTIPLICATIVE_GROUP_GENERATOR;
    let arity = 1usize << t.a;
    let mut layers: Vec<MerkleTree<F, PoseidonHash>> = Vec::new();
    for s in 0..steps {
        reverse_index_bits_in_place(&mut values.values);
        let leaves: Vec<Vec<F>> = values.values.chunks(arity).map(|c| flatten::<F, D>(c)).collect();
        let tree = MerkleTree::<F, PoseidonHash>::new(leaves, cap);
        p.proof.opening_proof.commit_phase_merkle_caps.push(tree.cap.clone());
        layers.push(tree);
        let beta = challenges(&p).0.fri_challenges.fri_betas[s];
        coeffs = PolynomialCoeffs::new(coeffs.coeffs.chunks_exact(arity).map(|c| reduce_with_powers(c, beta)).collect());
        shift = shift.exp_u64(arity as u64);
        values = coeffs.coset_fft(shift.into());
    }
    // FullInterpolant: the whole last layer; otherwise the low part (the rest is zero: the function IS low-degree)
    if coeffs.coeffs.len() < final_len || coeffs.coeffs[final_len..].iter().any(|c| *c != FE::ZERO) {
        return Err("internal: the folded function does not fit the final polynomial".into());
    }
    coeffs.coeffs.truncate(final_len);
    p.proof.opening_proof.final_poly = coeffs;
    let (c_last, state) = challenges(&p);
    // raw query challenges: the last squeeze, popped from the end (pow response first)
    let out = state.squeeze();
    if out[out.len() - 1] != c_last.fri_challenges.fri_pow_response {
        return Err("internal: sponge layout".into());
    }
    let nq = o.ssc.fri_config.num_query_rounds;
    let indices: Vec<usize> = (0..nq).map(|i| out[out.len() - 2 - i].to_canonical_u64() as usize % big_n).collect();
    if dt == d && indices != c_last.fri_challenges.fri_query_indices {
        return Err("internal: query indices".into());
    }
    let mut rounds = Vec::new();
    for mut x in indices {
        let initial = trees.iter().map(|t| (t.get(x).to_vec(), t.prove(x))).collect();
        let mut st = Vec::new();
        for tree in &layers {
            let evals = unflatten::<F, D>(tree.get(x >> t.a));
            st.push(FriQueryStep { evals, merkle_proof: tree.prove(x >> t.a) });
            x >>= t.a;
        }
        rounds.push(FriQueryRound { initial_trees_proof: FriInitialTreeProof { evals_proofs: initial }, steps: st });
    }
    p.proof.opening_proof.query_round_proofs = rounds;
    if kind == Forgery::NoQuotientCap {
        p.proof.quotient_polys_cap = None;
    }
    Ok((p, dt))
}

/// Copy of `v` with a zeroed copy of the last element appended to the list at `p`.
fn append_zeroed(v: &Value, p: &Path) -> Option<Value> {
    fn zero(v: &mut Value) {
        match v {
            Value::Number(_) => *v = Value::from(0u64),
            Value::Array(a) => a.iter_mut().for_each(zero),
            Value::Object(m) => m.values_mut().for_each(zero),
            _ => {}
        }
    }
    let mut w = v.clone();
    let a = json_at(&mut w, p).as_array_mut()?;
    let mut last = a.last().cloned()?;
    zero(&mut last);
    a.push(last);
    Some(w)
}

// ---------------------------------------------------------------------------------------------
// Case lists

#[derive(Clone, Copy, Debug)]
enum Src {
    /// prepared proof index
    Proof(usize),
    /// (json index, leaf index)
    Leaf(usize, usize),
    /// (json index, list index, mutation); None = append a zeroed copy of the last element
    List(usize, usize, Option<ListMut>),
    /// (json index, leaf index): leaf set to 0
    LeafZero(usize, usize),
    /// forged proof for length d (adversarial provers above)
    Forged(usize, Forgery),
    /// corrupted trace: (d, choice, row, col), proven lazily with the lenient knob
    Bad(usize, usize, usize, usize),
    /// honest trace of length 2^d, quotient polynomial of challenge j perturbed (knob H3b)
    Perturb(usize, usize),
}

struct Case {
    name: String,
    kind: &'static str,
    what: String,
    src: Src,
    arg: usize,
    /// honest cases: N itself must hold; 2 = additionally outer prove + verify
    honest: u8,
}

struct Prepared {
    proofs: Vec<Proof>,
    jsons: Vec<(Value, Vec<Path>, Vec<Path>)>,
    cases: Vec<Case>,
}

/// Strided choice inside each path class: first, last and every `stride`-th element of the class.
fn strided(paths: &[Path], stride: usize) -> Vec<usize> {
    if stride <= 1 {
        return (0..paths.len()).collect();
    }
    let mut by_class: BTreeMap<String, Vec<usize>> = BTreeMap::new();
    for (i, p) in paths.iter().enumerate() {
        by_class.entry(path_class(p)).or_default().push(i);
    }
    let mut out = Vec::new();
    for (_, v) in by_class {
        for (k, &i) in v.iter().enumerate() {
            if k == 0 || k == v.len() - 1 || k % stride == 0 {
                out.push(i);
            }
        }
    }
    out.sort();
    out
}

#[derive(Clone, Copy)]
struct Depth {
    leaf_stride: usize,
    list_stride: usize,
    /// lengths (offsets below max) that get the tamper pass; others get honest + argument cases only
    tamper_all_lengths: bool,
    bad_rows: usize,
    outer_proofs: bool,
    leaf_zero: bool,
}

fn prepare(ctx: &Ctx, fam: &[Member], o: &Outer, dp: &Depth) -> Prepared {
    let def = &o.def;
    let t = o.spec.tuple;
    let (lo, hi) = (o.spec.lo(), o.spec.max);
    let mut pr = Prepared { proofs: Vec::new(), jsons: Vec::new(), cases: Vec::new() };
    let name = &o.name;
    let push_proof = |pr: &mut Prepared, p: Proof| -> usize {
        pr.proofs.push(p);
        pr.proofs.len() - 1
    };
    for d in lo..=hi {
        let n = 1usize << d;
        // a length the prover itself refuses (documented asserts, reference predicate)
        let mut base: Option<usize> = None;
        for ch in 0..3 {
            let (rows, pis) = o.gen.trace(n, ch);
            match prove_with(def, &o.ssc, &rows, &pis, false, o.vparams.clone()) {
                ProveOutcome::Proof(p) => {
                    let i = push_proof(&mut pr, *p);
                    if ch == 1 || base.is_none() {
                        base = Some(i);
                    }
                    pr.cases.push(Case { name: format!("{name}|d{d}|honest pi{ch}"), kind: "honest", what: "honest".into(), src: Src::Proof(i), arg: d, honest: if ch == 0 && dp.outer_proofs { 2 } else { 1 } });
                }
                ProveOutcome::Err(e) | ProveOutcome::Panic(e) => {
                    if t.provable(d) {
                        ctx.violation("honest:prover-fails", format!("{name}|d{d}|honest pi{ch}"), format!("the reference predicate of the prover's documented asserts admits this length, but proving failed: {e}"));
                    } else {
                        ctx.class(format!("inadmissible-length:{}", error_class(&e)));
                        ctx.count("lengths_inadmissible_in_window", 1);
                    }
                }
            }
        }
        let Some(bi) = base else { continue };
        // wrong degree argument (every value 0..=max+2 except the right one)
        for arg in 0..=hi + 2 {
            if arg != d {
                pr.cases.push(Case { name: format!("{name}|d{d}|degree-arg {arg}"), kind: "wrong-degree-arg", what: "wrong-degree-arg".into(), src: Src::Proof(bi), arg, honest: 0 });
            }
        }
        if !o.spec.deep {
            continue;
        }
        // cross mode: the same statement proven with the other / another padding argument
        let mut others: Vec<(String, Option<FriParams>)> = Vec::new();
        if o.vparams.is_some() {
            others.push(("unpadded".into(), None));
        }
        for m2 in d..=(hi + 2 * t.a).min(14) {
            if t.max_ok(m2) && Some(m2) != o.spec.min.map(|_| hi) {
                others.push((format!("padded-for-{m2}"), Some(o.ssc.fri_params(m2))));
            }
        }
        let (rows, pis) = o.gen.trace(n, 1);
        for (tag, vp) in others {
            if let ProveOutcome::Proof(p) = prove_with(def, &o.ssc, &rows, &pis, false, vp) {
                let i = push_proof(&mut pr, *p);
                pr.cases.push(Case { name: format!("{name}|d{d}|cross-mode {tag}"), kind: "cross-mode", what: format!("cross-mode:{}", if tag == "unpadded" { "unpadded" } else { "other-padding" }), src: Src::Proof(i), arg: d, honest: 0 });
            }
        }
        // public inputs changed in the statement handed to the verifier only
        for i in 0..def.pis {
            let mut p = pr.proofs[bi].clone();
            p.public_inputs[i] = to_field(&[addm(plonky2::field::types::PrimeField64::to_canonical_u64(&p.public_inputs[i]), 1)])[0];
            let k = push_proof(&mut pr, p);
            pr.cases.push(Case { name: format!("{name}|d{d}|pi{i}+1 verifier-only"), kind: "wrong-public-input", what: "wrong-public-input".into(), src: Src::Proof(k), arg: d, honest: 0 });
        }
        // bad traces through the real prover (lenient quotient)
        let cols: Vec<usize> = if dp.bad_rows >= 4 { (0..def.cols).collect() } else { vec![0, def.cols - 1] };
        let mut rs = vec![0, n - 1, 1, n / 2];
        rs.truncate(dp.bad_rows.min(4));
        rs.sort();
        rs.dedup();
        let mut cs = cols.clone();
        cs.dedup();
        for &r in &rs {
            for &c in &cs {
                pr.cases.push(Case { name: format!("{name}|d{d}|bad-trace r{r} c{c}"), kind: "bad-trace", what: "bad-trace".into(), src: Src::Bad(d, 1, r, c), arg: d, honest: 0 });
            }
        }
        // transcript-consistent proofs whose quotient identity is false for exactly one challenge index
        if def.degree > 0 {
            for j in 0..o.ssc.num_challenges {
                pr.cases.push(Case { name: format!("{name}|d{d}|quotient of challenge {j} perturbed"), kind: "perturbed-quotient", what: "perturbed-quotient".into(), src: Src::Perturb(d, j), arg: d, honest: 0 });
            }
        }
        // forged proof of a false statement (padded mode, lengths whose last FRI layer fits the final-polynomial targets)
        if o.vparams.is_some() {
            pr.cases.push(Case { name: format!("{name}|d{d}|forged false statement (full interpolant of the last FRI layer as final polynomial)"), kind: "forged-full-interpolant", what: "forged-full-interpolant".into(), src: Src::Forged(d, Forgery::FullInterpolant), arg: d, honest: 0 });
        } else {
            for dt in 1..d {
                pr.cases.push(Case { name: format!("{name}|d{d}|honest proof of a {dt}-bit trace committed with blow-up 2^(rate+{}) and degree argument {dt}", d - dt), kind: "forged-shorter-trace", what: "forged-shorter-trace".into(), src: Src::Forged(d, Forgery::ShorterTrace(dt)), arg: dt, honest: 0 });
            }
        }
        pr.cases.push(Case { name: format!("{name}|d{d}|forged false statement (no quotient cap, quotient leaves chosen after the challenges)"), kind: "forged-no-quotient-cap", what: "forged-no-quotient-cap".into(), src: Src::Forged(d, Forgery::NoQuotientCap), arg: d, honest: 0 });
        // tamper pass
        if !(dp.tamper_all_lengths || d == hi || d == lo) {
            continue;
        }
        let tree = proof_to_json(&pr.proofs[bi]);
        let (leaves, lists) = json_paths(&tree);
        ctx.count("proof_leaves", leaves.len() as u64);
        let ji = pr.jsons.len();
        for li in strided(&leaves, dp.leaf_stride) {
            let p = &leaves[li];
            pr.cases.push(Case { name: format!("{name}|d{d}|leaf {}", path_string(p)), kind: "tampered-leaf", what: format!("leaf:{}", path_class(p)), src: Src::Leaf(ji, li), arg: d, honest: 0 });
            if dp.leaf_zero {
                pr.cases.push(Case { name: format!("{name}|d{d}|leaf {} :=0", path_string(p)), kind: "tampered-leaf", what: format!("leaf0:{}", path_class(p)), src: Src::LeafZero(ji, li), arg: d, honest: 0 });
            }
        }
        for li in strided(&lists, dp.list_stride) {
            let p = &lists[li];
            for (tag, mutn) in [("drop-last", Some(ListMut::DropLast)), ("dup-last", Some(ListMut::DupLast)), ("null", Some(ListMut::Null)), ("append-zeroed", None)] {
                pr.cases.push(Case { name: format!("{name}|d{d}|list {} {tag}", path_string(p)), kind: "mutated-list", what: format!("list:{}:{tag}", path_class(p)), src: Src::List(ji, li, mutn), arg: d, honest: 0 });
            }
        }
        pr.jsons.push((tree, leaves, lists));
    }
    // a proof for another definition of equal shape (same config, same mode, length max)
    if o.spec.deep {
        let mut taken = 0;
        for m2 in fam {
            if m2.def.name == def.name || (m2.def.cols, m2.def.pis) != (def.cols, def.pis) || taken >= 4 {
                continue;
            }
            let (rows, pis) = m2.trace(1 << hi, 1);
            if let ProveOutcome::Proof(p) = prove_with(&m2.def, &o.ssc, &rows, &pis, false, o.vparams.clone()) {
                taken += 1;
                let i = push_proof(&mut pr, *p);
                pr.cases.push(Case { name: format!("{name}|d{hi}|proof made for {}", m2.def.name), kind: "cross-definition", what: "cross-definition".into(), src: Src::Proof(i), arg: hi, honest: 0 });
            }
        }
    }
    // lengths outside the window (the circuit was not built for them): never accepted
    if o.spec.deep {
        for d in [lo.wrapping_sub(1), lo.wrapping_sub(2), hi + 1] {
            if d == usize::MAX || d == usize::MAX - 1 || d == 0 || !t.provable(d) {
                continue;
            }
            let (rows, pis) = o.gen.trace(1 << d, 1);
            for (tag, vp) in [("own-mode", o.vparams.clone()), ("unpadded", None)] {
                if tag == "unpadded" && o.vparams.is_none() {
                    continue;
                }
                if let ProveOutcome::Proof(p) = prove_with(def, &o.ssc, &rows, &pis, false, vp) {
                    let i = push_proof(&mut pr, *p);
                    for arg in [d, lo, hi] {
                        pr.cases.push(Case { name: format!("{name}|d{d}|outside-window {tag} degree-arg {arg}"), kind: "outside-window", what: "outside-window".into(), src: Src::Proof(i), arg, honest: 0 });
                    }
                }
            }
        }
    }
    pr
}

fn run_case(ctx: &Ctx, o: &Outer, pr: &Prepared, c: &Case) -> Result<String, (String, String)> {
    let owned: Proof;
    let p: &Proof = match c.src {
        Src::Proof(i) => &pr.proofs[i],
        Src::Leaf(ji, li) => {
            let (tree, leaves, _) = &pr.jsons[ji];
            match proof_from_json(&leaf_plus_one(tree, &leaves[li])) {
                Ok(p) => {
                    owned = p;
                    &owned
                }
                Err(_) => return Ok(format!("{}:not-constructible", c.what)),
            }
        }
        Src::LeafZero(ji, li) => {
            let (tree, leaves, _) = &pr.jsons[ji];
            let mut w = tree.clone();
            let leaf = json_at(&mut w, &leaves[li]);
            if leaf.as_u64() == Some(0) {
                return Ok(String::new());
            }
            *leaf = Value::from(0u64);
            match proof_from_json(&w) {
                Ok(p) => {
                    owned = p;
                    &owned
                }
                Err(_) => return Ok(format!("{}:not-constructible", c.what)),
            }
        }
        Src::Forged(d, kind) => match guarded(|| forge(o, d, kind)) {
            Ok(Ok((p, arg))) => {
                if arg != c.arg {
                    return Err(("forger-panicked".into(), "harness: degree argument of the forged case".into()));
                }
                owned = p;
                &owned
            }
            Ok(Err(e)) => return Ok(format!("forged:not-applicable:{}", error_class(&e))),
            Err(e) => return Err(("forger-panicked".into(), format!("harness-side forger panicked: {e}"))),
        },
        Src::List(ji, li, m) => {
            let (tree, _, lists) = &pr.jsons[ji];
            let mutated = match m {
                Some(m) => list_mutate(tree, &lists[li], m),
                None => append_zeroed(tree, &lists[li]),
            };
            let Some(t) = mutated else { return Ok(String::new()) };
            if std::env::var("VERIF_DEBUG").is_ok() {
                eprintln!("DEBUG mutated list {:?}: {}", lists[li], t["proof"]["opening_proof"]["commit_phase_merkle_caps"]);
            }
            match proof_from_json(&t) {
                Ok(p) => {
                    owned = p;
                    &owned
                }
                Err(_) => return Ok(format!("{}:not-constructible", c.what)),
            }
        }
        Src::Perturb(d, j) => {
            let (rows, pis) = o.gen.trace(1 << d, 0);
            starky::verif_hooks::knobs::set_quotient_perturb(Some((j, 1)));
            let out = prove_with(&o.def, &o.ssc, &rows, &pis, true, o.vparams.clone());
            starky::verif_hooks::knobs::set_quotient_perturb(None);
            match out {
                ProveOutcome::Proof(p) => {
                    owned = *p;
                    &owned
                }
                ProveOutcome::Err(e) | ProveOutcome::Panic(e) => return Ok(format!("perturbed-quotient:noproof:{}", error_class(&e))),
            }
        }
        Src::Bad(d, ch, r, col) => {
            let (mut rows, pis) = o.gen.trace(1 << d, ch);
            rows[r][col] = addm(rows[r][col], 1);
            match prove_with(&o.def, &o.ssc, &rows, &pis, true, o.vparams.clone()) {
                ProveOutcome::Proof(p) => {
                    owned = *p;
                    &owned
                }
                ProveOutcome::Err(e) | ProveOutcome::Panic(e) => {
                    ctx.count("bad_trace_noproof", 1);
                    return Ok(format!("bad-trace:noproof:{}", error_class(&e)));
                }
            }
        }
    };
    if let Src::Forged(_, kind) = c.src {
        // ground truth is known: a false statement / a trace of another length. Both verifiers must reject.
        let n = native(o, p);
        let cv = circuit_accepts(o, p, c.arg);
        let what = match kind {
            Forgery::ShorterTrace(_) => "a proof for a trace of a different length than the circuit was built for",
            _ => "a forged proof for public inputs the committed trace does NOT satisfy (last public input + 1, confirmed by the trace checker; for fib_* no trace of this length satisfies them at all)",
        };
        if n.accepted() && matches!(kind, Forgery::ShorterTrace(_)) {
            // the short trace's polynomials happen to satisfy the long statement too (e.g. an all-zero trace):
            // the object IS a valid proof for the circuit's length; nothing to judge
            return Ok("forged-shorter-trace:degenerate-valid-for-both-lengths".into());
        }
        return match (n.accepted(), &cv) {
            (true, _) => Err(("native-accepts".into(), format!("the NATIVE verifier accepts {what}; in-circuit verdict: {}", cv.as_ref().map(|_| "accepts".to_string()).unwrap_or_else(|e| format!("rejects ({e})"))))),
            (false, Ok(_)) => Err(("circuit-accepts-native-rejects".into(), format!("the derived assignment of {what} SATISFIES the outer circuit; native verdict: {}", n.class()))),
            (false, Err(e)) => Ok(format!("{}:both-reject:native-{}:circuit-{}", c.what, n.class(), reason_class(e))),
        };
    }
    if c.honest == 0 {
        let r = differential(o, p, c.arg, &c.what);
        if let (Src::List(ji, _, _), Err((site, _))) = (&c.src, &r) {
            // A list mutation that the native verifier rejects on shape but that fits the (fixed-shape) targets
            // of a padded circuit. If the mutated component ENTERS the transcript (a duplicated, non-zero cap or
            // coefficient in a padding slot), the circuit derives other challenges than the prover used and can
            // only accept when the 2 query indices of these tiny configurations coincide (probability
            // 2^-(queries * lde bits) ~ 2^-10; the verdict floor of DESIGN 3.7 is 2^-40): observed, not judged.
            // Same transcript (surplus zero caps / coefficients / ignored siblings) = deterministic: judged.
            if site == "circuit-accepts-native-rejects" {
                let pow_response = |q: &Proof| {
                    guarded(|| {
                        let mut ch = plonky2::iop::challenger::Challenger::<F, plonky2::hash::poseidon::PoseidonHash>::new();
                        with_model_stark!(&o.def, S, q.get_challenges(&S::new(&o.def), &mut ch, None, None, false, &o.ssc, o.vparams.clone())).fri_challenges.fri_pow_response
                    })
                };
                if let Ok(base) = proof_from_json(&pr.jsons[*ji].0) {
                    if let (Ok(a), Ok(b)) = (pow_response(&base), pow_response(p)) {
                        let bits = o.ssc.fri_config.num_query_rounds * (c.arg + o.ssc.fri_config.rate_bits);
                        if a != b && bits < 40 {
                            ctx.count("list_mutation_accepted_by_query_index_coincidence", 1);
                            return Ok(format!("{}:transcript-differs:accepted-by-query-index-coincidence(p=2^-{bits}):not-judged", c.what));
                        }
                    }
                }
            }
        }
        return r;
    }
    // honest: N itself must hold
    match native(o, p) {
        Verdict::Accepted => {}
        v => return Err(("native-rejects-honest".into(), format!("the native verifier (padding argument {}) does not accept an honest proof: {v:?}", if o.vparams.is_some() { "Some(fri_params(max))" } else { "None" }))),
    }
    let class = differential(o, p, c.arg, "honest")?;
    if c.honest < 2 || !class.ends_with("both-accept") {
        return Ok(class);
    }
    let (_, pw) = circuit_accepts(o, p, c.arg).map_err(|e| ("native-accepts-circuit-rejects".to_string(), e))?;
    plonky2_field::verif_hooks::set_seed(Some(ctx.seed + 211));
    let op = guarded(|| o.data.prove(pw));
    plonky2_field::verif_hooks::set_seed(None);
    let op = match op {
        Ok(Ok(op)) => op,
        Ok(Err(e)) => return Err(("outer-prove-fails".into(), format!("outer prove failed on a valid inner proof: {e}"))),
        Err(e) => return Err(("outer-prove-fails".into(), format!("outer prove panicked on a valid inner proof: {e}"))),
    };
    if op.public_inputs != p.public_inputs {
        return Err(("outer-public-inputs".into(), "the outer proof does not re-expose the inner public inputs".into()));
    }
    match guarded(|| o.data.verify(op.clone())) {
        Ok(Ok(())) => Ok("honest:outer-proof-verifies".into()),
        other => Err(("outer-verify-fails".into(), format!("outer proof rejected: {:?}", other.map(|r| r.map_err(|e| e.to_string()))))),
    }
}

fn judged(ctx: &Ctx, o: &Outer, pr: &Prepared, c: &Case) {
    if !ctx.want(&c.name) {
        return;
    }
    match guarded(|| run_case(ctx, o, pr, c)) {
        Ok(Ok(class)) => {
            ctx.tick(1);
            ctx.count(&format!("cases:{}", c.kind), 1);
            if !class.is_empty() {
                if class.contains("unsupported-length") {
                    ctx.count("unsupported_lengths_in_window", 1);
                }
                ctx.class(class);
            }
        }
        Ok(Err((dir, _))) if o.constant_trace && c.honest == 0 => {
            // With a constant trace every proof element that only steers positions, and every element whose
            // honest value is zero, is information-theoretically unbound (cf. starkm::tamper_all): the two
            // verifiers may legitimately differ on malformed-but-equivalent proofs. Observed, not judged.
            ctx.tick(1);
            ctx.count("constant_trace_disagreements_observed", 1);
            ctx.class(format!("{}:{dir}:degenerate-constant-trace(observed)", c.kind));
        }
        Ok(Err((dir, _))) => {
            // abbreviated path class (core.rs truncates replay file names): fri = proof.opening_proof, qr = query_round_proofs, init = initial_trees_proof.evals_proofs
            let short = c.what.replace("proof.opening_proof.", "fri.").replace("query_round_proofs", "qr").replace("initial_trees_proof.evals_proofs", "init").replace("merkle_proof.", "");
            let site = if c.kind == "tampered-leaf" || c.kind == "mutated-list" { format!("{}:{dir}:{short}", c.kind) } else { format!("{}:{dir}", c.kind) };
            ctx.case(&site, &c.name, || run_case(ctx, o, pr, c).map_err(|(_, d)| d))
        }
        Err(p) => ctx.case("harness/unexpected-panic", &c.name, || Err(format!("panic outside the guarded library calls: {p}"))),
    }
}

// ---------------------------------------------------------------------------------------------
// Grid scan: documented preconditions vs the real prover / native verifier (no circuits).

fn candidate_tuples(thorough: bool) -> Vec<Tuple> {
    let mut v = Vec::new();
    for a in 1..=(if thorough { 4 } else { 3 }) {
        for f in 0..=3 {
            for rate in 1..=3 {
                for cap in 0..=2 {
                    v.push(Tuple { a, f, rate, cap });
                }
            }
        }
    }
    v
}

/// The (tuple, max) pairs the reference predicate admits (the scan checks the predicate against the library).
fn admissible_grid(thorough: bool) -> Vec<(Tuple, usize)> {
    let maxes: Vec<usize> = (2..=(if thorough { 12 } else { 9 })).collect();
    candidate_tuples(thorough).into_iter().flat_map(|t| maxes.iter().map(move |&mx| (t, mx))).filter(|(t, mx)| t.provable(*mx) && t.max_ok(*mx)).collect()
}

fn grid_scan(ctx: &Ctx, fam: &[Member], thorough: bool) {
    let m = fam.iter().find(|m| m.def.name == "fib_c2_p3").expect("fib_c2_p3");
    let maxes: Vec<usize> = (2..=(if thorough { 12 } else { 9 })).collect();
    let cands: Vec<(Tuple, usize)> = candidate_tuples(thorough).into_iter().flat_map(|t| maxes.iter().map(move |&mx| (t, mx))).collect();
    par_for(cands.len(), |i| {
        let (t, mx) = cands[i];
        let ssc = t.cfg(2).stark_config();
        let prefix = format!("scan|{}|max{}|", t.tag(), mx);
        if let Some(f) = &ctx.filter {
            if !f.starts_with(&prefix) {
                return;
            }
        }
        // fri_params(max) itself may hit the documented assert of the reduction schedule
        let vp = match guarded(|| ssc.fri_params(mx)) {
            Ok(vp) => vp,
            Err(_) => {
                if t.sched(mx).is_some() {
                    ctx.violation("scan:fri-params-panics", format!("{prefix}params"), "fri_params(max) panics although the reference schedule is defined");
                }
                return;
            }
        };
        if t.sched(mx).map(|s| s.0) != Some(vp.reduction_arity_bits.len()) {
            ctx.violation("scan:schedule-model", format!("{prefix}params"), format!("reference schedule {:?} vs library {:?}", t.sched(mx), vp.reduction_arity_bits));
            return;
        }
        for d in mx.saturating_sub(4).max(1)..=mx {
            let case = format!("{prefix}d{d}");
            let predicted = t.provable(d) && t.max_ok(mx);
            ctx.case("scan", &case, || {
                let (rows, pis) = m.trace(1 << d, 0);
                match prove_with(&m.def, &ssc, &rows, &pis, false, Some(vp.clone())) {
                    ProveOutcome::Proof(p) => {
                        if !predicted {
                            return Err("the prover produced a padded proof although the reference predicate of its documented asserts says inadmissible".into());
                        }
                        let r = guarded(|| starky::verifier::verify_stark_proof::<F, C, ModelStark<2, 3>, D>(ModelStark::new(&m.def), (*p).clone(), &ssc, Some(vp.clone())));
                        match r {
                            Ok(Ok(())) => Ok(format!("scan:admissible:{}", if t.fits(d, mx) { "fits" } else { "longer-than-circuit" })),
                            other => Err(format!("native verifier with the padding argument rejects an honest padded proof: {:?}", other.map(|r| r.map_err(|e| e.to_string())))),
                        }
                    }
                    ProveOutcome::Err(e) | ProveOutcome::Panic(e) => {
                        if predicted {
                            Err(format!("predicted admissible but the prover failed: {e}"))
                        } else {
                            Ok(format!("scan:inadmissible:{}", error_class(&e)))
                        }
                    }
                }
            });
        }
    });
    ctx.count("scan_candidates", cands.len() as u64);
}

// ---------------------------------------------------------------------------------------------

fn member_idx(fam: &[Member], name: &str) -> usize {
    fam.iter().position(|m| m.def.name == name).unwrap_or_else(|| panic!("no member {name}"))
}

/// First window (largest first) for `t` with max <= `cap_max`, at least `want` supported lengths below max.
fn pick_window(t: Tuple, adm: &[(Tuple, usize)], max_le: usize, width: usize) -> Option<(usize, usize)> {
    let mut best = None;
    for &(t2, mx) in adm {
        if t2 != t || mx > max_le || mx < width + 1 {
            continue;
        }
        let min = mx - width;
        // documented circuit assert: rate + min > cap
        if t.rate + min <= t.cap || min == 0 {
            continue;
        }
        best = Some((min, mx));
    }
    best
}

fn plan(fam: &[Member], adm: &[(Tuple, usize)], thorough: bool) -> Vec<Spec> {
    let mut v = Vec::new();
    let t_any = Tuple { a: 1, f: 0, rate: 1, cap: 2 };
    let t_r1 = Tuple { a: 2, f: 0, rate: 1, cap: 1 };
    let t_r2 = Tuple { a: 2, f: 0, rate: 2, cap: 2 };
    let t_r3 = Tuple { a: 3, f: 0, rate: 3, cap: 2 };
    // final polynomial of 4 coefficients at the maximum: shorter lengths leave two or more padded coefficients
    let t_f1 = Tuple { a: 2, f: 1, rate: 1, cap: 2 };
    // the shape of StarkConfig::standard_fast_config (ConstantArityBits(4, 5), rate 1, cap 4); smallest admissible max = 10
    let t_std = Tuple { a: 4, f: 5, rate: 1, cap: 4 };
    let mi = |n: &str| member_idx(fam, n);
    let mut deep = |name: &str, t: Tuple, k: usize, ex: usize, lo: usize, hi: usize| {
        v.push(Spec { member: mi(name), tuple: t, num_challenges: k, max: ex, min: None, deep: true });
        v.push(Spec { member: mi(name), tuple: t, num_challenges: k, max: hi, min: Some(lo), deep: true });
    };
    if !thorough {
        deep("fib_c2_p3", t_r1, 2, 4, 3, 5);
        deep("pow2_c1_p1", t_f1, 1, 5, 3, 6);
        deep("lk2_high_d2", t_r2, 2, 3, 3, 5);
        deep("free_c3_p1", t_any, 2, 3, 2, 4);
        deep("lin_c2", t_r1, 1, 3, 2, 5);
        deep("lk3_filter_d3", t_any, 1, 4, 3, 5);
        // wide: several simulated opening points in the constraint-binding step of both verifiers
        deep("wide13_p1", t_r1, 2, 4, 3, 5);
        return v;
    }
    // deep: every STARK x every tuple admitting its rate, windows of 3..5 lengths
    let starks: Vec<(&str, usize)> = vec![
        ("free_c1", 1),
        ("free_c3_p1", 1),
        ("lin_c2", 1),
        ("constpi_c1_p1", 1),
        ("alt_c1", 1),
        ("counter_c1_p1", 1),
        ("lastonly_c2_p1", 1),
        ("fib_c2_p3", 1),
        ("popcount_c2_p1", 1),
        ("acc_c2_p1", 1),
        ("fib_slack_c2_p3", 1),
        ("pow2_c1_p1", 1),
        ("firstsq_c1_p1", 1),
        ("pow3_c1_p1", 2),
        ("pow4_c2_p3", 2),
        ("pow8_c1_p1", 3),
        ("wide8_p3", 1),
        ("wide13_p1", 1),
        ("wide16_d3_p1", 1),
        ("wide9_d5_p1", 2),
        ("wide26_lin", 1),
        ("lk1_counter_d2", 1),
        ("lk2_high_d3", 1),
        ("lk3_filter_d2", 1),
        ("lk5_prodfilter_d3", 1),
        ("lk1_perm_d2", 1),
        ("lk_lincomb_d3", 1),
        ("lk_nextrow_d2", 1),
        ("lk_table_nextrow_d2", 1),
        ("lk_two_d3", 1),
        ("lk1_pinned_table_d2", 1),
    ];
    for (si, (name, min_rate)) in starks.iter().enumerate() {
        let tuples: Vec<Tuple> = [t_any, t_r1, t_f1, t_r2, t_r3].into_iter().filter(|t| t.rate >= *min_rate).collect();
        for j in 0..tuples.len() {
            let t = tuples[(si + j) % tuples.len()];
            let k = 1 + (si + j) % 2;
            let width = 2 + (si + j) % 3;
            if let Some((lo, hi)) = pick_window(t, adm, 4 + width, width) {
                let ex = lo + (si % (hi - lo + 1));
                if t.provable(ex) {
                    v.push(Spec { member: mi(name), tuple: t, num_challenges: k, max: ex, min: None, deep: true });
                }
                v.push(Spec { member: mi(name), tuple: t, num_challenges: k, max: hi, min: Some(lo), deep: true });
            }
        }
    }
    // the standard_fast_config shape, window 7..=10
    v.push(Spec { member: mi("fib_c2_p3"), tuple: t_std, num_challenges: 2, max: 10, min: Some(7), deep: true });
    v.push(Spec { member: mi("lk2_high_d3"), tuple: t_std, num_challenges: 2, max: 10, min: Some(8), deep: true });
    // shallow: every admissible (tuple, max <= 10) with the widest window <= 5 lengths, one STARK
    for &(t, mx) in adm {
        if mx > 10 {
            continue;
        }
        let mut min = mx.saturating_sub(4).max(1);
        while t.rate + min <= t.cap {
            min += 1;
        }
        if min > mx {
            continue;
        }
        v.push(Spec { member: mi("fib_c2_p3"), tuple: t, num_challenges: 2, max: mx, min: Some(min), deep: false });
    }
    // documented circuit assert (rate + min > cap): classified, not judged
    v.push(Spec { member: mi("fib_c2_p3"), tuple: Tuple { a: 1, f: 0, rate: 1, cap: 2 }, num_challenges: 2, max: 3, min: Some(1), deep: false });
    v
}

pub fn run(ctx: &Ctx) -> i32 {
    let thorough = ctx.tier.thorough();
    let mut fam = family();
    fam.extend(lookup_family());
    for m in &fam {
        if let Err(e) = validate_def(&m.def) {
            ctx.machinery_error(e);
        }
    }
    grid_scan(ctx, &fam, thorough);
    let adm = admissible_grid(thorough);
    ctx.count("scan_admissible_max", adm.len() as u64);
    let specs: Vec<Spec> = plan(&fam, &adm, thorough)
        .into_iter()
        .filter(|s| match &ctx.filter {
            None => true,
            Some(f) => f.starts_with(&format!("{}|", s.name(&fam))),
        })
        .collect();
    ctx.count("outer_circuits_planned", specs.len() as u64);
    let dp = if thorough {
        Depth { leaf_stride: 1, list_stride: 1, tamper_all_lengths: true, bad_rows: 4, outer_proofs: true, leaf_zero: true }
    } else {
        Depth { leaf_stride: 1, list_stride: 1, tamper_all_lengths: false, bad_rows: 2, outer_proofs: true, leaf_zero: false }
    };
    let mut sampled = 0;
    for batch in specs.chunks(n_workers()) {
        let built: Vec<Option<(Outer, Prepared)>> = par_map(batch.len(), |i| {
            let s = &batch[i];
            let name = s.name(&fam);
            match build_outer(&fam, s) {
                Ok(o) => {
                    if !o.sat.static_issues.is_empty() {
                        ctx.violation("outer-static", format!("{name}|static"), o.sat.static_issues.join("; "));
                    }
                    let dp_s = if s.deep { dp } else { Depth { leaf_stride: 1, list_stride: 1, tamper_all_lengths: false, bad_rows: 0, outer_proofs: false, leaf_zero: false } };
                    let pr = prepare(ctx, &fam, &o, &dp_s);
                    Some((o, pr))
                }
                Err(p) => {
                    // documented: `assert!(*log_n_range.start() > params.config.cap_height)`
                    let documented = s.min.map_or(false, |m| s.tuple.rate + m <= s.tuple.cap) && p.contains("log_n_range.start() > params.config.cap_height");
                    if documented {
                        ctx.tick(1);
                        ctx.class("inadmissible-window:min-lde-bits-not-above-cap(documented assert)");
                    } else {
                        ctx.violation("outer-build", format!("{name}|build"), format!("the outer circuit does not build for an admissible tuple: {p}"));
                    }
                    None
                }
            }
        });
        let built: Vec<(Outer, Prepared)> = built.into_iter().flatten().collect();
        let flat: Vec<(usize, usize)> = built.iter().enumerate().flat_map(|(bi, (_, pr))| (0..pr.cases.len()).map(move |ci| (bi, ci))).collect();
        ctx.count("outer_circuits_built", built.len() as u64);
        for (o, pr) in &built {
            ctx.count("outer_rows_total", o.sat.degree as u64);
            if sampled < 6 && !ctx.replaying() {
                sampled += 1;
                ctx.sample(json!({
                    "outer": o.name, "outer_rows": o.sat.degree, "mode": if o.vparams.is_some() { "padded" } else { "exact" },
                    "lengths": (o.spec.lo()..=o.spec.max).collect::<Vec<_>>(),
                    "cases": pr.cases.len(),
                    "first_cases": pr.cases.iter().step_by((pr.cases.len() / 5).max(1)).take(5).map(|c| c.name.clone()).collect::<Vec<_>>(),
                }));
            }
        }
        par_for_chunk(flat.len(), 4, |k| {
            let (bi, ci) = flat[k];
            let (o, pr) = &built[bi];
            judged(ctx, o, pr, &pr.cases[ci]);
        });
    }
    let variant = crate::variant_name();
    ctx.finish(Finish {
        level: "fault_enumeration",
        rule: "grid scan (arity 1..3/4, final bits 0..3, rate 1..3, cap 0..2, max 2..9/12, the 5 lengths below max): reference predicate of the documented padding-mode asserts vs real prover + native verifier; then per (model STARK, admissible tuple, num_challenges) one exact-length outer circuit and one multiple-degree outer circuit (window <= 5 lengths) built once; cases per supported length = honest proofs for 3 public-input choices (+ outer prove/verify), every degree_bits argument 0..=max+2, numeric leaves +1 (quick: strided per path class; thorough: every leaf), list nodes x {drop-last, dup-last, null}, public inputs changed verifier-side, proofs made with the other / another padding argument, lengths outside the window, corrupted traces proven with the lenient-quotient knob; each case: native verify_stark_proof (with the padding argument the circuit mode prescribes) vs library assignment + witness generation + exact satisfaction oracle on the outer circuit; N' <=> C demanded",
        exhaustive: true,
        assumptions: vec![
            "N for a padded circuit is verify_stark_proof(.., Some(fri_params(max))): a padded proof is not physically padded, the verifier re-absorbs the zero caps / zero coefficients (this is how starky's own multiple-degree test verifies natively)".into(),
            "N' additionally requires the degree_bits argument to be the proof's real length and that length to lie in the circuit's window (the native verifier has no such argument: it recovers the length from the proof)".into(),
            "lengths whose honest proof exceeds the circuit's targets (final polynomial longer than the maximum's: documented limitation) are classified unsupported, and only when the reference schedule says so".into(),
            "C is decided by witness generation + the exact satisfaction oracle (gate evaluators trusted, C07); outer proofs are produced for honest cases only".into(),
            format!("build variant: {variant}"),
        ],
        extra: json!({"variant": variant}),
    })
}
