//! Shared PLONK-side machinery: the circuit-program DSL with its two interpreters (builder gadgets
//! vs. direct evaluation over the field), configuration lattice, witness extraction, identity-map
//! witnesses for cell-level corruption, and the exact satisfaction oracle (DESIGN §3.3–§3.5).

use std::collections::{BTreeMap, HashMap};

use plonky2::field::extension::Extendable;
use plonky2::field::goldilocks_field::GoldilocksField;
use plonky2::field::types::{Field, PrimeField64};
use plonky2::fri::reduction_strategies::FriReductionStrategy;
use plonky2::fri::FriConfig;
use plonky2::hash::hash_types::{HashOut, HashOutTarget, RichField};
use plonky2::hash::merkle_proofs::MerkleProofTarget;
use plonky2::hash::poseidon::PoseidonHash;
use plonky2::iop::ext_target::ExtensionTarget;
use plonky2::iop::generator::generate_partial_witness;
use plonky2::iop::target::{BoolTarget, Target};
use plonky2::iop::witness::{PartialWitness, PartitionWitness, Witness, WitnessWrite};
use plonky2::plonk::circuit_builder::CircuitBuilder;
use plonky2::plonk::circuit_data::{CircuitConfig, CircuitData, CommonCircuitData};
use plonky2::plonk::config::{GenericConfig, Hasher, KeccakGoldilocksConfig, PoseidonGoldilocksConfig};
use plonky2::plonk::proof::ProofWithPublicInputs;
use plonky2::plonk::prover::prove_with_partition_witness;
use plonky2::plonk::vars::EvaluationVars;
use plonky2::util::reducing::ReducingFactorTarget;
use plonky2::util::timing::TimingTree;
use serde::Serialize;

use crate::c13::{ref_poseidon, ref_sponge};
use crate::core::*;

pub type F = GoldilocksField;
pub const D: usize = 2;
pub type PC = PoseidonGoldilocksConfig;
pub type KC = KeccakGoldilocksConfig;
pub type FE = <F as Extendable<D>>::Extension;

pub const W2: u64 = 7; // X^2 - 7 defines the quadratic extension

#[inline]
pub fn fe(x: u64) -> F {
    GoldilocksField(x)
}
#[inline]
pub fn cu(x: F) -> u64 {
    x.to_canonical_u64()
}

// ------------------------------------------------------------------------------------------------
// Program DSL

#[derive(Clone, Copy, Debug, PartialEq, Eq, Serialize)]
pub enum Ty {
    B,
    Bool,
    E,
}

/// Operand indices refer to the value stack: inputs first, then every result in order.
#[derive(Clone, Debug, PartialEq, Eq, Serialize)]
pub enum Op {
    Const(u64),
    Add(usize, usize),
    Sub(usize, usize),
    Mul(usize, usize),
    Neg(usize),
    Square(usize),
    Cube(usize),
    MulAdd(usize, usize, usize),
    MulSub(usize, usize, usize),
    Arith(u64, u64, usize, usize, usize),
    AddConst(usize, u64),
    MulConst(u64, usize),
    MulConstAdd(u64, usize, usize),
    AddMany(Vec<usize>),
    MulMany(Vec<usize>),
    Div(usize, usize),
    Inverse(usize),
    ExpU64(usize, u64),
    ExpPow2(usize, usize),
    /// exp_from_bits(base, split_le(x, n)) — unsatisfiable unless x < 2^n.
    ExpBits(usize, usize, usize),
    /// builder.exp(base, exponent, num_bits) (ExponentiationGate path).
    Exp(usize, usize, usize),
    /// exp_from_bits_const_base(base constant, split_le(x, n))
    ExpBitsConstBase(u64, usize, usize),
    IsEqual(usize, usize),
    Not(usize),
    And(usize, usize),
    Or(usize, usize),
    /// _if(b, x, y)
    If(usize, usize, usize),
    Select(usize, usize, usize),
    /// range_check(x, n): no result, unsatisfiable unless x < 2^n.
    RangeCheck(usize, usize),
    /// low_bits(x, n_low, num_bits): results = n_low Bool values.
    LowBits(usize, usize, usize),
    /// split_low_high(x, n_log, num_bits): results low, high.
    SplitLowHigh(usize, usize, usize),
    /// split_le(x, n): n Bool results.
    SplitLe(usize, usize),
    /// split_le_base::<B>(x, limbs) for B in {2, 3, 4}: `limbs` Base results.
    SplitLeBase(usize, usize, usize),
    /// le_sum of Bool values.
    LeSum(Vec<usize>),
    /// random_access(index, list)
    RandomAccess(usize, Vec<usize>),
    RandomAccessExt(usize, Vec<usize>),
    AssertBool(usize),
    Connect(usize, usize),
    AssertZero(usize),
    AssertOne(usize),
    CondAssertEq(usize, usize, usize),
    // extension family
    ExtFromBase(usize, usize),
    AddExt(usize, usize),
    SubExt(usize, usize),
    MulExt(usize, usize),
    DivExt(usize, usize),
    InverseExt(usize),
    SquareExt(usize),
    CubeExt(usize),
    MulAddExt(usize, usize, usize),
    ArithExt(u64, u64, usize, usize, usize),
    ScalarMulExt(usize, usize),
    MulManyExt(Vec<usize>),
    ExpU64Ext(usize, u64),
    ExpPow2Ext(usize, usize),
    SelectExt(usize, usize, usize),
    /// ReducingFactorTarget::new(alpha).reduce(terms)
    ReduceExt(usize, Vec<usize>),
    /// ReducingFactorTarget::new(alpha).reduce_base(base terms)
    ReduceBase(usize, Vec<usize>),
    /// PolynomialCoeffsExtTarget(coeffs).eval(point)
    PolyEvalExt(Vec<usize>, usize),
    // hashing
    /// hash_n_to_hash_no_pad::<PoseidonHash>(inputs): 4 Base results.
    HashNoPad(Vec<usize>),
    /// hash_n_to_m_no_pad(inputs, m)
    HashNToM(Vec<usize>, usize),
    /// hash_or_noop(inputs)
    HashOrNoop(Vec<usize>),
    /// verify_merkle_proof::<PoseidonHash>(leaf data, index bits of x (split_le n), root = 4 values, siblings 4*n values)
    MerkleVerify { leaf: Vec<usize>, index: usize, height: usize, root: Vec<usize>, siblings: Vec<usize> },
    /// add_lookup_from_index(x, table)
    Lookup(usize, usize),
    // --- less common gadgets
    /// wide_arithmetic_extension(a, b, c, d, e) = a*b + c*d + e
    WideArithExt(usize, usize, usize, usize, usize),
    /// inner_product_extension(k, acc, pairs) = acc + k * sum a_i b_i
    InnerProductExt(u64, usize, Vec<(usize, usize)>),
    DivAddExt(usize, usize, usize),
    MulSubExt(usize, usize, usize),
    /// scalar_mul_add_extension(a: base, b, c) = a*b + c
    ScalarMulAddExt(usize, usize, usize),
    ScalarMulSubExt(usize, usize, usize),
    MulConstAddExt(u64, usize, usize),
    AddConstExt(usize, u64),
    MulConstExt(u64, usize),
    MulExtWithConst(u64, usize, usize),
    AddManyExt(Vec<usize>),
    /// exp_extension_from_bits(base, split_le(x, n))
    ExpBitsExt(usize, usize, usize),
    /// x.repeated_frobenius(k)
    FrobeniusExt(usize, usize),
    /// select_ext_generalized(b, x, y) = b*x - (b*y - y), b any extension value
    SelectExtGen(usize, usize, usize),
    /// conditional_assert_eq_ext(c, x, y)
    CondAssertEqExt(usize, usize, usize),
    ConnectExt(usize, usize),
    /// permute::<PoseidonHash>(12 values): 12 results
    Permute(Vec<usize>),
    /// verify_merkle_proof_to_cap: index has `height + cap_height` bits, `cap` = 4 * 2^cap_height values
    MerkleVerifyCap { leaf: Vec<usize>, index: usize, height: usize, cap_height: usize, cap: Vec<usize>, siblings: Vec<usize> },
    /// random_access_hash(index, hashes): `hashes` = 4 * len values; 4 results
    RandomAccessHash(usize, Vec<usize>),
    /// PolynomialCoeffsExtTarget(coeffs).eval_scalar(point: base)
    PolyEvalScalar(Vec<usize>, usize),
    /// builder.powers(base): the first n powers (n results)
    Powers(usize, usize),
}

#[derive(Clone, Debug, Serialize, PartialEq, Eq)]
pub struct Program {
    pub name: String,
    pub inputs: Vec<Ty>,
    pub ops: Vec<Op>,
    /// lookup tables (input, output) pairs, registered in order before the ops are built.
    pub tables: Vec<Vec<(u16, u16)>>,
}

#[derive(Clone, Copy, Debug)]
pub enum TVal {
    B(Target),
    Bool(BoolTarget),
    E(ExtensionTarget<D>),
}

#[derive(Clone, Copy, Debug, PartialEq, Eq)]
pub enum RVal {
    B(u64),
    Bool(bool),
    E([u64; 2]),
}

impl RVal {
    pub fn flat(&self) -> Vec<u64> {
        match self {
            RVal::B(x) => vec![*x],
            RVal::Bool(b) => vec![*b as u64],
            RVal::E(e) => e.to_vec(),
        }
    }
}

pub fn ext_inv2(a: [u64; 2]) -> Option<[u64; 2]> {
    // (a0 + a1 X)^-1 = (a0 - a1 X) / (a0^2 - W a1^2)
    let n = subm(mulm(a[0], a[0]), mulm(W2, mulm(a[1], a[1])));
    let ni = invm(n)?;
    Some([mulm(a[0], ni), mulm(negm(a[1]), ni)])
}
pub fn emul(a: [u64; 2], b: [u64; 2]) -> [u64; 2] {
    let r = ext_mul(&a, &b, W2);
    [r[0], r[1]]
}
pub fn eadd(a: [u64; 2], b: [u64; 2]) -> [u64; 2] {
    [addm(a[0], b[0]), addm(a[1], b[1])]
}
pub fn esub(a: [u64; 2], b: [u64; 2]) -> [u64; 2] {
    [subm(a[0], b[0]), subm(a[1], b[1])]
}
pub fn epow(a: [u64; 2], mut e: u64) -> [u64; 2] {
    let mut acc = [1, 0];
    let mut b = a;
    while e > 0 {
        if e & 1 == 1 {
            acc = emul(acc, b);
        }
        b = emul(b, b);
        e >>= 1;
    }
    acc
}

pub fn ref_poseidon_perm(s: &[u64; 12]) -> [u64; 12] {
    ref_poseidon(s)
}
pub fn ref_hash_no_pad(inputs: &[u64], m: usize) -> Vec<u64> {
    ref_sponge(&|s| ref_poseidon(s), inputs, m)
}
pub fn ref_two_to_one(l: &[u64], r: &[u64]) -> Vec<u64> {
    let mut s = [0u64; 12];
    s[..4].copy_from_slice(l);
    s[4..8].copy_from_slice(r);
    ref_poseidon(&s)[..4].to_vec()
}
pub fn ref_hash_or_noop(inputs: &[u64]) -> Vec<u64> {
    if inputs.len() <= 4 {
        let mut v = inputs.to_vec();
        v.resize(4, 0);
        v
    } else {
        ref_hash_no_pad(inputs, 4)
    }
}

impl Program {
    pub fn new(name: &str, inputs: Vec<Ty>, ops: Vec<Op>) -> Self {
        Program { name: name.to_string(), inputs, ops, tables: vec![] }
    }

    /// Number of base field elements that make up one input vector.
    pub fn input_width(&self) -> usize {
        self.inputs.iter().map(|t| if *t == Ty::E { 2 } else { 1 }).sum()
    }

    /// Direct evaluation over the field. `None` = the input vector does not satisfy the program
    /// (division by zero, failed range check / assertion, lookup miss, ill-typed bool input).
    /// Result: the flattened public outputs in registration order (inputs are NOT public).
    pub fn eval(&self, input: &[u64]) -> Option<Vec<u64>> {
        let st = self.eval_stack(input)?;
        Some(st[self.inputs.len()..].iter().flat_map(|r| r.flat()).collect())
    }

    /// As `eval`, but returns the whole value stack (inputs, then every result).
    pub fn eval_stack(&self, input: &[u64]) -> Option<Vec<RVal>> {
        let mut st: Vec<RVal> = Vec::new();
        let mut k = 0;
        for t in &self.inputs {
            match t {
                Ty::B => {
                    st.push(RVal::B(rm(input[k])));
                    k += 1;
                }
                Ty::Bool => {
                    let v = rm(input[k]);
                    if v > 1 {
                        return None;
                    }
                    st.push(RVal::Bool(v == 1));
                    k += 1;
                }
                Ty::E => {
                    st.push(RVal::E([rm(input[k]), rm(input[k + 1])]));
                    k += 2;
                }
            }
        }
        let b = |st: &Vec<RVal>, i: usize| -> u64 {
            match st[i] {
                RVal::B(x) => x,
                RVal::Bool(x) => x as u64,
                RVal::E(_) => panic!("type error: base expected at {i}"),
            }
        };
        let bo = |st: &Vec<RVal>, i: usize| -> bool {
            match st[i] {
                RVal::Bool(x) => x,
                _ => panic!("type error: bool expected at {i}"),
            }
        };
        let e = |st: &Vec<RVal>, i: usize| -> [u64; 2] {
            match st[i] {
                RVal::E(x) => x,
                RVal::B(x) => [x, 0],
                RVal::Bool(x) => [x as u64, 0],
            }
        };
        let bits_of = |x: u64, n: usize| -> Option<Vec<bool>> {
            if n < 64 && x >> n != 0 {
                return None;
            }
            Some((0..n).map(|i| if i < 64 { (x >> i) & 1 == 1 } else { false }).collect())
        };
        for op in &self.ops {
            let mut res: Vec<RVal> = Vec::new();
            match op {
                Op::Const(c) => res.push(RVal::B(rm(*c))),
                Op::Add(x, y) => res.push(RVal::B(addm(b(&st, *x), b(&st, *y)))),
                Op::Sub(x, y) => res.push(RVal::B(subm(b(&st, *x), b(&st, *y)))),
                Op::Mul(x, y) => res.push(RVal::B(mulm(b(&st, *x), b(&st, *y)))),
                Op::Neg(x) => res.push(RVal::B(negm(b(&st, *x)))),
                Op::Square(x) => res.push(RVal::B(mulm(b(&st, *x), b(&st, *x)))),
                Op::Cube(x) => {
                    let v = b(&st, *x);
                    res.push(RVal::B(mulm(v, mulm(v, v))))
                }
                Op::MulAdd(x, y, z) => res.push(RVal::B(addm(mulm(b(&st, *x), b(&st, *y)), b(&st, *z)))),
                Op::MulSub(x, y, z) => res.push(RVal::B(subm(mulm(b(&st, *x), b(&st, *y)), b(&st, *z)))),
                Op::Arith(c0, c1, x, y, z) => res.push(RVal::B(addm(
                    mulm(rm(*c0), mulm(b(&st, *x), b(&st, *y))),
                    mulm(rm(*c1), b(&st, *z)),
                ))),
                Op::AddConst(x, c) => res.push(RVal::B(addm(b(&st, *x), rm(*c)))),
                Op::MulConst(c, x) => res.push(RVal::B(mulm(rm(*c), b(&st, *x)))),
                Op::MulConstAdd(c, x, y) => res.push(RVal::B(addm(mulm(rm(*c), b(&st, *x)), b(&st, *y)))),
                Op::AddMany(v) => res.push(RVal::B(v.iter().fold(0, |a, i| addm(a, b(&st, *i))))),
                Op::MulMany(v) => res.push(RVal::B(v.iter().fold(1, |a, i| mulm(a, b(&st, *i))))),
                Op::Div(x, y) => {
                    let yi = invm(b(&st, *y))?;
                    res.push(RVal::B(mulm(b(&st, *x), yi)))
                }
                Op::Inverse(x) => res.push(RVal::B(invm(b(&st, *x))?)),
                Op::ExpU64(x, ex) => res.push(RVal::B(powm(b(&st, *x), *ex as u128))),
                Op::ExpPow2(x, k) => {
                    let mut v = b(&st, *x);
                    for _ in 0..*k {
                        v = mulm(v, v);
                    }
                    res.push(RVal::B(v))
                }
                Op::ExpBits(base, x, n) | Op::Exp(base, x, n) => {
                    let xv = b(&st, *x);
                    bits_of(xv, *n)?;
                    res.push(RVal::B(powm(b(&st, *base), xv as u128)))
                }
                Op::ExpBitsConstBase(base, x, n) => {
                    let xv = b(&st, *x);
                    bits_of(xv, *n)?;
                    res.push(RVal::B(powm(rm(*base), xv as u128)))
                }
                Op::IsEqual(x, y) => res.push(RVal::Bool(b(&st, *x) == b(&st, *y))),
                Op::Not(x) => res.push(RVal::Bool(!bo(&st, *x))),
                Op::And(x, y) => res.push(RVal::Bool(bo(&st, *x) && bo(&st, *y))),
                Op::Or(x, y) => res.push(RVal::Bool(bo(&st, *x) || bo(&st, *y))),
                Op::If(c, x, y) | Op::Select(c, x, y) => {
                    res.push(RVal::B(if bo(&st, *c) { b(&st, *x) } else { b(&st, *y) }))
                }
                Op::RangeCheck(x, n) => {
                    bits_of(b(&st, *x), *n)?;
                }
                Op::LowBits(x, nlow, nbits) => {
                    let bits = bits_of(b(&st, *x), *nbits)?;
                    for i in 0..*nlow {
                        res.push(RVal::Bool(bits[i]));
                    }
                }
                Op::SplitLowHigh(x, nlog, nbits) => {
                    let xv = b(&st, *x);
                    bits_of(xv, *nbits)?;
                    let low = if *nlog >= 64 { xv } else { xv & ((1u64 << nlog) - 1) };
                    let high = if *nlog >= 64 { 0 } else { xv >> nlog };
                    res.push(RVal::B(low));
                    res.push(RVal::B(high));
                }
                Op::SplitLe(x, n) => {
                    for bit in bits_of(b(&st, *x), *n)? {
                        res.push(RVal::Bool(bit));
                    }
                }
                Op::SplitLeBase(x, base, limbs) => {
                    let mut v = b(&st, *x) as u128;
                    let bb = *base as u128;
                    let mut ls = Vec::new();
                    for _ in 0..*limbs {
                        ls.push((v % bb) as u64);
                        v /= bb;
                    }
                    if v != 0 {
                        return None;
                    }
                    for l in ls {
                        res.push(RVal::B(l));
                    }
                }
                Op::LeSum(v) => {
                    // sum b_i 2^i over the field
                    let mut acc = 0u64;
                    for (i, ix) in v.iter().enumerate() {
                        if bo(&st, *ix) {
                            acc = addm(acc, powm(2, i as u128));
                        }
                    }
                    res.push(RVal::B(acc))
                }
                // The gadget pads the list to the next power of two with its last element; a
                // one-element list returns that element and leaves the index unconstrained.
                Op::RandomAccess(ix, list) => {
                    let i = b(&st, *ix);
                    let padded = list.len().next_power_of_two();
                    if padded > 1 && i >= padded as u64 {
                        return None;
                    }
                    let j = if padded == 1 { 0 } else { (i as usize).min(list.len() - 1) };
                    res.push(RVal::B(b(&st, list[j])))
                }
                Op::RandomAccessExt(ix, list) => {
                    let i = b(&st, *ix);
                    let padded = list.len().next_power_of_two();
                    if padded > 1 && i >= padded as u64 {
                        return None;
                    }
                    let j = if padded == 1 { 0 } else { (i as usize).min(list.len() - 1) };
                    res.push(RVal::E(e(&st, list[j])))
                }
                Op::AssertBool(x) => {
                    if b(&st, *x) > 1 {
                        return None;
                    }
                }
                Op::Connect(x, y) => {
                    if b(&st, *x) != b(&st, *y) {
                        return None;
                    }
                }
                Op::AssertZero(x) => {
                    if b(&st, *x) != 0 {
                        return None;
                    }
                }
                Op::AssertOne(x) => {
                    if b(&st, *x) != 1 {
                        return None;
                    }
                }
                Op::CondAssertEq(c, x, y) => {
                    // constraint: c * (x - y) == 0
                    if mulm(b(&st, *c), subm(b(&st, *x), b(&st, *y))) != 0 {
                        return None;
                    }
                }
                Op::ExtFromBase(x, y) => res.push(RVal::E([b(&st, *x), b(&st, *y)])),
                Op::AddExt(x, y) => res.push(RVal::E(eadd(e(&st, *x), e(&st, *y)))),
                Op::SubExt(x, y) => res.push(RVal::E(esub(e(&st, *x), e(&st, *y)))),
                Op::MulExt(x, y) => res.push(RVal::E(emul(e(&st, *x), e(&st, *y)))),
                Op::DivExt(x, y) => res.push(RVal::E(emul(e(&st, *x), ext_inv2(e(&st, *y))?))),
                Op::InverseExt(x) => res.push(RVal::E(ext_inv2(e(&st, *x))?)),
                Op::SquareExt(x) => res.push(RVal::E(emul(e(&st, *x), e(&st, *x)))),
                Op::CubeExt(x) => {
                    let v = e(&st, *x);
                    res.push(RVal::E(emul(v, emul(v, v))))
                }
                Op::MulAddExt(x, y, z) => res.push(RVal::E(eadd(emul(e(&st, *x), e(&st, *y)), e(&st, *z)))),
                Op::ArithExt(c0, c1, x, y, z) => {
                    let m = emul(e(&st, *x), e(&st, *y));
                    let z = e(&st, *z);
                    res.push(RVal::E([
                        addm(mulm(rm(*c0), m[0]), mulm(rm(*c1), z[0])),
                        addm(mulm(rm(*c0), m[1]), mulm(rm(*c1), z[1])),
                    ]))
                }
                Op::ScalarMulExt(s, x) => {
                    let sv = b(&st, *s);
                    let v = e(&st, *x);
                    res.push(RVal::E([mulm(sv, v[0]), mulm(sv, v[1])]))
                }
                Op::MulManyExt(v) => res.push(RVal::E(v.iter().fold([1, 0], |a, i| emul(a, e(&st, *i))))),
                Op::ExpU64Ext(x, ex) => res.push(RVal::E(epow(e(&st, *x), *ex))),
                Op::ExpPow2Ext(x, k) => {
                    let mut v = e(&st, *x);
                    for _ in 0..*k {
                        v = emul(v, v);
                    }
                    res.push(RVal::E(v))
                }
                Op::SelectExt(c, x, y) => res.push(RVal::E(if bo(&st, *c) { e(&st, *x) } else { e(&st, *y) })),
                Op::ReduceExt(alpha, terms) => {
                    // sum_i alpha^i t_i
                    let a = e(&st, *alpha);
                    let mut acc = [0, 0];
                    for t in terms.iter().rev() {
                        acc = eadd(emul(acc, a), e(&st, *t));
                    }
                    res.push(RVal::E(acc))
                }
                Op::ReduceBase(alpha, terms) => {
                    let a = e(&st, *alpha);
                    let mut acc = [0, 0];
                    for t in terms.iter().rev() {
                        acc = eadd(emul(acc, a), [b(&st, *t), 0]);
                    }
                    res.push(RVal::E(acc))
                }
                Op::PolyEvalExt(coeffs, pt) => {
                    let p = e(&st, *pt);
                    let mut acc = [0, 0];
                    for c in coeffs.iter().rev() {
                        acc = eadd(emul(acc, p), e(&st, *c));
                    }
                    res.push(RVal::E(acc))
                }
                Op::HashNoPad(ins) => {
                    let v: Vec<u64> = ins.iter().map(|i| b(&st, *i)).collect();
                    for h in ref_hash_no_pad(&v, 4) {
                        res.push(RVal::B(h));
                    }
                }
                Op::HashNToM(ins, m) => {
                    let v: Vec<u64> = ins.iter().map(|i| b(&st, *i)).collect();
                    for h in ref_hash_no_pad(&v, *m) {
                        res.push(RVal::B(h));
                    }
                }
                Op::HashOrNoop(ins) => {
                    let v: Vec<u64> = ins.iter().map(|i| b(&st, *i)).collect();
                    for h in ref_hash_or_noop(&v) {
                        res.push(RVal::B(h));
                    }
                }
                Op::MerkleVerify { leaf, index, height, root, siblings } => {
                    let lv: Vec<u64> = leaf.iter().map(|i| b(&st, *i)).collect();
                    let iv = b(&st, *index);
                    let bits = bits_of(iv, *height)?;
                    let mut cur = ref_hash_or_noop(&lv);
                    for (lvl, bit) in bits.iter().enumerate() {
                        let sib: Vec<u64> = siblings[4 * lvl..4 * lvl + 4].iter().map(|i| b(&st, *i)).collect();
                        cur = if *bit { ref_two_to_one(&sib, &cur) } else { ref_two_to_one(&cur, &sib) };
                    }
                    let rv: Vec<u64> = root.iter().map(|i| b(&st, *i)).collect();
                    if cur != rv {
                        return None;
                    }
                }
                Op::Lookup(x, t) => {
                    let xv = b(&st, *x);
                    let hit = self.tables[*t].iter().find(|(i, _)| *i as u64 == xv)?;
                    res.push(RVal::B(hit.1 as u64));
                }
                Op::WideArithExt(a, bb, c, d, ee) => {
                    res.push(RVal::E(eadd(eadd(emul(e(&st, *a), e(&st, *bb)), emul(e(&st, *c), e(&st, *d))), e(&st, *ee))))
                }
                Op::InnerProductExt(k, acc, pairs) => {
                    let mut a = e(&st, *acc);
                    for (x, y) in pairs {
                        let m = emul(e(&st, *x), e(&st, *y));
                        a = eadd([mulm(rm(*k), m[0]), mulm(rm(*k), m[1])], a);
                    }
                    res.push(RVal::E(a))
                }
                Op::DivAddExt(x, y, z) => res.push(RVal::E(eadd(emul(e(&st, *x), ext_inv2(e(&st, *y))?), e(&st, *z)))),
                Op::MulSubExt(x, y, z) => res.push(RVal::E(esub(emul(e(&st, *x), e(&st, *y)), e(&st, *z)))),
                Op::ScalarMulAddExt(a, x, y) => res.push(RVal::E(eadd(emul([b(&st, *a), 0], e(&st, *x)), e(&st, *y)))),
                Op::ScalarMulSubExt(a, x, y) => res.push(RVal::E(esub(emul([b(&st, *a), 0], e(&st, *x)), e(&st, *y)))),
                Op::MulConstAddExt(k, x, y) => res.push(RVal::E(eadd(emul([rm(*k), 0], e(&st, *x)), e(&st, *y)))),
                Op::AddConstExt(x, k) => res.push(RVal::E(eadd(e(&st, *x), [rm(*k), 0]))),
                Op::MulConstExt(k, x) => res.push(RVal::E(emul([rm(*k), 0], e(&st, *x)))),
                Op::MulExtWithConst(k, x, y) => res.push(RVal::E(emul([rm(*k), 0], emul(e(&st, *x), e(&st, *y))))),
                Op::AddManyExt(v) => res.push(RVal::E(v.iter().fold([0, 0], |a, i| eadd(a, e(&st, *i))))),
                Op::ExpBitsExt(base, x, n) => {
                    let xv = b(&st, *x);
                    bits_of(xv, *n)?;
                    res.push(RVal::E(epow(e(&st, *base), xv)))
                }
                Op::FrobeniusExt(x, k) => {
                    // X^p = X * W^((p-1)/2) = -X for the non-residue W = 7
                    let v = e(&st, *x);
                    res.push(RVal::E(if k % 2 == 1 { [v[0], negm(v[1])] } else { v }))
                }
                Op::SelectExtGen(c, x, y) => {
                    let (cv, xv, yv) = (e(&st, *c), e(&st, *x), e(&st, *y));
                    res.push(RVal::E(esub(emul(cv, xv), esub(emul(cv, yv), yv))))
                }
                Op::CondAssertEqExt(c, x, y) => {
                    let cv = b(&st, *c);
                    let d = esub(e(&st, *x), e(&st, *y));
                    if mulm(cv, d[0]) != 0 || mulm(cv, d[1]) != 0 {
                        return None;
                    }
                }
                Op::ConnectExt(x, y) => {
                    if e(&st, *x) != e(&st, *y) {
                        return None;
                    }
                }
                Op::Permute(v) => {
                    let mut s12 = [0u64; 12];
                    for (i, ix) in v.iter().enumerate() {
                        s12[i] = b(&st, *ix);
                    }
                    for h in ref_poseidon(&s12) {
                        res.push(RVal::B(h));
                    }
                }
                Op::MerkleVerifyCap { leaf, index, height, cap_height, cap, siblings } => {
                    let lv: Vec<u64> = leaf.iter().map(|i| b(&st, *i)).collect();
                    let iv = b(&st, *index);
                    let bits = bits_of(iv, height + cap_height)?;
                    let mut cur = ref_hash_or_noop(&lv);
                    for lvl in 0..*height {
                        let sib: Vec<u64> = siblings[4 * lvl..4 * lvl + 4].iter().map(|i| b(&st, *i)).collect();
                        cur = if bits[lvl] { ref_two_to_one(&sib, &cur) } else { ref_two_to_one(&cur, &sib) };
                    }
                    let ci = (iv >> height) as usize;
                    let entry: Vec<u64> = cap[4 * ci..4 * ci + 4].iter().map(|i| b(&st, *i)).collect();
                    if cur != entry {
                        return None;
                    }
                }
                Op::RandomAccessHash(ix, hs) => {
                    let i = b(&st, *ix);
                    let len = hs.len() / 4;
                    let padded = len.next_power_of_two();
                    if padded > 1 && i >= padded as u64 {
                        return None;
                    }
                    let j = if padded == 1 { 0 } else { (i as usize).min(len - 1) };
                    for k in 0..4 {
                        res.push(RVal::B(b(&st, hs[4 * j + k])));
                    }
                }
                Op::PolyEvalScalar(coeffs, pt) => {
                    let p = [b(&st, *pt), 0];
                    let mut acc = [0, 0];
                    for c in coeffs.iter().rev() {
                        acc = eadd(emul(acc, p), e(&st, *c));
                    }
                    res.push(RVal::E(acc))
                }
                Op::Powers(base, n) => {
                    let bv = e(&st, *base);
                    let mut cur = [1, 0];
                    for _ in 0..*n {
                        res.push(RVal::E(cur));
                        cur = emul(cur, bv);
                    }
                }
            }
            st.extend(res);
        }
        Some(st)
    }
}

pub struct Built<Cfg: GenericConfig<D, F = F>> {
    pub data: CircuitData<F, Cfg, D>,
    /// flattened base-field input targets (Bool → its target, Ext → two targets)
    pub input_targets: Vec<Target>,
}

/// Builds the program with the real gadgets. Every result is registered as public input.
pub fn build_program<Cfg: GenericConfig<D, F = F>>(prog: &Program, config: &CircuitConfig) -> Built<Cfg> {
    build_program_with::<Cfg>(prog, config, &|_| {})
}

/// Same, with a hook that may configure the fresh builder (e.g. `set_domain_separator`).
pub fn build_program_with<Cfg: GenericConfig<D, F = F>>(prog: &Program, config: &CircuitConfig, pre: &dyn Fn(&mut CircuitBuilder<F, D>)) -> Built<Cfg> {
    let mut builder = CircuitBuilder::<F, D>::new(config.clone());
    pre(&mut builder);
    let mut st: Vec<TVal> = Vec::new();
    let mut input_targets = Vec::new();
    for t in &prog.inputs {
        match t {
            Ty::B => {
                let x = builder.add_virtual_target();
                input_targets.push(x);
                st.push(TVal::B(x));
            }
            Ty::Bool => {
                let x = builder.add_virtual_bool_target_safe();
                input_targets.push(x.target);
                st.push(TVal::Bool(x));
            }
            Ty::E => {
                let x = builder.add_virtual_extension_target();
                input_targets.extend(x.0);
                st.push(TVal::E(x));
            }
        }
    }
    let mut lut_ids = Vec::new();
    for t in &prog.tables {
        lut_ids.push(builder.add_lookup_table_from_pairs(std::sync::Arc::new(t.clone())));
    }
    fn tb(st: &[TVal], i: usize) -> Target {
        match st[i] {
            TVal::B(x) => x,
            TVal::Bool(x) => x.target,
            TVal::E(_) => panic!("type error: base expected at {i}"),
        }
    }
    fn tbo(st: &[TVal], i: usize) -> BoolTarget {
        match st[i] {
            TVal::Bool(x) => x,
            _ => panic!("type error: bool expected at {i}"),
        }
    }
    for op in &prog.ops {
        let mut res: Vec<TVal> = Vec::new();
        let te = |builder: &mut CircuitBuilder<F, D>, st: &[TVal], i: usize| -> ExtensionTarget<D> {
            match st[i] {
                TVal::E(x) => x,
                TVal::B(x) => builder.convert_to_ext(x),
                TVal::Bool(x) => builder.convert_to_ext(x.target),
            }
        };
        match op {
            Op::Const(c) => res.push(TVal::B(builder.constant(fe(rm(*c))))),
            Op::Add(x, y) => res.push(TVal::B(builder.add(tb(&st, *x), tb(&st, *y)))),
            Op::Sub(x, y) => res.push(TVal::B(builder.sub(tb(&st, *x), tb(&st, *y)))),
            Op::Mul(x, y) => res.push(TVal::B(builder.mul(tb(&st, *x), tb(&st, *y)))),
            Op::Neg(x) => res.push(TVal::B(builder.neg(tb(&st, *x)))),
            Op::Square(x) => res.push(TVal::B(builder.square(tb(&st, *x)))),
            Op::Cube(x) => res.push(TVal::B(builder.cube(tb(&st, *x)))),
            Op::MulAdd(x, y, z) => res.push(TVal::B(builder.mul_add(tb(&st, *x), tb(&st, *y), tb(&st, *z)))),
            Op::MulSub(x, y, z) => res.push(TVal::B(builder.mul_sub(tb(&st, *x), tb(&st, *y), tb(&st, *z)))),
            Op::Arith(c0, c1, x, y, z) => res.push(TVal::B(builder.arithmetic(
                fe(rm(*c0)),
                fe(rm(*c1)),
                tb(&st, *x),
                tb(&st, *y),
                tb(&st, *z),
            ))),
            Op::AddConst(x, c) => res.push(TVal::B(builder.add_const(tb(&st, *x), fe(rm(*c))))),
            Op::MulConst(c, x) => res.push(TVal::B(builder.mul_const(fe(rm(*c)), tb(&st, *x)))),
            Op::MulConstAdd(c, x, y) => {
                res.push(TVal::B(builder.mul_const_add(fe(rm(*c)), tb(&st, *x), tb(&st, *y))))
            }
            Op::AddMany(v) => {
                let ts: Vec<Target> = v.iter().map(|i| tb(&st, *i)).collect();
                res.push(TVal::B(builder.add_many(ts)))
            }
            Op::MulMany(v) => {
                let ts: Vec<Target> = v.iter().map(|i| tb(&st, *i)).collect();
                res.push(TVal::B(builder.mul_many(ts)))
            }
            Op::Div(x, y) => res.push(TVal::B(builder.div(tb(&st, *x), tb(&st, *y)))),
            Op::Inverse(x) => res.push(TVal::B(builder.inverse(tb(&st, *x)))),
            Op::ExpU64(x, e) => res.push(TVal::B(builder.exp_u64(tb(&st, *x), *e))),
            Op::ExpPow2(x, k) => res.push(TVal::B(builder.exp_power_of_2(tb(&st, *x), *k))),
            Op::ExpBits(base, x, n) => {
                let bits = builder.split_le(tb(&st, *x), *n);
                res.push(TVal::B(builder.exp_from_bits(tb(&st, *base), bits.iter())))
            }
            Op::Exp(base, x, n) => res.push(TVal::B(builder.exp(tb(&st, *base), tb(&st, *x), *n))),
            Op::ExpBitsConstBase(base, x, n) => {
                let bits = builder.split_le(tb(&st, *x), *n);
                res.push(TVal::B(builder.exp_from_bits_const_base(fe(rm(*base)), bits.iter())))
            }
            Op::IsEqual(x, y) => res.push(TVal::Bool(builder.is_equal(tb(&st, *x), tb(&st, *y)))),
            Op::Not(x) => res.push(TVal::Bool(builder.not(tbo(&st, *x)))),
            Op::And(x, y) => res.push(TVal::Bool(builder.and(tbo(&st, *x), tbo(&st, *y)))),
            Op::Or(x, y) => res.push(TVal::Bool(builder.or(tbo(&st, *x), tbo(&st, *y)))),
            Op::If(c, x, y) => res.push(TVal::B(builder._if(tbo(&st, *c), tb(&st, *x), tb(&st, *y)))),
            Op::Select(c, x, y) => res.push(TVal::B(builder.select(tbo(&st, *c), tb(&st, *x), tb(&st, *y)))),
            Op::RangeCheck(x, n) => builder.range_check(tb(&st, *x), *n),
            Op::LowBits(x, nlow, nbits) => {
                for b in builder.low_bits(tb(&st, *x), *nlow, *nbits) {
                    res.push(TVal::Bool(b));
                }
            }
            Op::SplitLowHigh(x, nlog, nbits) => {
                let (lo, hi) = builder.split_low_high(tb(&st, *x), *nlog, *nbits);
                res.push(TVal::B(lo));
                res.push(TVal::B(hi));
            }
            Op::SplitLe(x, n) => {
                for b in builder.split_le(tb(&st, *x), *n) {
                    res.push(TVal::Bool(b));
                }
            }
            Op::SplitLeBase(x, base, limbs) => {
                let v = match base {
                    2 => builder.split_le_base::<2>(tb(&st, *x), *limbs),
                    3 => builder.split_le_base::<3>(tb(&st, *x), *limbs),
                    4 => builder.split_le_base::<4>(tb(&st, *x), *limbs),
                    _ => panic!("unsupported base"),
                };
                for t in v {
                    res.push(TVal::B(t));
                }
            }
            Op::LeSum(v) => {
                let bits: Vec<BoolTarget> = v.iter().map(|i| tbo(&st, *i)).collect();
                res.push(TVal::B(builder.le_sum(bits.iter())))
            }
            Op::RandomAccess(ix, list) => {
                let ts: Vec<Target> = list.iter().map(|i| tb(&st, *i)).collect();
                res.push(TVal::B(builder.random_access(tb(&st, *ix), ts)))
            }
            Op::RandomAccessExt(ix, list) => {
                let ts: Vec<ExtensionTarget<D>> = list.iter().map(|i| te(&mut builder, &st, *i)).collect();
                res.push(TVal::E(builder.random_access_extension(tb(&st, *ix), ts)))
            }
            Op::AssertBool(x) => builder.assert_bool(BoolTarget::new_unsafe(tb(&st, *x))),
            Op::Connect(x, y) => builder.connect(tb(&st, *x), tb(&st, *y)),
            Op::AssertZero(x) => builder.assert_zero(tb(&st, *x)),
            Op::AssertOne(x) => builder.assert_one(tb(&st, *x)),
            Op::CondAssertEq(c, x, y) => builder.conditional_assert_eq(tb(&st, *c), tb(&st, *x), tb(&st, *y)),
            Op::ExtFromBase(x, y) => res.push(TVal::E(ExtensionTarget([tb(&st, *x), tb(&st, *y)]))),
            Op::AddExt(x, y) => {
                let (a, b) = (te(&mut builder, &st, *x), te(&mut builder, &st, *y));
                res.push(TVal::E(builder.add_extension(a, b)))
            }
            Op::SubExt(x, y) => {
                let (a, b) = (te(&mut builder, &st, *x), te(&mut builder, &st, *y));
                res.push(TVal::E(builder.sub_extension(a, b)))
            }
            Op::MulExt(x, y) => {
                let (a, b) = (te(&mut builder, &st, *x), te(&mut builder, &st, *y));
                res.push(TVal::E(builder.mul_extension(a, b)))
            }
            Op::DivExt(x, y) => {
                let (a, b) = (te(&mut builder, &st, *x), te(&mut builder, &st, *y));
                res.push(TVal::E(builder.div_extension(a, b)))
            }
            Op::InverseExt(x) => {
                let a = te(&mut builder, &st, *x);
                res.push(TVal::E(builder.inverse_extension(a)))
            }
            Op::SquareExt(x) => {
                let a = te(&mut builder, &st, *x);
                res.push(TVal::E(builder.square_extension(a)))
            }
            Op::CubeExt(x) => {
                let a = te(&mut builder, &st, *x);
                res.push(TVal::E(builder.cube_extension(a)))
            }
            Op::MulAddExt(x, y, z) => {
                let (a, b, c) = (te(&mut builder, &st, *x), te(&mut builder, &st, *y), te(&mut builder, &st, *z));
                res.push(TVal::E(builder.mul_add_extension(a, b, c)))
            }
            Op::ArithExt(c0, c1, x, y, z) => {
                let (a, b, c) = (te(&mut builder, &st, *x), te(&mut builder, &st, *y), te(&mut builder, &st, *z));
                res.push(TVal::E(builder.arithmetic_extension(fe(rm(*c0)), fe(rm(*c1)), a, b, c)))
            }
            Op::ScalarMulExt(s, x) => {
                let a = te(&mut builder, &st, *x);
                res.push(TVal::E(builder.scalar_mul_ext(tb(&st, *s), a)))
            }
            Op::MulManyExt(v) => {
                let ts: Vec<ExtensionTarget<D>> = v.iter().map(|i| te(&mut builder, &st, *i)).collect();
                res.push(TVal::E(builder.mul_many_extension(ts)))
            }
            Op::ExpU64Ext(x, e) => {
                let a = te(&mut builder, &st, *x);
                res.push(TVal::E(builder.exp_u64_extension(a, *e)))
            }
            Op::ExpPow2Ext(x, k) => {
                let a = te(&mut builder, &st, *x);
                res.push(TVal::E(builder.exp_power_of_2_extension(a, *k)))
            }
            Op::SelectExt(c, x, y) => {
                let (a, b) = (te(&mut builder, &st, *x), te(&mut builder, &st, *y));
                res.push(TVal::E(builder.select_ext(tbo(&st, *c), a, b)))
            }
            Op::ReduceExt(alpha, terms) => {
                let a = te(&mut builder, &st, *alpha);
                let ts: Vec<ExtensionTarget<D>> = terms.iter().map(|i| te(&mut builder, &st, *i)).collect();
                let mut rf = ReducingFactorTarget::new(a);
                res.push(TVal::E(rf.reduce(&ts, &mut builder)))
            }
            Op::ReduceBase(alpha, terms) => {
                let a = te(&mut builder, &st, *alpha);
                let ts: Vec<Target> = terms.iter().map(|i| tb(&st, *i)).collect();
                let mut rf = ReducingFactorTarget::new(a);
                res.push(TVal::E(rf.reduce_base(&ts, &mut builder)))
            }
            Op::PolyEvalExt(coeffs, pt) => {
                let ts: Vec<ExtensionTarget<D>> = coeffs.iter().map(|i| te(&mut builder, &st, *i)).collect();
                let p = te(&mut builder, &st, *pt);
                let poly = plonky2::gadgets::polynomial::PolynomialCoeffsExtTarget(ts);
                res.push(TVal::E(poly.eval(&mut builder, p)))
            }
            Op::HashNoPad(ins) => {
                let ts: Vec<Target> = ins.iter().map(|i| tb(&st, *i)).collect();
                let h = builder.hash_n_to_hash_no_pad::<PoseidonHash>(ts);
                for t in h.elements {
                    res.push(TVal::B(t));
                }
            }
            Op::HashNToM(ins, m) => {
                let ts: Vec<Target> = ins.iter().map(|i| tb(&st, *i)).collect();
                for t in builder.hash_n_to_m_no_pad::<PoseidonHash>(ts, *m) {
                    res.push(TVal::B(t));
                }
            }
            Op::HashOrNoop(ins) => {
                let ts: Vec<Target> = ins.iter().map(|i| tb(&st, *i)).collect();
                let h = builder.hash_or_noop::<PoseidonHash>(ts);
                for t in h.elements {
                    res.push(TVal::B(t));
                }
            }
            Op::MerkleVerify { leaf, index, height, root, siblings } => {
                let lv: Vec<Target> = leaf.iter().map(|i| tb(&st, *i)).collect();
                let bits = builder.split_le(tb(&st, *index), *height);
                let root_t = HashOutTarget { elements: [tb(&st, root[0]), tb(&st, root[1]), tb(&st, root[2]), tb(&st, root[3])] };
                let sibs: Vec<HashOutTarget> = (0..*height)
                    .map(|l| HashOutTarget {
                        elements: [
                            tb(&st, siblings[4 * l]),
                            tb(&st, siblings[4 * l + 1]),
                            tb(&st, siblings[4 * l + 2]),
                            tb(&st, siblings[4 * l + 3]),
                        ],
                    })
                    .collect();
                builder.verify_merkle_proof::<PoseidonHash>(lv, &bits, root_t, &MerkleProofTarget { siblings: sibs });
            }
            Op::Lookup(x, t) => res.push(TVal::B(builder.add_lookup_from_index(tb(&st, *x), lut_ids[*t]))),
            Op::WideArithExt(a, b, c, d, e) => {
                let (a, b, c, d, e) = (te(&mut builder, &st, *a), te(&mut builder, &st, *b), te(&mut builder, &st, *c), te(&mut builder, &st, *d), te(&mut builder, &st, *e));
                res.push(TVal::E(builder.wide_arithmetic_extension(a, b, c, d, e)))
            }
            Op::InnerProductExt(k, acc, pairs) => {
                let acc = te(&mut builder, &st, *acc);
                let ps: Vec<(ExtensionTarget<D>, ExtensionTarget<D>)> = pairs.iter().map(|(x, y)| (te(&mut builder, &st, *x), te(&mut builder, &st, *y))).collect();
                res.push(TVal::E(builder.inner_product_extension(fe(rm(*k)), acc, ps)))
            }
            Op::DivAddExt(x, y, z) => {
                let (a, b, c) = (te(&mut builder, &st, *x), te(&mut builder, &st, *y), te(&mut builder, &st, *z));
                res.push(TVal::E(builder.div_add_extension(a, b, c)))
            }
            Op::MulSubExt(x, y, z) => {
                let (a, b, c) = (te(&mut builder, &st, *x), te(&mut builder, &st, *y), te(&mut builder, &st, *z));
                res.push(TVal::E(builder.mul_sub_extension(a, b, c)))
            }
            Op::ScalarMulAddExt(a, x, y) => {
                let (b, c) = (te(&mut builder, &st, *x), te(&mut builder, &st, *y));
                res.push(TVal::E(builder.scalar_mul_add_extension(tb(&st, *a), b, c)))
            }
            Op::ScalarMulSubExt(a, x, y) => {
                let (b, c) = (te(&mut builder, &st, *x), te(&mut builder, &st, *y));
                res.push(TVal::E(builder.scalar_mul_sub_extension(tb(&st, *a), b, c)))
            }
            Op::MulConstAddExt(k, x, y) => {
                let (b, c) = (te(&mut builder, &st, *x), te(&mut builder, &st, *y));
                res.push(TVal::E(builder.mul_const_add_extension(fe(rm(*k)), b, c)))
            }
            Op::AddConstExt(x, k) => {
                let a = te(&mut builder, &st, *x);
                res.push(TVal::E(builder.add_const_extension(a, fe(rm(*k)))))
            }
            Op::MulConstExt(k, x) => {
                let a = te(&mut builder, &st, *x);
                res.push(TVal::E(builder.mul_const_extension(fe(rm(*k)), a)))
            }
            Op::MulExtWithConst(k, x, y) => {
                let (a, b) = (te(&mut builder, &st, *x), te(&mut builder, &st, *y));
                res.push(TVal::E(builder.mul_extension_with_const(fe(rm(*k)), a, b)))
            }
            Op::AddManyExt(v) => {
                let ts: Vec<ExtensionTarget<D>> = v.iter().map(|i| te(&mut builder, &st, *i)).collect();
                res.push(TVal::E(builder.add_many_extension(ts)))
            }
            Op::ExpBitsExt(base, x, n) => {
                let bits = builder.split_le(tb(&st, *x), *n);
                let bt = te(&mut builder, &st, *base);
                res.push(TVal::E(builder.exp_extension_from_bits(bt, &bits)))
            }
            Op::FrobeniusExt(x, k) => {
                let a = te(&mut builder, &st, *x);
                res.push(TVal::E(a.repeated_frobenius(*k, &mut builder)))
            }
            Op::SelectExtGen(c, x, y) => {
                let (c, a, b) = (te(&mut builder, &st, *c), te(&mut builder, &st, *x), te(&mut builder, &st, *y));
                res.push(TVal::E(builder.select_ext_generalized(c, a, b)))
            }
            Op::CondAssertEqExt(c, x, y) => {
                let (a, b) = (te(&mut builder, &st, *x), te(&mut builder, &st, *y));
                builder.conditional_assert_eq_ext(tb(&st, *c), a, b)
            }
            Op::ConnectExt(x, y) => {
                let (a, b) = (te(&mut builder, &st, *x), te(&mut builder, &st, *y));
                builder.connect_extension(a, b)
            }
            Op::Permute(v) => {
                use plonky2::hash::hashing::PlonkyPermutation;
                use plonky2::plonk::config::AlgebraicHasher;
                let ts: Vec<Target> = v.iter().map(|i| tb(&st, *i)).collect();
                let perm = <PoseidonHash as AlgebraicHasher<F>>::AlgebraicPermutation::new(ts);
                let out = builder.permute::<PoseidonHash>(perm);
                for t in out.as_ref() {
                    res.push(TVal::B(*t));
                }
            }
            Op::MerkleVerifyCap { leaf, index, height, cap_height, cap, siblings } => {
                let lv: Vec<Target> = leaf.iter().map(|i| tb(&st, *i)).collect();
                let bits = builder.split_le(tb(&st, *index), height + cap_height);
                let cap_t = plonky2::hash::hash_types::MerkleCapTarget(
                    (0..(1usize << cap_height))
                        .map(|c| HashOutTarget { elements: [tb(&st, cap[4 * c]), tb(&st, cap[4 * c + 1]), tb(&st, cap[4 * c + 2]), tb(&st, cap[4 * c + 3])] })
                        .collect(),
                );
                let sibs: Vec<HashOutTarget> = (0..*height)
                    .map(|l| HashOutTarget { elements: [tb(&st, siblings[4 * l]), tb(&st, siblings[4 * l + 1]), tb(&st, siblings[4 * l + 2]), tb(&st, siblings[4 * l + 3])] })
                    .collect();
                builder.verify_merkle_proof_to_cap::<PoseidonHash>(lv, &bits, &cap_t, &MerkleProofTarget { siblings: sibs });
            }
            Op::RandomAccessHash(ix, hs) => {
                let hashes: Vec<HashOutTarget> = (0..hs.len() / 4)
                    .map(|j| HashOutTarget { elements: [tb(&st, hs[4 * j]), tb(&st, hs[4 * j + 1]), tb(&st, hs[4 * j + 2]), tb(&st, hs[4 * j + 3])] })
                    .collect();
                let h = builder.random_access_hash(tb(&st, *ix), hashes);
                for t in h.elements {
                    res.push(TVal::B(t));
                }
            }
            Op::PolyEvalScalar(coeffs, pt) => {
                let ts: Vec<ExtensionTarget<D>> = coeffs.iter().map(|i| te(&mut builder, &st, *i)).collect();
                let poly = plonky2::gadgets::polynomial::PolynomialCoeffsExtTarget(ts);
                res.push(TVal::E(poly.eval_scalar(&mut builder, tb(&st, *pt))))
            }
            Op::Powers(base, n) => {
                let bt = te(&mut builder, &st, *base);
                let mut pw = builder.powers(bt);
                for _ in 0..*n {
                    res.push(TVal::E(pw.next(&mut builder)));
                }
            }
        }
        for r in &res {
            match r {
                TVal::B(t) => builder.register_public_input(*t),
                TVal::Bool(t) => builder.register_public_input(t.target),
                TVal::E(t) => builder.register_public_inputs(&t.0),
            }
        }
        st.extend(res);
    }
    let data = builder.build::<Cfg>();
    Built { data, input_targets }
}

pub fn inputs_pw<Cfg: GenericConfig<D, F = F>>(b: &Built<Cfg>, vals: &[u64]) -> PartialWitness<F> {
    let mut pw = PartialWitness::new();
    for (t, v) in b.input_targets.iter().zip(vals) {
        pw.set_target(*t, fe(*v)).unwrap();
    }
    pw
}

// ------------------------------------------------------------------------------------------------
// Configurations

pub fn cfg_small(queries: usize, pow_bits: u32) -> CircuitConfig {
    let mut c = CircuitConfig::standard_recursion_config();
    c.fri_config.num_query_rounds = queries;
    c.fri_config.proof_of_work_bits = pow_bits;
    c.security_bits = (queries * c.fri_config.rate_bits + pow_bits as usize).min(100);
    c
}

pub fn fix_security(c: &mut CircuitConfig) {
    c.security_bits = (c.fri_config.num_query_rounds * c.fri_config.rate_bits + c.fri_config.proof_of_work_bits as usize).min(100);
}

/// The single-axis deviations from the standard configuration (DESIGN §3.4), by name.
pub fn config_lattice(queries: usize) -> Vec<(String, CircuitConfig)> {
    let base = cfg_small(queries, 1);
    let mut out: Vec<(String, CircuitConfig)> = vec![("std".into(), base.clone())];
    let mut push = |name: &str, f: &dyn Fn(&mut CircuitConfig)| {
        let mut c = base.clone();
        f(&mut c);
        fix_security(&mut c);
        out.push((name.to_string(), c));
    };
    push("zk", &|c| c.zero_knowledge = true);
    push("rate4", &|c| c.fri_config.rate_bits = 4);
    push("cap0", &|c| c.fri_config.cap_height = 0);
    push("cap1", &|c| c.fri_config.cap_height = 1);
    push("q1", &|c| c.fri_config.num_query_rounds = 1);
    push("q8", &|c| c.fri_config.num_query_rounds = 8);
    push("pow0", &|c| c.fri_config.proof_of_work_bits = 0);
    push("pow8", &|c| c.fri_config.proof_of_work_bits = 8);
    push("fixed_none", &|c| c.fri_config.reduction_strategy = FriReductionStrategy::Fixed(vec![]));
    push("fixed_1", &|c| c.fri_config.reduction_strategy = FriReductionStrategy::Fixed(vec![1]));
    push("fixed_1_1", &|c| c.fri_config.reduction_strategy = FriReductionStrategy::Fixed(vec![1, 1]));
    push("fixed_2_1", &|c| c.fri_config.reduction_strategy = FriReductionStrategy::Fixed(vec![2, 1]));
    push("carity_1_1", &|c| c.fri_config.reduction_strategy = FriReductionStrategy::ConstantArityBits(1, 1));
    push("carity_2_0", &|c| c.fri_config.reduction_strategy = FriReductionStrategy::ConstantArityBits(2, 0));
    push("carity_3_2", &|c| c.fri_config.reduction_strategy = FriReductionStrategy::ConstantArityBits(3, 2));
    push("minsize_none", &|c| c.fri_config.reduction_strategy = FriReductionStrategy::MinSize(None));
    push("minsize_2", &|c| c.fri_config.reduction_strategy = FriReductionStrategy::MinSize(Some(2)));
    push("chal1", &|c| c.num_challenges = 1);
    push("chal3", &|c| c.num_challenges = 3);
    push("qdf7", &|c| c.max_quotient_degree_factor = 7);
    push("qdf9_rate4", &|c| {
        c.max_quotient_degree_factor = 9;
        c.fri_config.rate_bits = 4
    });
    push("qdf16_rate4", &|c| {
        c.max_quotient_degree_factor = 16;
        c.fri_config.rate_bits = 4
    });
    push("routed25", &|c| c.num_routed_wires = 25);
    push("wires143_routed100", &|c| {
        c.num_wires = 143;
        c.num_routed_wires = 100
    });
    push("wires234_routed136", &|c| {
        c.num_wires = 234;
        c.num_routed_wires = 136
    });
    push("no_base_arith", &|c| c.use_base_arithmetic_gate = false);
    push("consts3", &|c| c.num_constants = 3);
    out
}

// ------------------------------------------------------------------------------------------------
// Witness extraction and identity-map witnesses

pub struct FullWitness {
    /// values of every target index (wires row-major: row * num_wires + col, then virtual targets)
    pub values: Vec<F>,
    pub num_wires: usize,
    pub degree: usize,
}

impl FullWitness {
    pub fn wire(&self, row: usize, col: usize) -> F {
        self.values[row * self.num_wires + col]
    }
    pub fn n_cells(&self) -> usize {
        self.degree * self.num_wires
    }
}

/// Runs the real witness generation. Err = generation failed (Err or panic).
pub fn gen_witness<Cfg: GenericConfig<D, F = F>>(
    data: &CircuitData<F, Cfg, D>,
    pw: PartialWitness<F>,
) -> Result<FullWitness, String> {
    let r = guarded(|| generate_partial_witness(pw, &data.prover_only, &data.common));
    match r {
        Err(p) => Err(format!("panic: {p}")),
        Ok(Err(e)) => Err(format!("err: {e}")),
        Ok(Ok(w)) => {
            let n = data.prover_only.representative_map.len();
            let values: Vec<F> = (0..n)
                .map(|i| w.values[data.prover_only.representative_map[i]].unwrap_or(F::ZERO))
                .collect();
            Ok(FullWitness { values, num_wires: data.common.config.num_wires, degree: data.common.degree() })
        }
    }
}

pub fn public_inputs_of<Cfg: GenericConfig<D, F = F>>(data: &CircuitData<F, Cfg, D>, w: &FullWitness) -> Vec<F> {
    data.prover_only
        .public_inputs
        .iter()
        .map(|t| w.values[t.index(w.num_wires, w.degree)])
        .collect()
}

/// Cells written by the prover itself (lookup padding slots and multiplicities): these must be left
/// unset in an identity-map witness, otherwise `set_lookup_wires` reports a double assignment.
pub fn prover_written_cells<Cfg: GenericConfig<D, F = F>>(data: &CircuitData<F, Cfg, D>) -> Vec<usize> {
    use plonky2::gates::lookup::LookupGate;
    use plonky2::gates::lookup_table::LookupTableGate;
    let mut out = Vec::new();
    let cfg = &data.common.config;
    let nw = cfg.num_wires;
    for (li, lw) in data.prover_only.lookup_rows.iter().enumerate() {
        let lut_len = data.common.luts[li].len();
        let num_entries = (cfg.num_routed_wires / 2);
        let num_lut_entries = (cfg.num_routed_wires / 3);
        let used = data.prover_only.lut_to_lookups[li].len();
        let remaining = (num_entries - (used % num_entries)) % num_entries;
        for slot in (num_entries - remaining)..num_entries {
            out.push((lw.last_lut_gate - 1) * nw + LookupGate::wire_ith_looking_inp(slot));
            out.push((lw.last_lut_gate - 1) * nw + LookupGate::wire_ith_looking_out(slot));
        }
        for e in 0..lut_len {
            let row = lw.first_lut_gate - e / num_lut_entries;
            let col = e % num_lut_entries;
            out.push(row * nw + LookupTableGate::wire_ith_multiplicity(col));
        }
    }
    out
}

/// Proves from an explicit assignment of every target, with all copy classes broken (identity
/// representative map), through the public `prove_with_partition_witness`.
/// `unset` lists target indices to leave unassigned (see `prover_written_cells`).
pub fn prove_identity<Cfg: GenericConfig<D, F = F>>(
    data: &CircuitData<F, Cfg, D>,
    values: &[F],
    unset: &[usize],
    identity: &[usize],
) -> Result<ProofWithPublicInputs<F, Cfg, D>, String> {
    let mut vals: Vec<Option<F>> = values.iter().map(|v| Some(*v)).collect();
    for u in unset {
        vals[*u] = None;
    }
    let pw = PartitionWitness {
        values: vals,
        representative_map: identity,
        num_wires: data.common.config.num_wires,
        degree: data.common.degree(),
    };
    let r = guarded(|| {
        let mut timing = TimingTree::default();
        prove_with_partition_witness(&data.prover_only, &data.common, pw, &mut timing)
    });
    match r {
        Err(p) => Err(format!("panic: {p}")),
        Ok(Err(e)) => Err(format!("err: {e}")),
        Ok(Ok(p)) => Ok(p),
    }
}

// ------------------------------------------------------------------------------------------------
// Satisfaction oracle

pub struct SatCtx {
    /// constants[row][k]
    pub constants: Vec<Vec<F>>,
    pub num_selectors: usize,
    pub num_lookup_selectors: usize,
    /// gate index active at each row
    pub row_gate: Vec<usize>,
    /// copy classes over wire cells: class id per cell (row*num_wires+col), usize::MAX = singleton
    pub cell_class: Vec<usize>,
    pub n_classes: usize,
    pub num_wires: usize,
    pub degree: usize,
    /// static defects found while preparing (sigma vs classes, selector inconsistencies)
    pub static_issues: Vec<String>,
    pub selector_indices: Vec<usize>,
    pub groups: Vec<(usize, usize)>,
}

const UNUSED_SELECTOR: u64 = u32::MAX as u64;

pub fn sat_prepare<Cfg: GenericConfig<D, F = F>>(data: &CircuitData<F, Cfg, D>) -> SatCtx {
    let common = &data.common;
    let degree = common.degree();
    let nw = common.config.num_wires;
    let nr = common.config.num_routed_wires;
    let mut static_issues = Vec::new();
    // constants: evaluate the committed constant polynomials on the subgroup (naive Horner for small
    // circuits, library FFT for big ones; the two are cross-checked on the small ones).
    let polys = &data.prover_only.constants_sigmas_commitment.polynomials;
    let nconst = common.num_constants;
    let subgroup = &data.prover_only.subgroup;
    let mut constants = vec![vec![F::ZERO; nconst]; degree];
    for k in 0..nconst {
        let coeffs = polys[k].clone();
        let vals_fft = {
            let mut c = coeffs.clone();
            c.coeffs.truncate(degree);
            c.coeffs.resize(degree, F::ZERO);
            c.fft().values
        };
        if degree <= 64 {
            for (r, &x) in subgroup.iter().enumerate() {
                let mut acc = F::ZERO;
                for c in coeffs.coeffs.iter().rev() {
                    acc = acc * x + *c;
                }
                if acc != vals_fft[r] {
                    static_issues.push(format!("constant poly {k} row {r}: horner != fft"));
                }
            }
        }
        for r in 0..degree {
            constants[r][k] = vals_fft[r];
        }
    }
    // selectors
    let si = serde_json::to_value(&common.selectors_info).expect("selectors_info json");
    let selector_indices: Vec<usize> =
        si["selector_indices"].as_array().unwrap().iter().map(|v| v.as_u64().unwrap() as usize).collect();
    let groups: Vec<(usize, usize)> = si["groups"]
        .as_array()
        .unwrap()
        .iter()
        .map(|g| (g["start"].as_u64().unwrap() as usize, g["end"].as_u64().unwrap() as usize))
        .collect();
    let num_selectors = groups.len();
    let mut row_gate = vec![usize::MAX; degree];
    for r in 0..degree {
        let mut found = None;
        for s in 0..num_selectors {
            let v = cu(constants[r][s]);
            if v == UNUSED_SELECTOR && num_selectors > 1 {
                continue;
            }
            let g = v as usize;
            if g < groups[s].0 || g >= groups[s].1 || selector_indices.get(g) != Some(&s) {
                static_issues.push(format!("row {r}: selector {s} has value {v} outside its group {:?}", groups[s]));
                continue;
            }
            if found.is_some() {
                static_issues.push(format!("row {r}: two selector groups active"));
            }
            found = Some(g);
        }
        match found {
            Some(g) => row_gate[r] = g,
            None => static_issues.push(format!("row {r}: no gate selected")),
        }
    }
    // copy classes over wire cells from the representative map (the circuit's statement)
    let rep = &data.prover_only.representative_map;
    let mut by_rep: BTreeMap<usize, Vec<usize>> = BTreeMap::new();
    for cell in 0..degree * nw {
        by_rep.entry(rep[cell]).or_default().push(cell);
    }
    let mut cell_class = vec![usize::MAX; degree * nw];
    let mut n_classes = 0;
    for (_, cells) in &by_rep {
        if cells.len() > 1 {
            for c in cells {
                cell_class[*c] = n_classes;
            }
            n_classes += 1;
        }
    }
    // static invariant: sigma restricted to routed cells is exactly one cycle per class
    let k_is = &common.k_is;
    let mut val_to_cell: HashMap<u64, usize> = HashMap::new();
    for j in 0..nr {
        for i in 0..degree {
            val_to_cell.insert(cu(k_is[j] * subgroup[i]), i * nw + j);
        }
    }
    let mut sigma: HashMap<usize, usize> = HashMap::new();
    for i in 0..degree {
        for j in 0..nr {
            let s = cu(data.prover_only.sigmas[i][j]);
            match val_to_cell.get(&s) {
                Some(&c) => {
                    sigma.insert(i * nw + j, c);
                }
                None => static_issues.push(format!("sigma({i},{j}) is not a routed cell id")),
            }
        }
    }
    // every non-routed cell must be a singleton
    for cell in 0..degree * nw {
        if cell % nw >= nr && cell_class[cell] != usize::MAX {
            static_issues.push(format!("advice cell {cell} is in a copy class"));
        }
    }
    let mut seen = vec![false; degree * nw];
    let mut class_cycles: HashMap<usize, usize> = HashMap::new();
    for i in 0..degree {
        for j in 0..nr {
            let start = i * nw + j;
            if seen[start] {
                continue;
            }
            let cls = rep[start];
            let mut cur = start;
            loop {
                seen[cur] = true;
                if rep[cur] != cls {
                    static_issues.push(format!("sigma leaves the copy class at cell {cur}"));
                    break;
                }
                match sigma.get(&cur) {
                    Some(&n) => cur = n,
                    None => break,
                }
                if cur == start {
                    break;
                }
                if seen[cur] {
                    static_issues.push(format!("sigma is not a permutation near cell {cur}"));
                    break;
                }
            }
            *class_cycles.entry(cls).or_insert(0) += 1;
        }
    }
    for (cls, n) in class_cycles {
        if n != 1 {
            static_issues.push(format!("copy class with representative {cls} is split into {n} sigma cycles"));
        }
    }
    static_issues.truncate(20);
    SatCtx {
        constants,
        num_selectors,
        num_lookup_selectors: common.num_lookup_selectors,
        row_gate,
        cell_class,
        n_classes,
        num_wires: nw,
        degree,
        static_issues,
        selector_indices,
        groups,
    }
}

/// Exact satisfaction check of gate constraints + copy constraints + public-input binding for an
/// explicit assignment (`values` indexed by target index; `pis` the declared public inputs).
/// Lookup-argument membership is checked separately (`lookup_sat`).
/// Returns Ok(()) or the first violated item.
pub fn sat<Cfg: GenericConfig<D, F = F>>(
    data: &CircuitData<F, Cfg, D>,
    sc: &SatCtx,
    values: &[F],
    pis: &[F],
) -> Result<(), String> {
    let common = &data.common;
    let nw = sc.num_wires;
    let pih = <Cfg::InnerHasher as Hasher<F>>::hash_no_pad(pis);
    // InnerHasher is Poseidon for both configs; convert to HashOut<F>
    let pih_elems: Vec<F> = plonky2::plonk::config::GenericHashOut::<F>::to_vec(&pih);
    let pih = HashOut { elements: [pih_elems[0], pih_elems[1], pih_elems[2], pih_elems[3]] };
    let skip = sc.num_selectors + sc.num_lookup_selectors;
    let mut wires_ext: Vec<FE> = vec![FE::ZERO; nw];
    for r in 0..sc.degree {
        let g = sc.row_gate[r];
        if g == usize::MAX {
            continue;
        }
        let gate = &common.gates[g];
        for c in 0..nw {
            wires_ext[c] = <FE as FieldExtension<D>>::from_basefield(values[r * nw + c]);
        }
        let consts_ext: Vec<FE> = sc.constants[r][skip..].iter().map(|c| <FE as FieldExtension<D>>::from_basefield(*c)).collect();
        let vars = EvaluationVars { local_constants: &consts_ext, local_wires: &wires_ext, public_inputs_hash: &pih };
        let cs = gate.0.eval_unfiltered(vars);
        if let Some(k) = cs.iter().position(|c| *c != FE::ZERO) {
            return Err(format!("gate:{}:row{}:constraint{}", gate.0.id(), r, k));
        }
    }
    // copy constraints
    let mut class_val: Vec<Option<F>> = vec![None; sc.n_classes];
    for cell in 0..sc.degree * nw {
        let cl = sc.cell_class[cell];
        if cl == usize::MAX {
            continue;
        }
        match class_val[cl] {
            None => class_val[cl] = Some(values[cell]),
            Some(v) => {
                if v != values[cell] {
                    return Err(format!("copy:cell{}(row{},col{})", cell, cell / nw, cell % nw));
                }
            }
        }
    }
    Ok(())
}

use plonky2::field::extension::FieldExtension;

/// Combinatorial lookup predicate (DESIGN §3.5 iv): every LookupGate slot pair of every table's
/// lookup rows is an entry of that table, LookupTableGate rows spell the table, and multiplicities
/// equal the slot counts. `values` must be the assignment AFTER the prover's own padding (use
/// `apply_lookup_padding`).
pub fn lookup_sat<Cfg: GenericConfig<D, F = F>>(data: &CircuitData<F, Cfg, D>, values: &[F]) -> Result<(), String> {
    use plonky2::gates::lookup::LookupGate;
    use plonky2::gates::lookup_table::LookupTableGate;
    let cfg = &data.common.config;
    let nw = cfg.num_wires;
    let num_entries = (cfg.num_routed_wires / 2);
    let num_lut_entries = (cfg.num_routed_wires / 3);
    for (li, lw) in data.prover_only.lookup_rows.iter().enumerate() {
        let table = &data.common.luts[li];
        let mut counts: BTreeMap<(u64, u64), u64> = BTreeMap::new();
        // lookup rows: last_lu_gate ..= last_lut_gate-1
        for row in lw.last_lu_gate..lw.last_lut_gate {
            for slot in 0..num_entries {
                let i = cu(values[row * nw + LookupGate::wire_ith_looking_inp(slot)]);
                let o = cu(values[row * nw + LookupGate::wire_ith_looking_out(slot)]);
                if !table.iter().any(|(a, b)| *a as u64 == i && *b as u64 == o) {
                    return Err(format!("lookup:table{li}:row{row}:slot{slot}:pair({i},{o})-not-in-table"));
                }
                *counts.entry((i, o)).or_insert(0) += 1;
            }
        }
        // table rows: last_lut_gate ..= first_lut_gate, entry e at row first_lut_gate - e / n, col e % n;
        // slots beyond the table hold its first entry (the verifier's table polynomial is padded the
        // same way), and whatever multiplicity they carry counts for that entry.
        let n_rows = lw.first_lut_gate + 1 - lw.last_lut_gate;
        let mut mult: BTreeMap<(u64, u64), u64> = BTreeMap::new();
        for e in 0..n_rows * num_lut_entries {
            let row = lw.first_lut_gate - e / num_lut_entries;
            let col = e % num_lut_entries;
            let i = cu(values[row * nw + LookupTableGate::wire_ith_looked_inp(col)]);
            let o = cu(values[row * nw + LookupTableGate::wire_ith_looked_out(col)]);
            let m = cu(values[row * nw + LookupTableGate::wire_ith_multiplicity(col)]);
            let want = if e < table.len() { table[e] } else { table[0] };
            if (want.0 as u64, want.1 as u64) != (i, o) {
                return Err(format!("lookup:table{li}:entry{e}:table-row-mismatch"));
            }
            let ent = mult.entry((i, o)).or_insert(0);
            *ent = addm(*ent, m);
        }
        mult.retain(|_, m| *m != 0);
        for (k, c) in &counts {
            if mult.get(k).copied().unwrap_or(0) != *c {
                return Err(format!("lookup:table{li}:multiplicity-of-{:?}", k));
            }
        }
        for (k, m) in &mult {
            if counts.get(k).copied().unwrap_or(0) != *m {
                return Err(format!("lookup:table{li}:multiplicity-of-{:?}", k));
            }
        }
    }
    Ok(())
}

pub fn _unused<T: RichField>(_c: &CommonCircuitData<F, D>, _f: FriConfig) {}

/// The assignment the prover will actually commit to when handed `values` with the prover-owned
/// lookup cells unset: padding slots take the first table entry, multiplicities are the number of
/// occurrences of each table input among the looking targets plus the padding (a harness-side
/// restatement of the documented behaviour of `set_lookup_wires`). `lenient`: a looked-up input
/// missing from the table contributes nothing (knob H1e) instead of aborting.
/// Err = the prover cannot proceed (looked-up input not in the table and not lenient).
pub fn apply_lookup_padding<Cfg: GenericConfig<D, F = F>>(
    data: &CircuitData<F, Cfg, D>,
    values: &[F],
    lenient: bool,
) -> Result<Vec<F>, String> {
    use plonky2::gates::lookup::LookupGate;
    use plonky2::gates::lookup_table::LookupTableGate;
    let cfg = &data.common.config;
    let nw = cfg.num_wires;
    let degree = data.common.degree();
    let num_entries = cfg.num_routed_wires / 2;
    let num_lut_entries = cfg.num_routed_wires / 3;
    let mut out = values.to_vec();
    for (li, lw) in data.prover_only.lookup_rows.iter().enumerate() {
        let table = &data.common.luts[li];
        let mut mult = vec![0u64; table.len()];
        for (inp_t, _) in data.prover_only.lut_to_lookups[li].iter() {
            let v = cu(values[inp_t.index(nw, degree)]);
            // the prover keys a hash map by table input: the LAST entry with that input wins
            match table.iter().rposition(|(a, _)| *a as u64 == v) {
                Some(p) => mult[p] += 1,
                None => {
                    if !lenient {
                        return Err(format!("looked-up input {v} not in table {li}"));
                    }
                }
            }
        }
        let used = data.prover_only.lut_to_lookups[li].len();
        let remaining = (num_entries - (used % num_entries)) % num_entries;
        for slot in (num_entries - remaining)..num_entries {
            out[(lw.last_lut_gate - 1) * nw + LookupGate::wire_ith_looking_inp(slot)] = fe(table[0].0 as u64);
            out[(lw.last_lut_gate - 1) * nw + LookupGate::wire_ith_looking_out(slot)] = fe(table[0].1 as u64);
            mult[0] += 1;
        }
        for e in 0..table.len() {
            let row = lw.first_lut_gate - e / num_lut_entries;
            let col = e % num_lut_entries;
            out[row * nw + LookupTableGate::wire_ith_multiplicity(col)] = fe(mult[e]);
        }
    }
    Ok(out)
}
