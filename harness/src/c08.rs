//! C08 — table lookups are provable exactly for pairs contained in the table.
//!
//! Positive half (exploration): a grid of lookup circuits — 1, 2, 3 tables; table sizes at the
//! LookupTableGate row boundaries (1, 2, L-1, L, L+1, 2L, 2L+1 with L = num_routed_wires / 3);
//! lookup counts at the LookupGate row boundaries (1, 2, S-1, S, S+1, 2S with S = num_routed_wires / 2);
//! table families identity / constant output / boundary pairs / cyclic shift; arrangements distinct,
//! heavy repetition, unused entries, two tables interleaved; inputs fed from witness inputs, constants
//! and other lookups' outputs. Each is built with the REAL builder, proved with the REAL prover and
//! verified with the REAL verifier; the lookup outputs (public inputs) must equal `table[input]`
//! (`Program::eval`, a direct map lookup) and the generated witness must satisfy the harness
//! predicates `sat` and `lookup_sat`.
//!
//! Negative half (fault enumeration, deviation bound 1 + one prover strategy): from the honest
//! assignment of a seed circuit, ONE deviation — a LookupGate slot cell, the class of a looked-up
//! output, the class of a looked-up input (another valid input, a value missing from the table, a
//! value that is not even 16 bit), an (input, output) pair of ANOTHER table, a LookupTableGate cell
//! (looked input, looked output, multiplicity of a padding slot), an unconstrained cell — is handed to
//! the real prover through an identity representative map (`c02::run_case`), under the strategies
//! S0 (plain), S1 (lenient quotient), S2(0) (zero accumulator), S6 (lenient multiplicities), S7 (the
//! prover shifts the Sum/LDC running sums of every table so that the last LDC is zero whatever was
//! looked up — only the constraint on the INITIAL value of the sum stands against it). The expected
//! verdict is decided exactly by `sat ∧ lookup_sat` on the assignment the prover commits to.

use std::collections::{BTreeMap, BTreeSet};

use plonky2::gates::lookup::LookupGate;
use plonky2::gates::lookup_table::LookupTableGate;
use plonky2::plonk::circuit_data::CircuitConfig;
use serde_json::json;

use crate::c02::{run_case, Corr, Strat, Subject};
use crate::core::*;
use crate::plonkm::*;

// ------------------------------------------------------------------------------------------------
// Scenario alphabet

/// Table families. Every family is a function (distinct inputs); the duplicate-input tables, which
/// are outside the property, are written out literally in `scenarios`.
pub fn table(fam: &str, n: usize, off: usize) -> Vec<(u16, u16)> {
    (0..n)
        .map(|i| {
            let x = (i + off) as u16;
            match fam {
                // identity on off..off+n
                "id" => (x, x),
                // constant output: all outputs equal
                "cst" => (x, 7),
                // boundary pairs first (the padding entry is (65535, 0): distinguishable from a zero row)
                "bnd" => match i {
                    0 => (65535, 0),
                    1 => (0, 65535),
                    2 => (1, 1),
                    3 => (2, 40000),
                    _ => ((i - 1) as u16, ((i * 257 + 13) & 0xffff) as u16),
                },
                // cyclic shift: every output is again an input (lookup chains)
                "perm" => (x, (((i + 1) % n) + off) as u16),
                // successor (tables with different `off` share the pairs of the overlap)
                "inc" => (x, x + 1),
                // same inputs, different outputs; an output of one table is the output of the NEXT input
                // of the other, so a foreign pair can be presented by changing the input alone
                "sh0" => (x, x + 100),
                "sh1" => (x, x + 101),
                _ => panic!("unknown table family {fam}"),
            }
        })
        .collect()
}

#[derive(Clone, Copy, Debug, PartialEq)]
pub enum Src {
    /// own witness input
    Wit,
    /// builder constant
    Const,
    /// output of the previous lookup of the list
    Prev,
}

#[derive(Clone, Copy, Debug)]
pub struct Lu {
    pub t: usize,
    /// index of the table entry whose input is looked up (ignored for `Src::Prev`)
    pub e: usize,
    pub src: Src,
}

pub fn make_prog(name: &str, tables: Vec<Vec<(u16, u16)>>, lus: &[Lu]) -> (Program, Vec<u64>) {
    let n_in = lus.iter().filter(|l| l.src == Src::Wit).count();
    let mut ops = Vec::new();
    let mut input = Vec::new();
    let mut sp = n_in;
    let mut prev_out: Option<usize> = None;
    for l in lus {
        let x = match l.src {
            Src::Wit => {
                input.push(tables[l.t][l.e].0 as u64);
                input.len() - 1
            }
            Src::Const => {
                ops.push(Op::Const(tables[l.t][l.e].0 as u64));
                sp += 1;
                sp - 1
            }
            Src::Prev => prev_out.expect("a chained lookup needs a predecessor"),
        };
        ops.push(Op::Lookup(x, l.t));
        prev_out = Some(sp);
        sp += 1;
    }
    (Program { name: name.to_string(), inputs: vec![Ty::B; n_in], ops, tables }, input)
}

/// Entry index looked up by lookup j of k against a table of n entries.
fn arrange(arr: &str, j: usize, n: usize) -> usize {
    match arr {
        // all distinct as long as k <= n, then cyclic
        "cyc" => j % n,
        // heavy repetition of the LAST entry (the padding entry is the first)
        "same" => n - 1,
        // only the upper half of the table is used: entry 0 (the padding entry) and the lower half stay unused
        "unused" => n - 1 - (j % ((n + 1) / 2)),
        _ => panic!("unknown arrangement"),
    }
}

#[derive(Clone)]
pub struct Scen {
    pub name: String,
    /// scenario kind (class component)
    pub kind: String,
    pub cfg: usize,
    pub prog: Program,
    pub input: Vec<u64>,
    /// negative enumeration is run from this case
    pub neg: bool,
    /// some table has duplicate inputs: outside the property, behaviour is recorded only
    pub dup_inputs: bool,
    /// a declared table has no lookups: the builder's documented rejection is expected
    pub expect_unused: bool,
}

pub fn configs(thorough: bool) -> Vec<(String, CircuitConfig)> {
    let lat = config_lattice(2);
    let pick: Vec<&str> =
        // wires143_routed100: with 100 routed wires (33 table slots, 50 lookup slots, 8 partial polynomials of 7 / 5
        // slots) the LAST partial polynomial has no table slots at all - the chunking of the running Sum and of
        // the LDC over the partial polynomials ends at different polynomials (quick: a light scenario set)
        if thorough { vec!["std", "routed25", "wires234_routed136", "chal1", "chal3", "qdf7", "wires143_routed100"] } else { vec!["std", "wires143_routed100"] };
    pick.iter().map(|n| lat.iter().find(|(m, _)| m == n).expect("config").clone()).collect()
}

fn dedup_usize(v: Vec<usize>) -> Vec<usize> {
    let mut seen = BTreeSet::new();
    v.into_iter().filter(|x| *x >= 1 && seen.insert(*x)).collect()
}

/// Table-size and lookup-count boundaries of a width.
pub fn boundaries(cfg: &CircuitConfig) -> (Vec<usize>, Vec<usize>) {
    let s = cfg.num_routed_wires / 2;
    let l = cfg.num_routed_wires / 3;
    (dedup_usize(vec![1, 2, l - 1, l, l + 1, 2 * l, 2 * l + 1]), dedup_usize(vec![1, 2, s - 1, s, s + 1, 2 * s]))
}

pub fn scenarios(cfgs: &[(String, CircuitConfig)], thorough: bool) -> Vec<Scen> {
    let mut out: Vec<Scen> = Vec::new();
    for (ci, (cname, cfg)) in cfgs.iter().enumerate() {
        let s = cfg.num_routed_wires / 2;
        let l = cfg.num_routed_wires / 3;
        let (sizes, counts) = boundaries(cfg);
        let main_cfg = ci == 0;
        // the non-standard configurations of the thorough tier run the grid on two families
        let fams: Vec<&str> = if main_cfg { vec!["id", "cst", "bnd"] } else { vec!["cst", "bnd"] };
        let push = |out: &mut Vec<Scen>, kind: &str, detail: String, tables: Vec<Vec<(u16, u16)>>, lus: Vec<Lu>, neg: bool| {
            let name = format!("{cname}/{kind}/{detail}");
            let (prog, input) = make_prog(&name, tables, &lus);
            out.push(Scen { name, kind: kind.to_string(), cfg: ci, prog, input, neg, dup_inputs: false, expect_unused: false });
        };
        if !thorough && !main_cfg {
            // light set for the second quick configuration
            for &(n, k, neg) in &[(2usize, 1usize, true), (l + 1, s + 1, true), (l, s, false), (2 * l + 1, 2, false)] {
                let lus: Vec<Lu> = (0..k).map(|j| Lu { t: 0, e: arrange("cyc", j, n), src: Src::Wit }).collect();
                push(&mut out, "1t-bnd-cyc", format!("n{n}-k{k}"), vec![table("bnd", n, 0)], lus, neg);
            }
            let tables = vec![table("sh0", l + 1, 0), table("sh1", 2, 0)];
            let mut lus = Vec::new();
            for j in 0..2 {
                lus.push(Lu { t: 0, e: arrange("cyc", j, l + 1), src: Src::Wit });
                lus.push(Lu { t: 1, e: arrange("unused", j, 2), src: Src::Wit });
            }
            push(&mut out, "2t-sameins-il", format!("n{}+2-k2+2", l + 1), tables, lus, true);
            continue;
        }
        // --- one table: size x family x count x arrangement, inputs from witness inputs
        for &n in &sizes {
            for fam in &fams {
                for &k in &counts {
                    for arr in ["cyc", "same", "unused"] {
                        let lus: Vec<Lu> = (0..k).map(|j| Lu { t: 0, e: arrange(arr, j, n), src: Src::Wit }).collect();
                        // negative seeds: the boundary sizes {1, L, L+1} x counts {1, S, S+1} of the boundary
                        // family (quick: a diagonal; thorough: the whole block plus the other sizes at S+1)
                        let neg = if *fam == "bnd" {
                            let diag = (n == 1 && k == 1 && arr == "cyc")
                                || (n == l && k == s && arr == "cyc")
                                || (n == l + 1 && k == s + 1 && arr == "cyc")
                                || (n == l + 1 && k == 1 && arr == "same")
                                || (n == 1 && k == s + 1 && arr == "cyc")
                                || (n == 2 && k == s && arr == "unused");
                            if !thorough {
                                main_cfg && diag
                            } else if main_cfg {
                                diag || (arr == "cyc" && [1, s - 1, s, s + 1].contains(&k))
                                    || (arr == "unused" && k == s + 1)
                                    || (arr == "cyc" && k == 2 * s && [1, l + 1].contains(&n))
                            } else {
                                diag || (arr == "cyc" && [l, l + 1, 2 * l + 1].contains(&n) && [s, s + 1].contains(&k))
                            }
                        } else if *fam == "cst" {
                            // constant output: a different VALID input keeps the pair in the table
                            (main_cfg || thorough) && n == 2 && k == 2 && arr == "cyc"
                        } else {
                            thorough && main_cfg && n == l + 1 && k == s + 1 && arr == "cyc"
                        };
                        push(&mut out, &format!("1t-{fam}-{arr}"), format!("n{n}-k{k}"), vec![table(fam, n, 0)], lus, neg);
                    }
                }
            }
        }
        // --- one table: inputs from constants, from another lookup's output, mixed
        for &n in &[1usize, 2, l + 1] {
            for &k in &[1usize, 3, s + 1] {
                let neg = (main_cfg || thorough) && ((n == 2 && k == 3) || (thorough && main_cfg && n == l + 1 && k == s + 1));
                let lus: Vec<Lu> = (0..k).map(|j| Lu { t: 0, e: arrange("cyc", j, n), src: Src::Const }).collect();
                push(&mut out, "1t-bnd-const", format!("n{n}-k{k}"), vec![table("bnd", n, 0)], lus, neg);
                let lus: Vec<Lu> = (0..k).map(|j| Lu { t: 0, e: 0, src: if j == 0 { Src::Wit } else { Src::Prev } }).collect();
                push(&mut out, "1t-perm-chain", format!("n{n}-k{k}"), vec![table("perm", n, 3)], lus, neg);
                let lus: Vec<Lu> = (0..k)
                    .map(|j| Lu { t: 0, e: arrange("cyc", j, n), src: [Src::Wit, Src::Prev, Src::Const][if j == 0 { 0 } else { j % 3 }] })
                    .collect();
                push(&mut out, "1t-perm-mixed", format!("n{n}-k{k}"), vec![table("perm", n, 0)], lus, false);
            }
        }
        // --- two tables: sharing some pairs / same inputs with different outputs; interleaved or table 2 first
        for &(na, nb) in &[(1usize, l + 1), (l, l), (l + 1, 2), (2 * l + 1, 2)] {
            for &(ka, kb) in &[(1usize, 1usize), (2, 2), (s, s + 1), (s + 1, s), (2 * s, 1)] {
                for rel in ["share", "sameins"] {
                    for order in ["il", "b2"] {
                        let tables = match rel {
                            "share" => vec![table("inc", na, 0), table("inc", nb, na / 2)],
                            _ => vec![table("sh0", na, 0), table("sh1", nb, 0)],
                        };
                        if tables[0] == tables[1] {
                            continue;
                        }
                        let mut lus = Vec::new();
                        if order == "il" {
                            for j in 0..ka.max(kb) {
                                if j < ka {
                                    lus.push(Lu { t: 0, e: arrange("cyc", j, na), src: Src::Wit });
                                }
                                if j < kb {
                                    lus.push(Lu { t: 1, e: arrange("unused", j, nb), src: Src::Wit });
                                }
                            }
                        } else {
                            for j in 0..kb {
                                lus.push(Lu { t: 1, e: arrange("cyc", j, nb), src: Src::Wit });
                            }
                            for j in 0..ka {
                                lus.push(Lu { t: 0, e: arrange("same", j, na), src: Src::Wit });
                            }
                        }
                        let neg = if !thorough {
                            main_cfg && order == "il" && ((rel == "sameins" && (na, nb) == (l + 1, 2) && (ka, kb) == (2, 2)) || (rel == "share" && (na, nb) == (l, l) && (ka, kb) == (2, 2)))
                        } else if main_cfg {
                            order == "il" && ((ka, kb) == (2, 2) || (ka, kb) == (s + 1, s))
                        } else {
                            order == "il" && (ka, kb) == (2, 2) && ((na, nb) == (l + 1, 2) || (na, nb) == (l, l))
                        };
                        push(&mut out, &format!("2t-{rel}-{order}"), format!("n{na}+{nb}-k{ka}+{kb}"), tables, lus, neg);
                    }
                }
            }
        }
        // --- three tables
        for (vi, &(ns, ks)) in [([1usize, l + 1, 2], [s + 1, 1usize, s]), ([l, 1, 2 * l + 1], [1, s, 2]), ([2, 2, 2], [1, 1, 1]), ([l + 1, l + 1, l + 1], [s, s + 1, s - 1])]
            .iter()
            .enumerate()
        {
            let tables = vec![table("bnd", ns[0], 0), table("inc", ns[1], 5), table("cst", ns[2], 2)];
            let mut lus = Vec::new();
            for j in 0..*ks.iter().max().unwrap() {
                for t in [2usize, 0, 1] {
                    if j < ks[t] {
                        lus.push(Lu { t, e: arrange(["cyc", "unused", "same"][t], j, ns[t]), src: Src::Wit });
                    }
                }
            }
            let neg = (main_cfg && vi == 2) || (thorough && main_cfg && vi == 0) || (thorough && vi == 2);
            push(&mut out, "3t-mixed", format!("v{vi}"), tables, lus, neg);
        }
        // --- a declared table without lookups: documented builder rejection
        {
            let tables = vec![table("id", 2, 0), table("cst", 3, 0)];
            let name = format!("{cname}/unused-table/t1");
            let (prog, input) = make_prog(&name, tables, &[Lu { t: 0, e: 1, src: Src::Wit }]);
            out.push(Scen { name, kind: "unused-table".into(), cfg: ci, prog, input, neg: false, dup_inputs: false, expect_unused: true });
        }
        // --- tables with duplicate inputs (outside the property; recorded only)
        for (vi, t) in [vec![(0u16, 1u16), (0, 2), (1, 3)], vec![(5, 6), (5, 6)], vec![(1, 10), (0, 20), (1, 30)]].into_iter().enumerate() {
            let name = format!("{cname}/dup-inputs/v{vi}");
            // Program::eval resolves a duplicate input to its first entry; the outcome is only recorded
            let e = if vi == 2 { 0 } else { 1 };
            let (prog, input) = make_prog(&name, vec![t], &[Lu { t: 0, e, src: Src::Wit }, Lu { t: 0, e: 0, src: Src::Wit }]);
            out.push(Scen { name, kind: "dup-inputs".into(), cfg: ci, prog, input, neg: false, dup_inputs: true, expect_unused: false });
        }
    }
    out
}

// ------------------------------------------------------------------------------------------------
// Positive half

pub enum Prep {
    Ready(Subject),
    Classified(String),
    Fail(String, String),
}

/// Builds the scenario with the real builder and generates the honest witness.
pub fn prepare(sc: &Scen, cfg_name: &str, cfg: &CircuitConfig, seed: u64) -> Prep {
    let built = match guarded(|| build_program::<PC>(&sc.prog, cfg)) {
        Ok(b) => b,
        Err(p) => {
            if p.contains("is unused") && sc.expect_unused {
                return Prep::Classified("builder-rejects:unused-lut".into());
            }
            return Prep::Fail("positive:build".into(), format!("builder panicked: {p}"));
        }
    };
    if sc.expect_unused {
        return Prep::Classified("builder-accepts:unused-lut".into());
    }
    plonky2_field::verif_hooks::set_seed(Some(seed));
    let w = gen_witness(&built.data, inputs_pw(&built, &sc.input));
    plonky2_field::verif_hooks::set_seed(None);
    let w = match w {
        Ok(w) => w,
        Err(e) => {
            if sc.dup_inputs {
                return Prep::Classified(format!("dup-inputs:witness-generation-fails"));
            }
            return Prep::Fail("positive:witness-generation".into(), e);
        }
    };
    let scx = sat_prepare(&built.data);
    let n = built.data.prover_only.representative_map.len();
    let unset = prover_written_cells(&built.data);
    Prep::Ready(Subject {
        name: sc.name.clone(),
        cfg_name: cfg_name.to_string(),
        prog: sc.prog.clone(),
        built,
        sc: scx,
        identity: (0..n).collect(),
        unset,
        bases: vec![(sc.input.clone(), w.values)],
    })
}

/// "3x2p,1x1f": per table, LookupGate rows x LookupTableGate rows and whether the last LookupGate row is
/// partially filled (p) or full (f).
fn shape(s: &Subject) -> String {
    let data = &s.built.data;
    let slots = data.common.config.num_routed_wires / 2;
    data.prover_only
        .lookup_rows
        .iter()
        .enumerate()
        .map(|(li, lw)| {
            let used = data.prover_only.lut_to_lookups[li].len();
            format!("{}x{}{}", lw.last_lut_gate - lw.last_lu_gate, lw.first_lut_gate + 1 - lw.last_lut_gate, if used % slots == 0 { "f" } else { "p" })
        })
        .collect::<Vec<_>>()
        .join(",")
}

/// Honest run: prove, verify, outputs, witness predicates. Err = (site, detail).
pub fn positive_check(sc: &Scen, s: &Subject, seed: u64) -> Result<String, (String, String)> {
    let data = &s.built.data;
    let fail = |site: &str, d: String| (site.to_string(), d);
    let expected = sc.prog.eval(&sc.input).ok_or_else(|| fail("positive:scenario", "the scenario input does not satisfy its program".into()))?;
    plonky2_field::verif_hooks::set_seed(Some(seed));
    let proof = guarded(|| data.prove(inputs_pw(&s.built, &sc.input)));
    plonky2_field::verif_hooks::set_seed(None);
    let values = &s.bases[0].1;
    let nw = data.common.config.num_wires;
    let degree = data.common.degree();
    let wit_pis: Vec<u64> = data.prover_only.public_inputs.iter().map(|t| cu(values[t.index(nw, degree)])).collect();
    if sc.dup_inputs {
        // recorded only
        let p = match &proof {
            Ok(Ok(p)) => p,
            Ok(Err(_)) => return Ok("dup-inputs:prover-err".into()),
            Err(_) => return Ok("dup-inputs:prover-panic".into()),
        };
        let v = matches!(guarded(|| data.verify(p.clone())), Ok(Ok(())));
        let same_pairs = sc.prog.tables[0].iter().all(|(i, o)| sc.prog.tables[0].iter().all(|(i2, o2)| i != i2 || o == o2));
        return Ok(format!(
            "dup-inputs:{}:{}:{}",
            if same_pairs { "identical-duplicates" } else { "conflicting-duplicates" },
            if v { "accepted" } else { "rejected" },
            if wit_pis == expected { "first-entry-output" } else { "other-output" }
        ));
    }
    let proof = match proof {
        Ok(Ok(p)) => p,
        Ok(Err(e)) => return Err(fail("positive:prove", format!("prover returned Err on a circuit whose lookups are all in their tables: {e}"))),
        Err(p) => return Err(fail("positive:prove", format!("prover panicked on a circuit whose lookups are all in their tables: {p}"))),
    };
    let got: Vec<u64> = proof.public_inputs.iter().map(|x| cu(*x)).collect();
    if got != expected {
        return Err(fail("positive:outputs", format!("lookup outputs {:?} differ from table[input] {:?}", truncv(&got), truncv(&expected))));
    }
    match guarded(|| data.verify(proof.clone())) {
        Ok(Ok(())) => {}
        Ok(Err(e)) => return Err(fail("positive:verify", format!("honest lookup proof rejected: {e}"))),
        Err(p) => return Err(fail("positive:verify", format!("verifier panicked on an honest lookup proof: {p}"))),
    }
    // harness predicates on the generated witness (cross-validation of the oracle used by the negative half)
    if wit_pis != expected {
        return Err(fail("positive:outputs", "witness public inputs differ from table[input]".into()));
    }
    if !s.sc.static_issues.is_empty() {
        return Err(fail("positive:static", s.sc.static_issues.join("; ")));
    }
    let committed = apply_lookup_padding(data, values, false).map_err(|e| fail("positive:sat-oracle", e))?;
    let pis: Vec<F> = expected.iter().map(|x| fe(*x)).collect();
    sat(data, &s.sc, &committed, &pis).map_err(|e| fail("positive:sat-oracle", format!("honest witness violates sat: {e}")))?;
    lookup_sat(data, &committed).map_err(|e| fail("positive:sat-oracle", format!("honest witness violates lookup_sat: {e}")))?;
    Ok(format!("pos:{}:{}:accepted", sc.kind, shape(s)))
}

fn truncv(v: &[u64]) -> Vec<u64> {
    v.iter().take(12).copied().collect()
}

// ------------------------------------------------------------------------------------------------
// Negative half

#[derive(Clone, Debug)]
pub enum Dev {
    None,
    /// one target index (copy classes broken) set to a value
    Cell { what: &'static str, idx: usize, val: u64 },
    /// every member of the copy class with this representative set to a value
    Class { what: &'static str, rep: usize, val: u64 },
    /// the input class and the output class of one lookup replaced by a pair
    Pair { what: &'static str, in_rep: usize, in_val: u64, out_rep: usize, out_val: u64 },
    /// these variables (target index, value) are CHOSEN by the prover and everything downstream is
    /// recomputed honestly by the circuit's own generators (the natural attack: claim a wrong lookup
    /// result and carry on) — apart from the lookup argument the assignment stays consistent
    Forced { what: &'static str, forced: Vec<(usize, u64)> },
}

impl Dev {
    pub fn what(&self) -> &'static str {
        match self {
            Dev::None => "none",
            Dev::Cell { what, .. } | Dev::Class { what, .. } | Dev::Pair { what, .. } | Dev::Forced { what, .. } => what,
        }
    }
    pub fn name(&self) -> String {
        match self {
            Dev::None => "none".into(),
            Dev::Cell { what, idx, val } => format!("cell:{what}@{idx}={val}"),
            Dev::Class { what, rep, val } => format!("class:{what}@{rep}={val}"),
            Dev::Pair { what, in_rep, in_val, out_rep, out_val } => format!("pair:{what}@{in_rep}={in_val},{out_rep}={out_val}"),
            Dev::Forced { what, forced } => format!("forced:{what}@{}", forced.iter().map(|(t, v)| format!("{t}={v}")).collect::<Vec<_>>().join(",")),
        }
    }
}

/// Witness generation in which the listed variables are fixed beforehand and win every conflict:
/// the circuit's own generators (public `WitnessGenerator::run`) are run to a fixed point, a value
/// produced for an already assigned variable is dropped. Generators that cannot run (e.g. a lookup of
/// a value missing from its table) leave their targets at zero. None = a generator panicked.
pub fn forced_witness(s: &Subject, forced: &[(usize, u64)], seed: u64) -> Option<Vec<F>> {
    use plonky2::iop::generator::GeneratedValues;
    use plonky2::iop::witness::PartitionWitness;
    let data = &s.built.data;
    let rm = &data.prover_only.representative_map;
    let nw = data.common.config.num_wires;
    let degree = data.common.degree();
    // the same blinding / filler stream as the honest generation of this subject
    plonky2_field::verif_hooks::set_seed(Some(seed));
    let r = guarded(|| {
        let mut w = PartitionWitness::new(nw, degree, rm);
        for (t, v) in forced {
            w.values[rm[*t]] = Some(fe(*v));
        }
        for (t, v) in s.built.input_targets.iter().zip(&s.bases[0].0) {
            let r = rm[t.index(nw, degree)];
            if w.values[r].is_none() {
                w.values[r] = Some(fe(*v));
            }
        }
        let gens = &data.prover_only.generators;
        let mut done = vec![false; gens.len()];
        let mut buf = GeneratedValues::empty();
        loop {
            let mut progress = false;
            for (gi, g) in gens.iter().enumerate() {
                if done[gi] {
                    continue;
                }
                let finished = g.0.run(&w, &mut buf);
                for (t, v) in buf.target_values.drain(..) {
                    let r = rm[t.index(nw, degree)];
                    if w.values[r].is_none() {
                        w.values[r] = Some(v);
                        progress = true;
                    }
                }
                if finished {
                    done[gi] = true;
                    progress = true;
                }
            }
            if !progress {
                break;
            }
        }
        (0..rm.len()).map(|i| w.values[rm[i]].unwrap_or(fe(0))).collect::<Vec<F>>()
    });
    plonky2_field::verif_hooks::set_seed(None);
    r.ok()
}

/// The deviated assignment; None if nothing changes.
pub fn apply_dev(s: &Subject, base: &[F], d: &Dev, seed: u64) -> Option<Vec<F>> {
    let rm = &s.built.data.prover_only.representative_map;
    let mut v = base.to_vec();
    let set_class = |v: &mut Vec<F>, rep: usize, val: u64| {
        for i in 0..v.len() {
            if rm[i] == rep {
                v[i] = fe(val);
            }
        }
    };
    match d {
        Dev::None => return Some(v),
        Dev::Cell { idx, val, .. } => v[*idx] = fe(*val),
        Dev::Class { rep, val, .. } => set_class(&mut v, *rep, *val),
        Dev::Pair { in_rep, in_val, out_rep, out_val, .. } => {
            set_class(&mut v, *in_rep, *in_val);
            set_class(&mut v, *out_rep, *out_val);
        }
        Dev::Forced { forced, .. } => v = forced_witness(s, forced, seed)?,
    }
    if v.iter().zip(base).all(|(a, b)| a == b) {
        None
    } else {
        Some(v)
    }
}

fn push_vals(out: &mut Vec<Dev>, old: u64, vals: &[u64], mk: &dyn Fn(u64) -> Dev) {
    let mut seen = BTreeSet::new();
    for &x in vals {
        let x = x % P;
        if x != old && seen.insert(x) {
            out.push(mk(x));
        }
    }
}

/// All single deviations of a seed circuit. Err = the harness's picture of the row layout is wrong.
pub fn deviations(s: &Subject, thorough: bool, seed: u64) -> Result<Vec<Dev>, String> {
    let data = &s.built.data;
    let cfg = &data.common.config;
    let (nw, nr) = (cfg.num_wires, cfg.num_routed_wires);
    let degree = data.common.degree();
    let slots = nr / 2;
    let lslots = nr / 3;
    let rm = &data.prover_only.representative_map;
    let v = &s.bases[0].1;
    let unset: BTreeSet<usize> = s.unset.iter().copied().collect();
    let mut out = vec![Dev::None];
    let luts = &data.common.luts;
    // the forced generation loop with nothing forced must reproduce the library's witness
    match forced_witness(s, &[], seed) {
        Some(w) if w == *v => {}
        Some(w) => {
            let diff: Vec<String> = (0..w.len()).filter(|i| w[*i] != v[*i]).take(6).map(|i| format!("{}(row {} col {}): {} vs {}", i, i / nw, i % nw, cu(w[i]), cu(v[i]))).collect();
            return Err(format!("forced witness generation with nothing forced differs from generate_partial_witness: {:?}", diff));
        }
        None => return Err("forced witness generation panicked".into()),
    }
    for (li, lw) in data.prover_only.lookup_rows.iter().enumerate() {
        let table: &Vec<(u16, u16)> = &luts[li];
        let inputs: BTreeSet<u64> = table.iter().map(|(i, _)| *i as u64).collect();
        let lookups = &data.prover_only.lut_to_lookups[li];
        if lw.last_lut_gate - lw.last_lu_gate != lookups.len().div_ceil(slots) {
            return Err(format!("table {li}: {} LookupGate rows for {} lookups", lw.last_lut_gate - lw.last_lu_gate, lookups.len()));
        }
        // a value that is 16 bit but not an input of this table
        let not_in = (0..=65535u64).rev().find(|x| !inputs.contains(x)).expect("a table cannot hold every u16 here");
        for (j, (tin, tout)) in lookups.iter().enumerate() {
            let row = lw.last_lu_gate + j / slots;
            let slot = j % slots;
            let c_in = row * nw + LookupGate::wire_ith_looking_inp(slot);
            let c_out = row * nw + LookupGate::wire_ith_looking_out(slot);
            let (rep_in, rep_out) = (rm[tin.index(nw, degree)], rm[tout.index(nw, degree)]);
            if rm[c_in] != rep_in || rm[c_out] != rep_out || unset.contains(&c_in) {
                return Err(format!("table {li} lookup {j}: slot ({row},{slot}) is not connected to the looked-up pair"));
            }
            let (vi, vo) = (cu(v[c_in]), cu(v[c_out]));
            // another entry of the same table (different input; preferably different output)
            let other = table
                .iter()
                .find(|(a, b)| *a as u64 != vi && *b as u64 != vo)
                .or_else(|| table.iter().find(|(a, _)| *a as u64 != vi))
                .map(|(a, b)| (*a as u64, *b as u64));
            let other_in: Vec<u64> = other.iter().map(|p| p.0).collect();
            let other_out: Vec<u64> = other.iter().map(|p| p.1).collect();
            // (1) the slot cells, individually
            let mut vals = vec![vi + 1];
            vals.extend(&other_in);
            if thorough {
                vals.extend([0, P - 1]);
            }
            push_vals(&mut out, vi, &vals, &|x| Dev::Cell { what: "lu-slot-in", idx: c_in, val: x });
            let mut vals = vec![vo + 1];
            vals.extend(&other_out);
            if thorough {
                vals.extend([0, P - 1]);
            }
            push_vals(&mut out, vo, &vals, &|x| Dev::Cell { what: "lu-slot-out", idx: c_out, val: x });
            // (2) the looked-up output variable
            let mut vals = vec![vo + 1];
            if thorough {
                vals.extend(&other_out);
                vals.push(0);
            }
            push_vals(&mut out, vo, &vals, &|x| Dev::Class { what: "out-var", rep: rep_out, val: x });
            // (2b) the same, with everything downstream of the output recomputed (only the lookup
            // argument stands between this assignment and acceptance)
            let mut vals = vec![vo + 1];
            vals.extend(&other_out);
            if thorough {
                vals.push(0);
            }
            push_vals(&mut out, vo, &vals, &|x| Dev::Forced { what: "forced-out", forced: vec![(tout.index(nw, degree), x)] });
            // (3) the looked-up input variable: another valid input, a 16-bit value missing from the
            // table, a value that is not 16 bit
            push_vals(&mut out, vi, &other_in, &|x| Dev::Class { what: "in-var-other-valid", rep: rep_in, val: x });
            push_vals(&mut out, vi, &[not_in], &|x| Dev::Class { what: "in-var-missing", rep: rep_in, val: x });
            let mut vals = vec![65536];
            if thorough {
                vals.push(P - 1);
            }
            push_vals(&mut out, vi, &vals, &|x| Dev::Class { what: "in-var-not-u16", rep: rep_in, val: x });
            // (4) a pair of ANOTHER table presented for this one
            if rep_in != rep_out {
                for (lj, other_table) in luts.iter().enumerate() {
                    if lj == li {
                        continue;
                    }
                    let in_this = |p: &(u16, u16)| table.contains(p);
                    let cur = (vi, vo);
                    let is_cur = |p: &(u16, u16)| (p.0 as u64, p.1 as u64) == cur;
                    // input known to this table, pair foreign
                    let e1 = other_table.iter().find(|p| !in_this(p) && inputs.contains(&(p.0 as u64)));
                    // input unknown to this table
                    let e2 = other_table.iter().find(|p| !in_this(p) && !inputs.contains(&(p.0 as u64)));
                    // pair shared by both tables (control: stays valid)
                    let e3 = other_table.iter().find(|p| in_this(p) && !is_cur(p));
                    for (what, e) in [("pair-of-other-table-known-input", e1), ("pair-of-other-table-unknown-input", e2), ("pair-shared-with-other-table", e3)] {
                        if let Some(p) = e {
                            out.push(Dev::Pair { what, in_rep: rep_in, in_val: p.0 as u64, out_rep: rep_out, out_val: p.1 as u64 });
                            // the same pair, chosen by the prover with everything downstream recomputed
                            out.push(Dev::Forced {
                                what: match what {
                                    "pair-of-other-table-known-input" => "forced-pair-of-other-table-known-input",
                                    "pair-of-other-table-unknown-input" => "forced-pair-of-other-table-unknown-input",
                                    _ => "forced-pair-shared-with-other-table",
                                },
                                forced: vec![(tin.index(nw, degree), p.0 as u64), (tout.index(nw, degree), p.1 as u64)],
                            });
                        }
                    }
                    // a foreign pair with THIS lookup's output: presented by changing the input alone
                    if let Some(p) = other_table.iter().find(|p| p.1 as u64 == vo && !in_this(p)) {
                        out.push(Dev::Class { what: "in-var-pair-of-other-table", rep: rep_in, val: p.0 as u64 });
                    }
                }
            }
        }
        // (5) the table rows
        let n_rows = lw.first_lut_gate + 1 - lw.last_lut_gate;
        if n_rows != table.len().div_ceil(lslots) {
            return Err(format!("table {li}: {n_rows} LookupTableGate rows for {} entries", table.len()));
        }
        for e in 0..n_rows * lslots {
            let row = lw.first_lut_gate - e / lslots;
            let col = e % lslots;
            let c_in = row * nw + LookupTableGate::wire_ith_looked_inp(col);
            let c_out = row * nw + LookupTableGate::wire_ith_looked_out(col);
            let c_mul = row * nw + LookupTableGate::wire_ith_multiplicity(col);
            let want = if e < table.len() { table[e] } else { table[0] };
            if (cu(v[c_in]), cu(v[c_out])) != (want.0 as u64, want.1 as u64) {
                return Err(format!("table {li}: entry {e} is not at row {row} slot {col}"));
            }
            let pad = e >= table.len();
            let (vi, vo) = (want.0 as u64, want.1 as u64);
            // thorough: real entries also take 0 and p-1, padding slots also 0
            let extra: &[u64] = if !thorough { &[] } else if pad { &[0] } else { &[0, P - 1] };
            let mut vals = vec![vi + 1];
            vals.extend(extra);
            push_vals(&mut out, vi, &vals, &|x| Dev::Cell { what: if pad { "lut-pad-in" } else { "lut-in" }, idx: c_in, val: x });
            let mut vals = vec![vo + 1];
            vals.extend(extra);
            push_vals(&mut out, vo, &vals, &|x| Dev::Cell { what: if pad { "lut-pad-out" } else { "lut-out" }, idx: c_out, val: x });
            if pad {
                // multiplicities of real entries are prover-owned; those of padding slots are not
                if unset.contains(&c_mul) {
                    return Err(format!("table {li}: padding multiplicity of slot {e} is prover-owned"));
                }
                let mut vals = vec![1];
                if thorough {
                    vals.push(P - 1);
                }
                push_vals(&mut out, cu(v[c_mul]), &vals, &|x| Dev::Cell { what: "lut-pad-mult", idx: c_mul, val: x });
            } else if !unset.contains(&c_mul) {
                return Err(format!("table {li}: multiplicity of entry {e} is not prover-owned"));
            }
        }
        // (6) cells no lookup constraint reads: spare routed columns and advice columns of the lookup
        // and table rows, and the Noop row that follows the table
        let mut free = Vec::new();
        for row in lw.last_lu_gate..lw.last_lut_gate {
            for col in (2 * slots..nr).chain([nr, nw - 1]) {
                free.push(row * nw + col);
            }
        }
        for row in lw.last_lut_gate..=lw.first_lut_gate {
            for col in (3 * lslots..nr).chain([nr, nw - 1]) {
                free.push(row * nw + col);
            }
        }
        for col in [0, 1, 2, nr] {
            free.push((lw.first_lut_gate + 1) * nw + col);
        }
        for c in free {
            if rm[c] == c && !unset.contains(&c) {
                out.push(Dev::Cell { what: "free-cell", idx: c, val: (cu(v[c]) + 1) % P });
            }
        }
    }
    Ok(out)
}

const STRATS: [Strat; 5] = [Strat::S0, Strat::S1, Strat::S2(0), Strat::S6, Strat::S7];

fn strat_tag(st: Strat) -> &'static str {
    match st {
        Strat::S0 => "S0",
        Strat::S1 => "S1-lenient-quotient",
        Strat::S2(_) => "S2-zero-accumulator",
        Strat::S6 => "S6-lenient-lookups",
        Strat::S7 => "S7-shifted-lookup-sum",
        _ => "other",
    }
}

fn dev_site(d: &Dev) -> &'static str {
    match d.what() {
        "none" => "honest-identity-witness",
        "lu-slot-in" | "lu-slot-out" => "lookup-slot-cell",
        "out-var" => "lookup-output-variable",
        "in-var-other-valid" | "in-var-missing" | "in-var-not-u16" => "lookup-input-variable",
        "pair-of-other-table-known-input" | "pair-of-other-table-unknown-input" | "pair-shared-with-other-table" | "in-var-pair-of-other-table" => "pair-of-other-table",
        "forced-pair-of-other-table-known-input" | "forced-pair-of-other-table-unknown-input" | "forced-pair-shared-with-other-table" => "chosen-pair-of-other-table",
        "forced-out" => "chosen-lookup-output",
        "free-cell" => "unconstrained-cell",
        _ => "table-row-cell",
    }
}

// ------------------------------------------------------------------------------------------------

/// The three public ways of declaring a table (`add_lookup_table_from_pairs` / `_from_table` / `_from_fn`)
/// must give the same circuit: same index for an already stored table, same circuit digest and common
/// data, and the honest proof carries table[input].
fn table_definition_routes(ctx: &Ctx, cfg: &CircuitConfig) {
    use plonky2::iop::witness::{PartialWitness, WitnessWrite};
    use plonky2::plonk::circuit_builder::CircuitBuilder;
    fn f_sq(x: u16) -> u16 {
        ((x as u32 * x as u32 + 3) % 251) as u16
    }
    fn f_rev(x: u16) -> u16 {
        200 - x
    }
    let l = cfg.num_routed_wires / 3;
    for (ti, (f, n)) in [(f_sq as fn(u16) -> u16, 5usize), (f_rev as fn(u16) -> u16, l), (f_sq as fn(u16) -> u16, l + 1)].into_iter().enumerate() {
        let inputs: Vec<u16> = (0..n as u16).map(|i| i * 3 + 1).collect();
        let outs: Vec<u16> = inputs.iter().map(|&x| f(x)).collect();
        let pairs: Vec<(u16, u16)> = inputs.iter().copied().zip(outs.iter().copied()).collect();
        let case = format!("table-routes t{ti} n{n}");
        ctx.case("table-definition-routes", &case, || {
            let mut digests = Vec::new();
            for route in 0..3 {
                let mut b = CircuitBuilder::<F, D>::new(cfg.clone());
                let declare = |b: &mut CircuitBuilder<F, D>, r: usize| match r {
                    0 => b.add_lookup_table_from_pairs(std::sync::Arc::new(pairs.clone())),
                    1 => b.add_lookup_table_from_table(&inputs, &outs),
                    _ => b.add_lookup_table_from_fn(f, &inputs),
                };
                let id = declare(&mut b, route);
                // the same table declared again through every route is the stored one
                for r2 in 0..3 {
                    let again = declare(&mut b, r2);
                    if again != id {
                        return Err(format!("route {r2} registered an already stored table under a new index ({again} != {id})"));
                    }
                }
                let xs: Vec<_> = (0..3).map(|_| b.add_virtual_target()).collect();
                let ys: Vec<_> = xs.iter().map(|&x| b.add_lookup_from_index(x, id)).collect();
                for &y in &ys {
                    b.register_public_input(y);
                }
                let data = b.build::<PC>();
                let mut pw = PartialWitness::new();
                let picks = [0usize, n / 2, n - 1];
                for (x, &k) in xs.iter().zip(&picks) {
                    pw.set_target(*x, fe(inputs[k] as u64)).map_err(|e| e.to_string())?;
                }
                let proof = data.prove(pw).map_err(|e| format!("route {route}: prove failed: {e}"))?;
                let want: Vec<u64> = picks.iter().map(|&k| outs[k] as u64).collect();
                let got: Vec<u64> = proof.public_inputs.iter().map(|x| plonky2::field::types::PrimeField64::to_canonical_u64(x)).collect();
                if got != want {
                    return Err(format!("route {route}: outputs {got:?} != table values {want:?}"));
                }
                data.verify(proof).map_err(|e| format!("route {route}: verify failed: {e}"))?;
                digests.push((data.verifier_only.circuit_digest, data.common.clone()));
            }
            if digests.iter().any(|d| d.0 != digests[0].0 || d.1 != digests[0].1) {
                return Err("the three declaration routes give different circuits (digest / common data)".into());
            }
            Ok("table-definition-routes:same-circuit".into())
        });
    }
}

pub fn run(ctx: &Ctx) -> i32 {
    let thorough = ctx.tier.thorough();
    let cfgs = configs(thorough);
    let scens = scenarios(&cfgs, thorough);
    {
        let mut names = BTreeSet::new();
        for sc in &scens {
            if !names.insert(sc.name.clone()) {
                ctx.machinery_error(format!("duplicate scenario name {}", sc.name));
            }
            if sc.prog.eval(&sc.input).is_none() {
                ctx.machinery_error(format!("scenario {} does not satisfy its own program", sc.name));
            }
        }
    }
    ctx.count("scenarios", scens.len() as u64);
    ctx.count("negative_seed_scenarios", scens.iter().filter(|s| s.neg).count() as u64);

    // ---- phase 1: build every scenario, honest run; keep the seeds of the negative half
    let pos_classes: Vec<(Option<Subject>, Option<String>)> = par_map(scens.len(), |i| {
        let sc = &scens[i];
        let name = format!("{}|pos", sc.name);
        let wanted_neg = sc.neg
            && match &ctx.filter {
                None => true,
                Some(f) => f.starts_with(&format!("{}|", sc.name)) && *f != name,
            };
        if !ctx.want(&name) && !wanted_neg {
            return (None, None);
        }
        let (cname, cfg) = &cfgs[sc.cfg];
        let seed = ctx.seed.wrapping_add(i as u64 + 1);
        let subject = match prepare(sc, cname, cfg, seed) {
            Prep::Ready(s) => s,
            Prep::Classified(c) => {
                if ctx.want(&name) {
                    ctx.tick(1);
                    ctx.class(format!("pos:{}:{}", sc.kind, c));
                }
                return (None, Some(c));
            }
            Prep::Fail(site, _) => {
                ctx.case(&site, &name, || match prepare(sc, cname, cfg, seed) {
                    Prep::Fail(_, d) => Err(d),
                    _ => Ok("prepare-succeeded-on-retry".into()),
                });
                return (None, None);
            }
        };
        let mut class = None;
        if ctx.want(&name) {
            match guarded(|| positive_check(sc, &subject, seed)) {
                Ok(Ok(c)) => {
                    ctx.tick(1);
                    ctx.class(c.clone());
                    class = Some(c);
                }
                Ok(Err((site, _))) => ctx.case(&site, &name, || positive_check(sc, &subject, seed).map_err(|e| e.1)),
                Err(_) => ctx.case("positive:panic", &name, || positive_check(sc, &subject, seed).map_err(|e| e.1)),
            }
        }
        (if wanted_neg { Some(subject) } else { None }, class)
    });
    let mut pos_tally: BTreeMap<String, u64> = BTreeMap::new();
    for (_, c) in &pos_classes {
        if let Some(c) = c {
            let key = if c.starts_with("pos:") { "positive_accepted_with_table_outputs" } else { c.as_str() };
            *pos_tally.entry(key.to_string()).or_insert(0) += 1;
        }
    }
    for (k, n) in &pos_tally {
        ctx.count(k, *n);
    }

    // ---- phase 2: every single deviation of every seed x strategy
    let mut cases: Vec<(usize, Dev, Strat)> = Vec::new();
    let mut per_what: BTreeMap<&'static str, u64> = BTreeMap::new();
    for (i, (s, _)) in pos_classes.iter().enumerate() {
        let Some(s) = s else { continue };
        let wseed = ctx.seed.wrapping_add(i as u64 + 1);
        match deviations(s, thorough, wseed) {
            Err(e) => ctx.machinery_error(format!("{}: {e}", scens[i].name)),
            Ok(devs) => {
                // S1 (lenient quotient truncation) is the same execution as S0 unless the quotient degree
                // factor is not a power of two (the public prover never trims otherwise): there it is run
                // on every deviation, elsewhere on the first deviation of each kind of every seed
                let s1_everywhere = !cfgs[scens[i].cfg].1.max_quotient_degree_factor.is_power_of_two();
                let mut s1_seen: BTreeSet<&'static str> = BTreeSet::new();
                for d in devs {
                    if !matches!(d, Dev::Forced { .. }) && apply_dev(s, &s.bases[0].1, &d, wseed).is_none() {
                        continue;
                    }
                    let s1_here = s1_everywhere || s1_seen.insert(d.what());
                    for st in STRATS {
                        if st == Strat::S1 && !s1_here {
                            continue;
                        }
                        *per_what.entry(d.what()).or_insert(0) += 1;
                        cases.push((i, d.clone(), st));
                    }
                }
            }
        }
    }
    ctx.count("negative_cases_enumerated", cases.len() as u64);
    for (k, n) in &per_what {
        ctx.count(&format!("negative_cases:{k}"), *n);
    }
    let results: Vec<Option<String>> = par_map(cases.len(), |k| {
        let (i, dev, st) = &cases[k];
        let s = pos_classes[*i].0.as_ref().unwrap();
        let sc = &scens[*i];
        let name = format!("{}|{}|{}", sc.name, dev.name(), strat_tag(*st));
        if !ctx.want(&name) {
            return None;
        }
        let site = format!("neg:{}:{}", dev_site(dev), strat_tag(*st));
        let cell = std::cell::RefCell::new(None);
        ctx.case(&site, &name, || {
            let Some(values) = apply_dev(s, &s.bases[0].1, dev, ctx.seed.wrapping_add(*i as u64 + 1)) else { return Ok(String::new()) };
            let r = run_case(s, &values, &Corr::None, *st, ctx.seed.wrapping_add(k as u64 + 1));
            let r = r.map(|c| format!("{}:{}:{}:{}", sc.kind, dev.what(), strat_tag(*st), c));
            *cell.borrow_mut() = r.clone().ok();
            r
        });
        cell.into_inner()
    });
    // tallies (vacuity must be visible) and deterministic samples
    let mut tally: BTreeMap<String, u64> = BTreeMap::new();
    let mut sampled: BTreeSet<String> = BTreeSet::new();
    for (k, r) in results.iter().enumerate() {
        let Some(c) = r else { continue };
        let mut parts = c.splitn(4, ':');
        let (_kind, what, st, outcome) = (parts.next().unwrap_or(""), parts.next().unwrap_or(""), parts.next().unwrap_or(""), parts.next().unwrap_or(""));
        let verdict = outcome.split(':').next().unwrap_or("");
        *tally.entry(format!("outcome:{verdict}")).or_insert(0) += 1;
        *tally.entry(format!("outcome:{what}:{st}:{verdict}")).or_insert(0) += 1;
        let skey = format!("{what}:{verdict}");
        if st == "S0" || st == "S6-lenient-lookups" || st == "S7-shifted-lookup-sum" {
            if sampled.len() < 9 && sampled.insert(skey) {
                let (i, dev, stt) = &cases[k];
                let sc = &scens[*i];
                ctx.sample(json!({
                    "scenario": sc.name,
                    "tables": sc.prog.tables.iter().map(|t| format!("{} entries, first {:?}", t.len(), t[0])).collect::<Vec<_>>(),
                    "lookups": sc.prog.ops.iter().filter(|o| matches!(o, Op::Lookup(..))).count(),
                    "deviation": dev.name(),
                    "strategy": strat_tag(*stt),
                    "observation": outcome,
                }));
            }
        }
    }
    for (k, n) in &tally {
        ctx.count(k, *n);
    }
    for (i, (_, c)) in pos_classes.iter().enumerate().filter(|(_, (_, c))| c.is_some()).step_by(97).take(3) {
        let sc = &scens[i];
        ctx.sample(json!({
            "scenario": sc.name,
            "tables": sc.prog.tables.iter().map(|t| t.len()).collect::<Vec<_>>(),
            "lookups": sc.prog.ops.iter().filter(|o| matches!(o, Op::Lookup(..))).count(),
            "observation": c,
        }));
    }
    if !ctx.replaying() {
        let emitted_and_rejected = tally.get("outcome:rejected").copied().unwrap_or(0);
        let accepted = tally.get("outcome:accepted").copied().unwrap_or(0);
        if emitted_and_rejected == 0 || accepted == 0 {
            ctx.machinery_error("the negative half is vacuous: no proof was emitted-and-rejected, or none accepted");
        }
    }
    table_definition_routes(ctx, &cfgs[0].1);
    let widths: Vec<String> = cfgs
        .iter()
        .map(|(n, c)| {
            let (sz, ks) = boundaries(c);
            format!("{n}: routed {} -> table sizes {:?}, lookups per table {:?}, num_challenges {}, quotient factor {}", c.num_routed_wires, sz, ks, c.num_challenges, c.max_quotient_degree_factor)
        })
        .collect();
    ctx.finish(Finish {
        level: "fault_enumeration",
        rule: "POSITIVE: per configuration, every circuit of the grid {1 table: size in {1,2,L-1,L,L+1,2L,2L+1} x family {identity, constant output, boundary pairs} x lookups in {1,2,S-1,S,S+1,2S} x arrangement {distinct/cyclic, one input repeated, upper half only (entries unused)} from witness inputs; inputs from constants / from the previous lookup's output / mixed; 2 tables {sharing pairs, same inputs with different outputs} x 4 size pairs x 5 count pairs x {interleaved, table 2 first}; 3 tables x 4 variants; an unused table (documented builder rejection); 3 duplicate-input tables (recorded only)} is built, proved and verified with the real code; outputs must equal table[input] and the witness must satisfy sat and lookup_sat. NEGATIVE: for every seed circuit, EVERY used LookupGate slot cell (input, output), EVERY looked-up output variable, EVERY looked-up input variable (other valid input / 16-bit value missing from the table / non-16-bit value), EVERY lookup x every other table (foreign pair with known input, foreign pair with unknown input, shared pair), EVERY LookupTableGate cell (looked input, looked output, padding-slot multiplicity) and the cells no lookup constraint reads, each x {S0, S1 lenient quotient, S2 zero accumulator, S6 lenient multiplicities, S7 shifted lookup running sum}: real prove_with_partition_witness on an identity representative map + real verify, expected verdict = sat and lookup_sat of the committed assignment (and reject under S2). distinct_nontrivial counts (scenario kind, deviation kind, strategy, verdict, reason class) and (scenario kind, row shape) combinations",
        exhaustive: true,
        assumptions: vec![
            "the multiplicities of real table entries and the padding slots of the last LookupGate row are written by the prover itself (set_lookup_wires) and cannot be chosen through the public API: they are not corrupted; the padding-slot multiplicities of the table rows are".into(),
            "deviation bound 1 (one cell / one variable / one pair) + one prover strategy; replacement values: v+1, a value of another entry of the same table (thorough: also 0 and p-1)".into(),
            "tables with duplicate inputs are outside the property (a table is a function): behaviour is recorded, never judged".into(),
            "a false lookup argument survives only if alpha/delta challenges (base field, per challenge round) hit a root: probability about 2^-50 per case, not observable here".into(),
            "the oracle trusts the harness restatement of set_lookup_wires (apply_lookup_padding); it is cross-validated by every positive case (honest proofs verify and satisfy it)".into(),
            "negative seeds are the boundary circuits listed in `scenarios` (neg flag), not every positive case".into(),
            "S1 (lenient quotient) executes exactly like S0 when the quotient degree factor is a power of two; there it is run on the first deviation of each kind per seed only, on every deviation in the qdf7 configuration (thorough)".into(),
        ],
        extra: json!({ "configurations": widths, "strategies": STRATS.iter().map(|s| strat_tag(*s)).collect::<Vec<_>>() }),
    })
}
