//! C01 — honest proofs of satisfiable circuits verify and carry the right outputs.
//!
//! Bounded exhaustive exploration of circuit programs (all depth-1 gadget programs with every
//! operand binding, all depth-2 chains in the thorough tier, a catalogue of deeper compositions)
//! x boundary input vectors x the configuration lattice. Oracle: direct evaluation of the program
//! over the field (harness arithmetic, textbook Poseidon) + the exact satisfaction oracle on the
//! generated witness + prove/verify (+ compressed verify) on a subset containing every program.

use plonky2::fri::reduction_strategies::FriReductionStrategy;
use plonky2::plonk::circuit_data::CircuitConfig;
use plonky2::plonk::config::GenericConfig;
use serde_json::json;

use crate::core::*;
use crate::plonkm::*;

pub struct Tmpl {
    pub name: String,
    pub args: Vec<Ty>,
    /// per-argument alphabet override (None: default for the type)
    pub alph: Vec<Option<Vec<u64>>>,
    pub make: Box<dyn Fn(&[usize], usize) -> Vec<Op> + Send + Sync>,
    pub tables: Vec<Vec<(u16, u16)>>,
}

fn t(name: &str, args: Vec<Ty>, make: impl Fn(&[usize], usize) -> Vec<Op> + Send + Sync + 'static) -> Tmpl {
    let n = args.len();
    Tmpl { name: name.to_string(), args, alph: vec![None; n], make: Box::new(make), tables: vec![] }
}
fn ta(
    name: &str,
    args: Vec<Ty>,
    alph: Vec<Option<Vec<u64>>>,
    make: impl Fn(&[usize], usize) -> Vec<Op> + Send + Sync + 'static,
) -> Tmpl {
    Tmpl { name: name.to_string(), args, alph, make: Box::new(make), tables: vec![] }
}

fn small_range(n: usize) -> Vec<u64> {
    // boundary values of [0, 2^n) plus one value just outside (unsatisfied, exercises the None path)
    let top = if n >= 64 { u64::MAX } else { (1u64 << n) - 1 };
    let mut v = vec![0, 1, 2, top / 2, top - 1, top];
    if n < 63 {
        v.push(top + 1);
    }
    v.retain(|x| *x < P);
    dedup(v)
}

pub fn templates() -> Vec<Tmpl> {
    use Op::*;
    use Ty::*;
    let mut v: Vec<Tmpl> = Vec::new();
    v.push(t("const", vec![], |_, _| vec![Const(0), Const(1), Const(P - 1), Const(1 << 32)]));
    v.push(t("add", vec![B, B], |a, _| vec![Add(a[0], a[1])]));
    v.push(t("sub", vec![B, B], |a, _| vec![Sub(a[0], a[1])]));
    v.push(t("mul", vec![B, B], |a, _| vec![Mul(a[0], a[1])]));
    v.push(t("neg", vec![B], |a, _| vec![Neg(a[0])]));
    v.push(t("square", vec![B], |a, _| vec![Square(a[0])]));
    v.push(t("cube", vec![B], |a, _| vec![Cube(a[0])]));
    v.push(t("mul_add", vec![B, B, B], |a, _| vec![MulAdd(a[0], a[1], a[2])]));
    v.push(t("mul_sub", vec![B, B, B], |a, _| vec![MulSub(a[0], a[1], a[2])]));
    for (c0, c1) in [(0u64, 0u64), (1, 0), (0, 1), (1, 1), (P - 1, 2), (1 << 32, P - 1), (3, 5)] {
        v.push(t(&format!("arith_{c0}_{c1}"), vec![B, B, B], move |a, _| vec![Arith(c0, c1, a[0], a[1], a[2])]));
    }
    for c in [0u64, 1, P - 1, 1 << 32, EPS] {
        v.push(t(&format!("add_const_{c}"), vec![B], move |a, _| vec![AddConst(a[0], c)]));
        v.push(t(&format!("mul_const_{c}"), vec![B], move |a, _| vec![MulConst(c, a[0])]));
        v.push(t(&format!("mul_const_add_{c}"), vec![B, B], move |a, _| vec![MulConstAdd(c, a[0], a[1])]));
    }
    v.push(t("add_many3", vec![B, B, B], |a, _| vec![AddMany(vec![a[0], a[1], a[2]])]));
    v.push(t("add_many0", vec![], |_, _| vec![AddMany(vec![])]));
    v.push(t("mul_many3", vec![B, B, B], |a, _| vec![MulMany(vec![a[0], a[1], a[2]])]));
    v.push(t("mul_many1", vec![B], |a, _| vec![MulMany(vec![a[0]])]));
    v.push(t("div", vec![B, B], |a, _| vec![Div(a[0], a[1])]));
    v.push(t("inverse", vec![B], |a, _| vec![Inverse(a[0])]));
    for e in [0u64, 1, 2, 5, 255, u64::MAX] {
        v.push(t(&format!("exp_u64_{e}"), vec![B], move |a, _| vec![ExpU64(a[0], e)]));
    }
    for k in [0usize, 1, 5] {
        v.push(t(&format!("exp_pow2_{k}"), vec![B], move |a, _| vec![ExpPow2(a[0], k)]));
    }
    for n in [1usize, 3, 8] {
        v.push(ta(&format!("exp_bits_{n}"), vec![B, B], vec![None, Some(small_range(n))], move |a, _| {
            vec![ExpBits(a[0], a[1], n)]
        }));
        v.push(ta(&format!("exp_gate_{n}"), vec![B, B], vec![None, Some(small_range(n))], move |a, _| {
            vec![Exp(a[0], a[1], n)]
        }));
        v.push(ta(&format!("exp_bits_const_base_{n}"), vec![B], vec![Some(small_range(n))], move |a, _| {
            vec![ExpBitsConstBase(P - 2, a[0], n), ExpBitsConstBase(0, a[0], n), ExpBitsConstBase(7, a[0], n)]
        }));
    }
    // exponent wider than one ExponentiationGate (num_power_bits from config is ~ 66 for 135 wires;
    // with 25 routed wires it is smaller): 40 bits
    v.push(ta("exp_bits_40", vec![B, B], vec![None, Some(small_range(40))], |a, _| vec![ExpBits(a[0], a[1], 40)]));
    v.push(t("is_equal", vec![B, B], |a, _| vec![IsEqual(a[0], a[1])]));
    v.push(t("not", vec![Bool], |a, _| vec![Not(a[0])]));
    v.push(t("and", vec![Bool, Bool], |a, _| vec![And(a[0], a[1])]));
    v.push(t("or", vec![Bool, Bool], |a, _| vec![Or(a[0], a[1])]));
    v.push(t("if", vec![Bool, B, B], |a, _| vec![If(a[0], a[1], a[2])]));
    v.push(t("select", vec![Bool, B, B], |a, _| vec![Select(a[0], a[1], a[2])]));
    for n in [0usize, 1, 8, 32, 63] {
        if n > 0 {
            v.push(ta(&format!("range_check_{n}"), vec![B], vec![Some(small_range(n))], move |a, _| {
                vec![RangeCheck(a[0], n), AddConst(a[0], 1)]
            }));
        }
    }
    v.push(ta("low_bits_3_of_8", vec![B], vec![Some(small_range(8))], |a, _| vec![LowBits(a[0], 3, 8)]));
    v.push(ta("low_bits_8_of_8", vec![B], vec![Some(small_range(8))], |a, _| vec![LowBits(a[0], 8, 8)]));
    v.push(ta("split_low_high_4_8", vec![B], vec![Some(small_range(8))], |a, _| vec![SplitLowHigh(a[0], 4, 8)]));
    v.push(ta("split_low_high_32_64", vec![B], vec![Some(split64_alphabet())], |a, _| vec![SplitLowHigh(a[0], 32, 64)]));
    v.push(ta("split_low_high_7_63", vec![B], vec![Some(small_range(63))], |a, _| vec![SplitLowHigh(a[0], 7, 63)]));
    for n in [1usize, 2, 8, 33, 63] {
        v.push(ta(&format!("split_le_{n}"), vec![B], vec![Some(small_range(n))], move |a, _| vec![SplitLe(a[0], n)]));
    }
    // 64-bit split: every canonical value has a unique 64-bit representation below p only if the
    // gadget constrains it; the honest prover's witness is the canonical one
    v.push(ta("split_le_64", vec![B], vec![Some(split64_alphabet())], |a, _| vec![SplitLe(a[0], 64)]));
    for (b, l) in [(2usize, 1usize), (2, 8), (2, 63), (3, 1), (3, 5), (3, 40), (4, 3), (4, 31)] {
        let top = (b as u128).pow(l as u32) - 1;
        let top = top.min((P - 1) as u128) as u64;
        let al = dedup(vec![0, 1, 2, top / 2, top - 1.min(top), top, top.wrapping_add(1) % P]);
        v.push(ta(&format!("split_le_base{b}_{l}"), vec![B], vec![Some(al)], move |a, _| vec![SplitLeBase(a[0], b, l)]));
    }
    v.push(t("le_sum_3", vec![Bool, Bool, Bool], |a, _| vec![LeSum(vec![a[0], a[1], a[2]])]));
    v.push(t("le_sum_0", vec![], |_, _| vec![LeSum(vec![])]));
    v.push(ta("split_then_le_sum_8", vec![B], vec![Some(small_range(8))], |a, b| {
        vec![SplitLe(a[0], 8), LeSum((b..b + 8).collect())]
    }));
    for len in [1usize, 2, 3, 4, 5, 8] {
        let al: Vec<u64> = (0..=len as u64).collect();
        v.push(ta(&format!("random_access_{len}"), vec![B, B, B], vec![Some(al.clone()), None, None], move |a, _| {
            let list: Vec<usize> = (0..len).map(|i| a[1 + i % 2]).collect();
            vec![RandomAccess(a[0], list)]
        }));
        if len > 1 {
            v.push(ta(&format!("random_access_ext_{len}"), vec![B, E, E], vec![Some(al), None, None], move |a, _| {
                let list: Vec<usize> = (0..len).map(|i| a[1 + i % 2]).collect();
                vec![RandomAccessExt(a[0], list)]
            }));
        }
    }
    v.push(ta("random_access_64", vec![B, B], vec![Some(vec![0, 1, 31, 62, 63, 64]), None], |a, b| {
        // list = 64 distinct values derived from one input: x + i
        let mut ops: Vec<Op> = (0..64).map(|i| AddConst(a[1], i as u64)).collect();
        ops.push(RandomAccess(a[0], (b..b + 64).collect()));
        ops
    }));
    v.push(ta("assert_bool", vec![B], vec![Some(vec![0, 1, 2, P - 1])], |a, _| vec![AssertBool(a[0]), AddConst(a[0], 0)]));
    v.push(t("connect", vec![B, B], |a, _| vec![Connect(a[0], a[1]), Add(a[0], a[1])]));
    v.push(ta("assert_zero", vec![B], vec![Some(vec![0, 1, P - 1])], |a, _| vec![AssertZero(a[0]), AddConst(a[0], 5)]));
    v.push(ta("assert_one", vec![B], vec![Some(vec![0, 1, P - 1])], |a, _| vec![AssertOne(a[0]), AddConst(a[0], 5)]));
    v.push(ta("cond_assert_eq", vec![B, B, B], vec![Some(vec![0, 1, 2]), None, None], |a, _| {
        vec![CondAssertEq(a[0], a[1], a[2]), Add(a[1], a[2])]
    }));
    // extension family
    v.push(t("ext_from_base", vec![B, B], |a, _| vec![ExtFromBase(a[0], a[1])]));
    v.push(t("add_ext", vec![E, E], |a, _| vec![AddExt(a[0], a[1])]));
    v.push(t("sub_ext", vec![E, E], |a, _| vec![SubExt(a[0], a[1])]));
    v.push(t("mul_ext", vec![E, E], |a, _| vec![MulExt(a[0], a[1])]));
    v.push(t("div_ext", vec![E, E], |a, _| vec![DivExt(a[0], a[1])]));
    v.push(t("inverse_ext", vec![E], |a, _| vec![InverseExt(a[0])]));
    v.push(t("square_ext", vec![E], |a, _| vec![SquareExt(a[0])]));
    v.push(t("cube_ext", vec![E], |a, _| vec![CubeExt(a[0])]));
    v.push(t("mul_add_ext", vec![E, E, E], |a, _| vec![MulAddExt(a[0], a[1], a[2])]));
    for (c0, c1) in [(1u64, 1u64), (0, 1), (P - 1, 2), (1 << 32, 0)] {
        v.push(t(&format!("arith_ext_{c0}_{c1}"), vec![E, E, E], move |a, _| vec![ArithExt(c0, c1, a[0], a[1], a[2])]));
    }
    v.push(t("scalar_mul_ext", vec![B, E], |a, _| vec![ScalarMulExt(a[0], a[1])]));
    v.push(t("mul_many_ext3", vec![E, E, E], |a, _| vec![MulManyExt(vec![a[0], a[1], a[2]])]));
    v.push(t("mul_many_ext4", vec![E, E], |a, _| vec![MulManyExt(vec![a[0], a[1], a[0], a[1]])]));
    for e in [0u64, 1, 2, 5, 1 << 40] {
        v.push(t(&format!("exp_u64_ext_{e}"), vec![E], move |a, _| vec![ExpU64Ext(a[0], e)]));
    }
    v.push(t("exp_pow2_ext_3", vec![E], |a, _| vec![ExpPow2Ext(a[0], 3)]));
    v.push(t("select_ext", vec![Bool, E, E], |a, _| vec![SelectExt(a[0], a[1], a[2])]));
    for n in [0usize, 1, 2, 5, 21, 22, 23, 45] {
        v.push(t(&format!("reduce_ext_{n}"), vec![E, E, E], move |a, _| {
            vec![ReduceExt(a[0], (0..n).map(|i| a[1 + i % 2]).collect())]
        }));
        v.push(t(&format!("reduce_base_{n}"), vec![E, B, B], move |a, _| {
            vec![ReduceBase(a[0], (0..n).map(|i| a[1 + i % 2]).collect())]
        }));
    }
    for n in [0usize, 1, 4] {
        v.push(t(&format!("poly_eval_ext_{n}"), vec![E, E, E], move |a, _| {
            vec![PolyEvalExt((0..n).map(|i| a[1 + i % 2]).collect(), a[0])]
        }));
    }
    // less common gadgets
    v.push(t("wide_arith_ext", vec![E, E, E], |a, _| vec![WideArithExt(a[0], a[1], a[2], a[0], a[1])]));
    for k in [1u64, P - 1, 1 << 32] {
        v.push(t(&format!("inner_product_ext_{k}"), vec![E, E, E], move |a, _| vec![InnerProductExt(k, a[0], vec![(a[1], a[2]), (a[0], a[1]), (a[2], a[2])])]));
    }
    v.push(t("inner_product_ext_empty", vec![E], |a, _| vec![InnerProductExt(3, a[0], vec![])]));
    v.push(t("div_add_ext", vec![E, E, E], |a, _| vec![DivAddExt(a[0], a[1], a[2])]));
    v.push(t("mul_sub_ext", vec![E, E, E], |a, _| vec![MulSubExt(a[0], a[1], a[2])]));
    v.push(t("scalar_mul_add_ext", vec![B, E, E], |a, _| vec![ScalarMulAddExt(a[0], a[1], a[2])]));
    v.push(t("scalar_mul_sub_ext", vec![B, E, E], |a, _| vec![ScalarMulSubExt(a[0], a[1], a[2])]));
    for k in [0u64, 1, P - 1, EPS] {
        v.push(t(&format!("mul_const_add_ext_{k}"), vec![E, E], move |a, _| vec![MulConstAddExt(k, a[0], a[1])]));
        v.push(t(&format!("add_const_ext_{k}"), vec![E], move |a, _| vec![AddConstExt(a[0], k)]));
        v.push(t(&format!("mul_const_ext_{k}"), vec![E], move |a, _| vec![MulConstExt(k, a[0])]));
        v.push(t(&format!("mul_ext_with_const_{k}"), vec![E, E], move |a, _| vec![MulExtWithConst(k, a[0], a[1])]));
    }
    v.push(t("add_many_ext3", vec![E, E, E], |a, _| vec![AddManyExt(vec![a[0], a[1], a[2]])]));
    v.push(t("add_many_ext0", vec![], |_, _| vec![AddManyExt(vec![])]));
    for n in [1usize, 3, 8] {
        v.push(ta(&format!("exp_bits_ext_{n}"), vec![E, B], vec![None, Some(small_range(n))], move |a, _| vec![ExpBitsExt(a[0], a[1], n)]));
    }
    for k in [0usize, 1, 2, 3] {
        v.push(t(&format!("frobenius_ext_{k}"), vec![E], move |a, _| vec![FrobeniusExt(a[0], k)]));
    }
    v.push(t("select_ext_generalized", vec![E, E, E], |a, _| vec![SelectExtGen(a[0], a[1], a[2])]));
    v.push(ta("cond_assert_eq_ext", vec![B, E, E], vec![Some(vec![0, 1, 2]), None, None], |a, _| vec![CondAssertEqExt(a[0], a[1], a[2]), AddExt(a[1], a[2])]));
    v.push(t("connect_ext", vec![E, E], |a, _| vec![ConnectExt(a[0], a[1]), MulExt(a[0], a[1])]));
    v.push(t("permute", vec![B, B], |a, _| vec![Permute((0..12).map(|i| a[i % 2]).collect())]));
    v.push(t("permute_chain", vec![B], |a, b| vec![Permute(vec![a[0]; 12]), Permute((b..b + 12).collect())]));
    for len in [1usize, 2, 3, 4] {
        let al: Vec<u64> = (0..=len as u64).collect();
        v.push(ta(&format!("random_access_hash_{len}"), vec![B, B, B], vec![Some(al), None, None], move |a, _| {
            vec![RandomAccessHash(a[0], (0..4 * len).map(|i| a[1 + (i / 3) % 2]).collect())]
        }));
    }
    for n in [0usize, 1, 4] {
        v.push(t(&format!("poly_eval_scalar_{n}"), vec![B, E, E], move |a, _| vec![PolyEvalScalar((0..n).map(|i| a[1 + i % 2]).collect(), a[0])]));
    }
    v.push(t("powers_5", vec![E], |a, _| vec![Powers(a[0], 5)]));
    // le_sum through the BaseSumGate path (more bits than one ArithmeticGate row holds operations)
    v.push(ta("split_then_le_sum_40", vec![B], vec![Some(small_range(40))], |a, b| vec![SplitLe(a[0], 40), LeSum((b..b + 40).collect())]));
    v.push(ta("split_then_le_sum_63", vec![B], vec![Some(small_range(63))], |a, b| vec![SplitLe(a[0], 63), LeSum((b..b + 63).collect())]));
    // hashing
    for n in [0usize, 1, 4, 7, 8, 9, 16, 17] {
        v.push(t(&format!("hash_no_pad_{n}"), vec![B, B], move |a, _| vec![HashNoPad((0..n).map(|i| a[i % 2]).collect())]));
    }
    v.push(t("hash_n_to_m_3_13", vec![B, B], |a, _| vec![HashNToM(vec![a[0], a[1], a[0]], 13)]));
    v.push(t("hash_n_to_m_9_1", vec![B, B], |a, _| vec![HashNToM((0..9).map(|i| a[i % 2]).collect(), 1)]));
    for n in [0usize, 3, 4, 5] {
        v.push(t(&format!("hash_or_noop_{n}"), vec![B, B], move |a, _| vec![HashOrNoop((0..n).map(|i| a[i % 2]).collect())]));
    }
    v
}

fn split64_alphabet() -> Vec<u64> {
    vec![0, 1, EPS, 1 << 32, (1 << 32) + 1, 1 << 63, P - 2, P - 1]
}

fn default_alphabet(ty: Ty) -> Vec<u64> {
    match ty {
        Ty::B => a8(),
        Ty::Bool => vec![0, 1],
        Ty::E => vec![],
    }
}

/// Input vectors: full product of the per-argument alphabets when there are <= 2 arguments,
/// otherwise the base vector with <= 2 coordinates varied over their alphabet (deviation bound 2).
pub fn input_vectors(args: &[Ty], alph: &[Option<Vec<u64>>]) -> Vec<Vec<u64>> {
    // per-argument list of flattened values
    let ext_alpha: Vec<[u64; 2]> = {
        let s = [0u64, 1, P - 1];
        let mut v = Vec::new();
        for a in s {
            for b in s {
                v.push([a, b]);
            }
        }
        v.push([1 << 32, EPS]);
        v
    };
    let per: Vec<Vec<Vec<u64>>> = args
        .iter()
        .zip(alph)
        .map(|(ty, al)| match ty {
            Ty::E => ext_alpha.iter().map(|e| e.to_vec()).collect(),
            _ => al.clone().unwrap_or_else(|| default_alphabet(*ty)).into_iter().map(|x| vec![x]).collect(),
        })
        .collect();
    let k = args.len();
    let mut out: Vec<Vec<u64>> = Vec::new();
    if k == 0 {
        return vec![vec![]];
    }
    if k <= 2 {
        let mut idx = vec![0usize; k];
        loop {
            out.push((0..k).flat_map(|i| per[i][idx[i]].clone()).collect());
            let mut i = 0;
            loop {
                idx[i] += 1;
                if idx[i] < per[i].len() {
                    break;
                }
                idx[i] = 0;
                i += 1;
                if i == k {
                    return out;
                }
            }
        }
    }
    // base vector: element #2 of each alphabet (or the last one)
    let base: Vec<usize> = per.iter().map(|p| 2.min(p.len() - 1)).collect();
    let mut seen = std::collections::BTreeSet::new();
    let mut push = |idx: &Vec<usize>, out: &mut Vec<Vec<u64>>| {
        if seen.insert(idx.clone()) {
            out.push((0..k).flat_map(|i| per[i][idx[i]].clone()).collect());
        }
    };
    push(&base, &mut out);
    for i in 0..k {
        for vi in 0..per[i].len() {
            let mut idx = base.clone();
            idx[i] = vi;
            push(&idx, &mut out);
            for j in (i + 1)..k {
                for vj in 0..per[j].len() {
                    let mut idx2 = idx.clone();
                    idx2[j] = vj;
                    push(&idx2, &mut out);
                }
            }
        }
    }
    out
}

/// All ways of binding the template's arguments to inputs: distinct inputs, and for every pair of
/// same-typed arguments the variant where both refer to the same input.
fn bindings(args: &[Ty]) -> Vec<Vec<usize>> {
    let k = args.len();
    let mut out = vec![(0..k).collect::<Vec<usize>>()];
    for i in 0..k {
        for j in (i + 1)..k {
            if args[i] == args[j] {
                let mut b: Vec<usize> = (0..k).collect();
                b[j] = i;
                // renumber to keep inputs dense
                let mut map = std::collections::BTreeMap::new();
                let mut next = 0;
                let b: Vec<usize> = {
                    for x in b.iter_mut() {
                        let e = map.entry(*x).or_insert_with(|| {
                            let n = next;
                            next += 1;
                            n
                        });
                        *x = *e;
                    }
                    b
                };
                out.push(b);
            }
        }
    }
    if k >= 3 && args.iter().all(|a| *a == args[0]) {
        out.push(vec![0; k]);
    }
    out
}

pub struct Prog {
    pub program: Program,
    pub alph: Vec<Option<Vec<u64>>>,
}

pub fn depth1_programs() -> Vec<Prog> {
    let mut out = Vec::new();
    for tm in templates() {
        for b in bindings(&tm.args) {
            let n_inputs = b.iter().max().map(|m| m + 1).unwrap_or(0);
            let mut inputs = vec![Ty::B; n_inputs];
            let mut alph: Vec<Option<Vec<u64>>> = vec![None; n_inputs];
            for (ai, &ii) in b.iter().enumerate() {
                inputs[ii] = tm.args[ai];
                if tm.alph[ai].is_some() {
                    alph[ii] = tm.alph[ai].clone();
                }
            }
            let ops = (tm.make)(&b, n_inputs);
            let tag: String = b.iter().map(|x| x.to_string()).collect::<Vec<_>>().join("");
            let mut program = Program::new(&format!("{}[{}]", tm.name, tag), inputs, ops);
            program.tables = tm.tables.clone();
            out.push(Prog { program, alph });
        }
    }
    out
}

/// Depth-2 chains: the first Base-typed result of T1 feeds the first Base-typed argument of T2.
pub fn depth2_programs() -> Vec<Prog> {
    let ts = templates();
    let mut out = Vec::new();
    for t1 in &ts {
        // find the stack position of T1's first Base result, from a satisfying evaluation
        let k1 = t1.args.len();
        let args1: Vec<usize> = (0..k1).collect();
        for t2 in &ts {
            let Some(j0) = t2.args.iter().position(|a| *a == Ty::B) else { continue };
            let others: Vec<usize> = (0..t2.args.len()).filter(|j| *j != j0).collect();
            let k_total = k1 + others.len();
            let ops1 = (t1.make)(&args1, k_total);
            let mut inputs: Vec<Ty> = t1.args.clone();
            let mut alph = t1.alph.clone();
            for j in &others {
                inputs.push(t2.args[*j]);
                alph.push(t2.alph[*j].clone());
            }
            let p1 = Program { name: String::new(), inputs: inputs.clone(), ops: ops1.clone(), tables: vec![] };
            // probe for result types
            let mut first_b = None;
            let mut n_res = 0;
            for iv in input_vectors(&inputs, &alph) {
                if let Some(st) = p1.eval_stack(&iv) {
                    n_res = st.len() - k_total;
                    first_b = st[k_total..].iter().position(|r| matches!(r, RVal::B(_))).map(|p| k_total + p);
                    break;
                }
            }
            let Some(r) = first_b else { continue };
            let mut args2 = vec![0usize; t2.args.len()];
            args2[j0] = r;
            for (rank, j) in others.iter().enumerate() {
                args2[*j] = k1 + rank;
            }
            let mut ops = ops1;
            ops.extend((t2.make)(&args2, k_total + n_res));
            out.push(Prog { program: Program::new(&format!("{}>{}", t1.name, t2.name), inputs, ops), alph });
        }
    }
    out
}

/// Catalogue of deeper compositions (gadget interactions sharing rows / constants).
pub fn catalogue() -> Vec<Prog> {
    use Op::*;
    use Ty::*;
    let mut out = Vec::new();
    let mut add = |name: &str, inputs: Vec<Ty>, alph: Vec<Option<Vec<u64>>>, ops: Vec<Op>| {
        out.push(Prog { program: Program::new(name, inputs, ops), alph });
    };
    // many arithmetic ops filling and overflowing ArithmeticGate rows (20 ops per row at 80 routed wires)
    add("arith_45_ops", vec![B, B], vec![None, None], {
        let mut ops = vec![Mul(0, 1)];
        for i in 0..44 {
            ops.push(if i % 3 == 0 { Add(2 + i, 0) } else if i % 3 == 1 { Mul(2 + i, 1) } else { Sub(2 + i, 0) });
        }
        ops
    });
    add("range_after_split", vec![B], vec![Some(small_range(16))], vec![SplitLe(0, 16), LeSum((1..9).collect()), RangeCheck(17, 8), Mul(17, 0)]);
    add("fib_20", vec![B, B], vec![None, None], {
        let mut ops = vec![Add(0, 1)];
        for i in 0..19 {
            ops.push(Add(1 + i, 2 + i));
        }
        ops
    });
    add("poseidon_chain", vec![B, B], vec![None, None], vec![HashNoPad(vec![0, 1]), HashNoPad(vec![2, 3, 4, 5, 0]), HashOrNoop(vec![6, 7, 8, 9, 2])]);
    add("ext_mix", vec![E, E, B], vec![None, None, None], vec![MulExt(0, 1), ScalarMulExt(2, 3), DivExt(4, 0), AddExt(5, 1), ReduceExt(0, vec![3, 4, 5, 6]), ExpU64Ext(7, 3)]);
    add("select_random_access", vec![Bool, B, B, B], vec![None, None, None, Some(vec![0, 1, 2, 3])], vec![Select(0, 1, 2), RandomAccess(3, vec![1, 2, 4, 1]), IsEqual(4, 5), If(6, 1, 2)]);
    add("exp_then_range", vec![B, B], vec![Some(vec![0, 1, 2, 3]), Some(small_range(4))], vec![ExpBits(0, 1, 4), Exp(0, 1, 4), Connect(2, 3), Sub(2, 3), AssertZero(4)]);
    add("inverse_div_consistency", vec![B, B], vec![None, None], vec![Inverse(1), Mul(0, 2), Div(0, 1), Connect(3, 4)]);
    add("split_base3_recompose", vec![B], vec![Some(vec![0, 1, 2, 80, 242])], vec![SplitLeBase(0, 3, 5), MulConst(3, 5), Add(6, 4), MulConst(3, 7), Add(8, 3), MulConst(3, 9), Add(10, 2), MulConst(3, 11), Add(12, 1), Connect(13, 0)]);
    add("constants_many", vec![B], vec![None], (0..12).map(|i| AddConst(0, 1000 + i as u64 * 7919)).collect());
    // Merkle membership: leaf = (x, x+1, x+2, x+3, x+4), height 2, siblings and root supplied as inputs
    out
}

/// Merkle membership programs need inputs that depend on each other (root = hash chain), so their
/// input vectors are computed by the reference model.
pub fn merkle_cases() -> Vec<(Program, Vec<Vec<u64>>)> {
    use Op::*;
    let mut out = Vec::new();
    for height in [0usize, 1, 3] {
        for leaf_len in [1usize, 5] {
            // inputs: leaf (leaf_len), index, root (4), siblings (4*height)
            let n_in = leaf_len + 1 + 4 + 4 * height;
            let leaf: Vec<usize> = (0..leaf_len).collect();
            let index = leaf_len;
            let root: Vec<usize> = (leaf_len + 1..leaf_len + 5).collect();
            let siblings: Vec<usize> = (leaf_len + 5..n_in).collect();
            let prog = Program::new(
                &format!("merkle_h{height}_l{leaf_len}"),
                vec![Ty::B; n_in],
                vec![MerkleVerify { leaf, index, height, root, siblings }, Const(1)],
            );
            let mut ivs = Vec::new();
            for idx in 0..(1u64 << height) {
                for lv in [0u64, P - 1] {
                    let leaf_vals: Vec<u64> = (0..leaf_len).map(|i| addm(lv, i as u64)).collect();
                    let sibs: Vec<Vec<u64>> = (0..height).map(|l| vec![l as u64 + 1, P - 1, 1 << 32, idx]).collect();
                    let mut cur = ref_hash_or_noop(&leaf_vals);
                    for l in 0..height {
                        cur = if (idx >> l) & 1 == 1 { ref_two_to_one(&sibs[l], &cur) } else { ref_two_to_one(&cur, &sibs[l]) };
                    }
                    let mut iv = leaf_vals.clone();
                    iv.push(idx);
                    iv.extend(cur.iter());
                    for s in &sibs {
                        iv.extend(s.iter());
                    }
                    ivs.push(iv.clone());
                    // a wrong root: unsatisfied
                    let mut bad = iv.clone();
                    bad[leaf_len + 1] = addm(bad[leaf_len + 1], 1);
                    ivs.push(bad);
                }
            }
            out.push((prog, ivs));
        }
    }
    // verification against a cap: height = number of siblings, index has height + cap_height bits
    for (height, cap_height) in [(0usize, 1usize), (1, 1), (2, 2), (1, 0)] {
        let leaf_len = 3usize;
        let n_cap = 4 << cap_height;
        let n_in = leaf_len + 1 + n_cap + 4 * height;
        let leaf: Vec<usize> = (0..leaf_len).collect();
        let index = leaf_len;
        let cap: Vec<usize> = (leaf_len + 1..leaf_len + 1 + n_cap).collect();
        let siblings: Vec<usize> = (leaf_len + 1 + n_cap..n_in).collect();
        let prog = Program::new(
            &format!("merkle_cap_h{height}_c{cap_height}"),
            vec![Ty::B; n_in],
            vec![MerkleVerifyCap { leaf, index, height, cap_height, cap, siblings }, Const(1)],
        );
        let mut ivs = Vec::new();
        for idx in 0..(1u64 << (height + cap_height)) {
            let leaf_vals: Vec<u64> = (0..leaf_len).map(|i| addm(P - 2, i as u64)).collect();
            let sibs: Vec<Vec<u64>> = (0..height).map(|l| vec![l as u64 + 5, P - 1, 1 << 32, idx]).collect();
            let mut cur = ref_hash_or_noop(&leaf_vals);
            for l in 0..height {
                cur = if (idx >> l) & 1 == 1 { ref_two_to_one(&sibs[l], &cur) } else { ref_two_to_one(&cur, &sibs[l]) };
            }
            // the cap: the path's entry holds the root of its sub-tree, the others hold junk
            let ci = (idx >> height) as usize;
            let mut capv: Vec<u64> = (0..n_cap as u64).map(|i| 1000 + i).collect();
            capv[4 * ci..4 * ci + 4].copy_from_slice(&cur);
            let mut iv = leaf_vals.clone();
            iv.push(idx);
            iv.extend(capv.iter());
            for s in &sibs {
                iv.extend(s.iter());
            }
            ivs.push(iv.clone());
            // the right digest in the WRONG cap entry: unsatisfied
            if (1 << cap_height) > 1 {
                let mut bad = iv.clone();
                let other = (ci + 1) % (1 << cap_height);
                for k in 0..4 {
                    bad.swap(leaf_len + 1 + 4 * ci + k, leaf_len + 1 + 4 * other + k);
                }
                ivs.push(bad);
            }
        }
        out.push((prog, ivs));
    }
    out
}

pub fn lookup_programs() -> Vec<Prog> {
    use Op::*;
    let mut out = Vec::new();
    let t_id: Vec<(u16, u16)> = (0..8).map(|i| (i, i)).collect();
    let t_sq: Vec<(u16, u16)> = (0..30).map(|i| (i, (i * i) % 251)).collect();
    let t_one: Vec<(u16, u16)> = vec![(65535, 7)];
    let mut p = Program::new("lookup_one", vec![Ty::B], vec![Lookup(0, 0)]);
    p.tables = vec![t_id.clone()];
    out.push(Prog { program: p, alph: vec![Some(vec![0, 1, 7, 8])] });
    let mut p = Program::new("lookup_two_tables", vec![Ty::B, Ty::B], vec![Lookup(0, 0), Lookup(1, 1), Lookup(2, 1), Add(2, 3)]);
    p.tables = vec![t_id.clone(), t_sq.clone()];
    out.push(Prog { program: p, alph: vec![Some(vec![0, 3, 7]), Some(vec![0, 1, 29, 30])] });
    let mut p = Program::new("lookup_single_entry_table", vec![Ty::B], vec![Lookup(0, 0), Lookup(0, 0)]);
    p.tables = vec![t_one];
    out.push(Prog { program: p, alph: vec![Some(vec![65535, 0])] });
    let mut p = Program::new("lookup_41_times", vec![Ty::B], (0..41).map(|_| Lookup(0, 0)).collect());
    p.tables = vec![t_sq.clone()];
    out.push(Prog { program: p, alph: vec![Some(vec![0, 29])] });
    // exact multiples of the LookupGate slot count (num_routed_wires / 2 = 40 at 80 routed wires, 12
    // at 25, 68 at 136): the last lookup row is completely full and needs no padding
    for n in [12usize, 24, 39, 40, 68, 80, 136] {
        let mut p = Program::new(&format!("lookup_{n}_times"), vec![Ty::B, Ty::B], (0..n).map(|i| Lookup(i % 2, 0)).collect());
        p.tables = vec![t_sq.clone()];
        out.push(Prog { program: p, alph: vec![Some(vec![5, 29]), Some(vec![0, 7])] });
    }
    // and a second table after a full row
    let mut p = Program::new("lookup_40_then_other_table", vec![Ty::B], {
        let mut ops: Vec<Op> = (0..40).map(|_| Lookup(0, 0)).collect();
        ops.push(Lookup(0, 1));
        ops
    });
    p.tables = vec![t_sq, t_id];
    out.push(Prog { program: p, alph: vec![Some(vec![0, 7])] });
    out
}

fn outcome_class(kind: &str, name: &str) -> String {
    let op = name.split(|c| c == '[' || c == '>').next().unwrap_or(name);
    let op: String = op.trim_end_matches(|c: char| c.is_ascii_digit() || c == '_').to_string();
    format!("{kind}:{op}")
}

/// Witness-level check of one (program, input): generation Ok, public inputs = reference, sat.
fn witness_level<Cfg: GenericConfig<D, F = F>>(
    built: &Built<Cfg>,
    sc: &SatCtx,
    prog: &Program,
    iv: &[u64],
    expect: &Option<Vec<u64>>,
) -> Result<String, String> {
    let w = gen_witness(&built.data, inputs_pw(built, iv));
    match (expect, w) {
        (Some(exp), Ok(w)) => {
            let pis: Vec<u64> = public_inputs_of(&built.data, &w).iter().map(|x| cu(*x)).collect();
            if &pis != exp {
                return Err(format!("public inputs {:?} != direct evaluation {:?}", pis, exp));
            }
            let pis_f: Vec<F> = pis.iter().map(|x| fe(*x)).collect();
            if prog.tables.is_empty() {
                sat(&built.data, sc, &w.values, &pis_f).map_err(|e| format!("honest witness violates the circuit: {e}"))?;
            }
            Ok(outcome_class("sat", &prog.name))
        }
        (Some(_), Err(e)) => Err(format!("witness generation failed on a satisfying input: {e}")),
        (None, Ok(w)) => {
            // unsatisfying input for which the generators still produced an assignment: it must not
            // satisfy the circuit (otherwise the gadget under-constrains). Decided exactly by `sat`.
            let pis: Vec<F> = public_inputs_of(&built.data, &w);
            if prog.tables.is_empty() && sat(&built.data, sc, &w.values, &pis).is_ok() {
                return Err("input violates the program's assertions yet the generated witness satisfies the circuit".into());
            }
            Ok(outcome_class("unsat-witness-rejected-by-circuit", &prog.name))
        }
        (None, Err(_)) => Ok(outcome_class("unsat-no-witness", &prog.name)),
    }
}

/// Proof-level check: prove, verify (circuit data and verifier data), compressed round trip.
pub fn proof_level<Cfg: GenericConfig<D, F = F>>(built: &Built<Cfg>, iv: &[u64], exp: &[u64], seed: u64) -> Result<String, String> {
    plonky2_field::verif_hooks::set_seed(Some(seed));
    let r = guarded(|| built.data.prove(inputs_pw(built, iv)));
    plonky2_field::verif_hooks::set_seed(None);
    let proof = match r {
        Err(p) => return Err(format!("prove panicked: {p}")),
        Ok(Err(e)) => return Err(format!("prove failed: {e}")),
        Ok(Ok(p)) => p,
    };
    let pis: Vec<u64> = proof.public_inputs.iter().map(|x| cu(*x)).collect();
    if pis != exp {
        return Err(format!("proof public inputs {:?} != direct evaluation {:?}", pis, exp));
    }
    match guarded(|| built.data.verify(proof.clone())) {
        Err(p) => return Err(format!("verify panicked: {p}")),
        Ok(Err(e)) => return Err(format!("verify rejected an honest proof: {e}")),
        Ok(Ok(())) => {}
    }
    let vd = built.data.verifier_data();
    match guarded(|| vd.verify(proof.clone())) {
        Ok(Ok(())) => {}
        other => return Err(format!("verifier_data().verify rejected an honest proof: {:?}", other.map(|r| r.map_err(|e| e.to_string())))),
    }
    let comp = guarded(|| proof.clone().compress(&built.data.verifier_only.circuit_digest, &built.data.common));
    match comp {
        Ok(Ok(cp)) => match guarded(|| built.data.verify_compressed(cp.clone())) {
            Ok(Ok(())) => {}
            other => return Err(format!("verify_compressed rejected an honest proof: {:?}", other.map(|r| r.map_err(|e| e.to_string())))),
        },
        other => return Err(format!("compress failed: {:?}", other.map(|r| r.map(|_| ()).map_err(|e| e.to_string())))),
    }
    Ok("proved".into())
}

fn run_prog<Cfg: GenericConfig<D, F = F>>(ctx: &Ctx, pr: &Prog, cfg: &CircuitConfig, cfg_name: &str, ivs: &[Vec<u64>], proofs: usize) {
    let prog = &pr.program;
    let tag = format!("{}@{}", prog.name, cfg_name);
    if ctx.replaying() && !ctx.filter.as_deref().map(|f| f.starts_with(&tag)).unwrap_or(false) {
        return;
    }
    let built = match guarded(|| build_program::<Cfg>(prog, cfg)) {
        Ok(b) => b,
        Err(p) => {
            // documented admissibility asserts of the builder are classified, anything else is a violation
            // (both are explicit asserts on the relation between the circuit's degree and the FRI schedule)
            if p.contains("FRI total reduction arity is too large") || p.contains("degree_bits >= arity_bits") {
                ctx.class(format!("inadmissible:fri-arity:{cfg_name}"));
                ctx.count("inadmissible_config_for_circuit", 1);
                return;
            }
            ctx.case("build", &format!("{tag} build"), || Err(format!("circuit build panicked: {p}")));
            return;
        }
    };
    let sc = sat_prepare(&built.data);
    if !sc.static_issues.is_empty() {
        ctx.case("static:sigma-or-selectors", &format!("{tag} static"), || Err(sc.static_issues.join("; ")));
    }
    ctx.count("circuits_built", 1);
    let mut sat_inputs: Vec<(Vec<u64>, Vec<u64>)> = Vec::new();
    for iv in ivs {
        let expect = prog.eval(iv);
        let case = format!("{tag} input={:?}", iv);
        ctx.case(&format!("witness:{}", outcome_class("", &prog.name)), &case, || witness_level(&built, &sc, prog, iv, &expect));
        ctx.transition(1);
        if let Some(e) = expect {
            sat_inputs.push((iv.clone(), e));
        }
    }
    ctx.count("satisfying_inputs", sat_inputs.len() as u64);
    ctx.count("unsatisfying_inputs", (ivs.len() - sat_inputs.len()) as u64);
    // proof level: first, last, middle satisfying input (up to `proofs`)
    let mut picks: Vec<usize> = vec![];
    if !sat_inputs.is_empty() && proofs >= 1 {
        picks.push(0);
        if proofs >= 2 {
            picks.push(sat_inputs.len() - 1);
        }
        if proofs >= 3 {
            picks.push(sat_inputs.len() / 2);
        }
        picks.dedup();
    }
    for (n, pi) in picks.iter().enumerate() {
        let (iv, exp) = &sat_inputs[*pi];
        let case = format!("{tag} prove input={:?}", iv);
        ctx.case(&format!("proof:{}", outcome_class("", &prog.name)), &case, || {
            proof_level(&built, iv, exp, ctx.seed.wrapping_add(n as u64 + 1)).map(|c| format!("{c}:{cfg_name}"))
        });
        ctx.count("proofs", 1);
    }
}

pub fn run(ctx: &Ctx) -> i32 {
    let thorough = ctx.tier.thorough();
    let std_cfg = cfg_small(2, 1);
    // 1. depth-1 programs, every input vector at witness level, 2-3 proofs each
    let d1 = depth1_programs();
    ctx.sample(json!({"depth1_programs": d1.len(), "first": d1.iter().take(3).map(|p| &p.program).collect::<Vec<_>>() }));
    par_for(d1.len(), |i| {
        let pr = &d1[i];
        let ivs = input_vectors(&pr.program.inputs, &pr.alph);
        run_prog::<PC>(ctx, pr, &std_cfg, "std", &ivs, if thorough { 3 } else { 2 });
    });
    // 1b. the bit / limb decomposition family again under narrow rows (25 and 37 routed wires: a
    //     BaseSumGate then holds 24 / 36 limbs, so 32- / 63- / 64-bit splits and range checks span
    //     several gates) and under wide rows
    {
        let names = ["range_check", "low_bits", "split_low_high", "split_le", "split_then_le_sum", "exp_bits", "exp_gate", "le_sum", "random_access", "reduce_", "hash_no_pad_9", "permute["];
        let sel: Vec<usize> = (0..d1.len()).filter(|i| names.iter().any(|n| d1[*i].program.name.starts_with(n))).collect();
        let mut cfgs: Vec<(String, CircuitConfig)> = config_lattice(2).into_iter().filter(|(n, _)| n == "routed25" || n == "wires234_routed136").collect();
        let mut narrow = std_cfg.clone();
        narrow.num_routed_wires = 37;
        cfgs.push(("routed37".into(), narrow));
        // single-gate gadgets whose documented capacity is bounded by the routed wires (le_sum /
        // split_le_base: START_LIMBS + limbs <= routed; exp_from_bits: bits <= routed - 2;
        // random_access: list length <= what one RandomAccessGate row holds) are inadmissible on
        // narrow rows beyond that capacity
        let too_wide_for_narrow = ["exp_bits_40", "split_le_base2_63", "split_le_base3_40", "split_le_base4_31", "random_access_64", "split_then_le_sum_40", "split_then_le_sum_63"];
        let pairs: Vec<(usize, usize)> = sel
            .iter()
            .flat_map(|p| (0..cfgs.len()).map(move |c| (*p, c)))
            .filter(|(p, c)| !(cfgs[*c].1.num_routed_wires < 80 && too_wide_for_narrow.iter().any(|n| d1[*p].program.name.starts_with(n))))
            .collect();
        par_for(pairs.len(), |k| {
            let (pi, ci) = pairs[k];
            let pr = &d1[pi];
            let ivs = input_vectors(&pr.program.inputs, &pr.alph);
            run_prog::<PC>(ctx, pr, &cfgs[ci].1, &cfgs[ci].0, &ivs, 1);
        });
    }
    // 2. catalogue and lookups under the whole single-deviation configuration lattice
    let mut cat = catalogue();
    cat.extend(lookup_programs());
    let lattice = config_lattice(2);
    ctx.sample(json!({"catalogue": cat.iter().map(|p| p.program.name.clone()).collect::<Vec<_>>(), "lattice": lattice.iter().map(|(n, _)| n.clone()).collect::<Vec<_>>() }));
    let pairs: Vec<(usize, usize)> = (0..cat.len()).flat_map(|p| (0..lattice.len()).map(move |c| (p, c))).collect();
    par_for(pairs.len(), |k| {
        let (pi, ci) = pairs[k];
        let pr = &cat[pi];
        let (cname, cfg) = &lattice[ci];
        let mut ivs = input_vectors(&pr.program.inputs, &pr.alph);
        if !thorough && ivs.len() > 12 {
            let step = ivs.len() / 12 + 1;
            ivs = ivs.into_iter().step_by(step).collect();
        }
        run_prog::<PC>(ctx, pr, cfg, cname, &ivs, if thorough { 3 } else { 1 });
    });
    // 3. Keccak commitments (only the config differs; gadget hashing stays Poseidon)
    par_for(cat.len(), |pi| {
        let pr = &cat[pi];
        let ivs: Vec<Vec<u64>> = input_vectors(&pr.program.inputs, &pr.alph).into_iter().take(if thorough { 64 } else { 6 }).collect();
        run_prog::<KC>(ctx, pr, &std_cfg, "keccak", &ivs, 2);
    });
    // 4. Merkle membership
    let mc = merkle_cases();
    par_for(mc.len(), |i| {
        let (prog, ivs) = &mc[i];
        let pr = Prog { program: prog.clone(), alph: vec![] };
        run_prog::<PC>(ctx, &pr, &std_cfg, "std", ivs, 2);
    });
    // 5. pairs of configuration deviations (thorough) on three catalogue programs
    if thorough {
        let names: Vec<String> = lattice.iter().map(|(n, _)| n.clone()).collect();
        let mut combos: Vec<(String, CircuitConfig)> = Vec::new();
        for i in 1..lattice.len() {
            for j in (i + 1)..lattice.len() {
                // combine by applying j's differences from std onto i
                let (a, b, s) = (&lattice[i].1, &lattice[j].1, &lattice[0].1);
                let mut c = a.clone();
                if b.zero_knowledge != s.zero_knowledge { c.zero_knowledge = b.zero_knowledge; }
                if b.fri_config.rate_bits != s.fri_config.rate_bits { c.fri_config.rate_bits = b.fri_config.rate_bits; }
                if b.fri_config.cap_height != s.fri_config.cap_height { c.fri_config.cap_height = b.fri_config.cap_height; }
                if b.fri_config.num_query_rounds != s.fri_config.num_query_rounds { c.fri_config.num_query_rounds = b.fri_config.num_query_rounds; }
                if b.fri_config.proof_of_work_bits != s.fri_config.proof_of_work_bits { c.fri_config.proof_of_work_bits = b.fri_config.proof_of_work_bits; }
                if b.fri_config.reduction_strategy != s.fri_config.reduction_strategy { c.fri_config.reduction_strategy = b.fri_config.reduction_strategy.clone(); }
                if b.num_challenges != s.num_challenges { c.num_challenges = b.num_challenges; }
                if b.max_quotient_degree_factor != s.max_quotient_degree_factor { c.max_quotient_degree_factor = b.max_quotient_degree_factor; }
                if b.num_routed_wires != s.num_routed_wires { c.num_routed_wires = b.num_routed_wires; c.num_wires = c.num_wires.max(b.num_wires); }
                if b.num_wires != s.num_wires { c.num_wires = b.num_wires; }
                if b.use_base_arithmetic_gate != s.use_base_arithmetic_gate { c.use_base_arithmetic_gate = b.use_base_arithmetic_gate; }
                if b.num_constants != s.num_constants { c.num_constants = b.num_constants; }
                fix_security(&mut c);
                if c == *a || c == *b { continue; }
                if !admissible(&c) { continue; }
                combos.push((format!("{}+{}", names[i], names[j]), c));
            }
        }
        ctx.count("config_pairs", combos.len() as u64);
        let sel = [0usize, 3, 5];
        let pairs: Vec<(usize, usize)> = sel.iter().flat_map(|p| (0..combos.len()).map(move |c| (*p, c))).collect();
        par_for(pairs.len(), |k| {
            let (pi, ci) = pairs[k];
            let pr = &cat[pi];
            let (cname, cfg) = &combos[ci];
            let ivs: Vec<Vec<u64>> = input_vectors(&pr.program.inputs, &pr.alph).into_iter().take(3).collect();
            run_prog::<PC>(ctx, pr, cfg, cname, &ivs, 1);
        });
    }
    // 6. depth-2 chains: witness level on every input vector (quick: at most 24 per chain, strided;
    //    thorough: at most 200) + one proof each in the thorough tier
    {
        let d2 = depth2_programs();
        ctx.count("depth2_programs", d2.len() as u64);
        let cap = if thorough { 200 } else { 24 };
        par_for(d2.len(), |i| {
            let pr = &d2[i];
            let mut ivs = input_vectors(&pr.program.inputs, &pr.alph);
            if ivs.len() > cap {
                let step = ivs.len() / cap + 1;
                ivs = ivs.into_iter().step_by(step).collect();
                ctx.count("depth2_input_sets_strided", 1);
            }
            run_prog::<PC>(ctx, pr, &std_cfg, "std", &ivs, if thorough { 1 } else { 0 });
        });
    }
    ctx.state(ctx.counter("circuits_built"));
    ctx.finish(Finish {
        level: "exploration",
        rule: "programs = every depth-1 gadget program (template x operand binding), catalogue compositions, lookup and Merkle programs all depth-2 chains (thorough adds pairs of config deviations); inputs = full product of per-argument boundary alphabets for <=2 arguments, else base vector with <=2 coordinates varied; every (program, input) is run through real witness generation and compared with direct evaluation over the field and with the exact satisfaction oracle; the first/last(/middle) satisfying input of every program and every (catalogue program x single-axis configuration deviation) goes through prove + verify + verifier_data().verify + compress + verify_compressed. A case is non-trivial-distinct by (outcome kind, gadget family[, configuration]).",
        exhaustive: true,
        assumptions: vec![
            "programs deeper than the bound, inputs outside the boundary alphabets and configurations beyond two simultaneous deviations are not covered".into(),
            "direct evaluation uses harness u128 arithmetic and the textbook Poseidon of c13.rs".into(),
            "depth-2 chains: input sets larger than 200 (thorough) / 24 (quick) vectors are strided (counter depth2_input_sets_strided), proofs for them only in the thorough tier; the quick tier strides catalogue x lattice inputs to 12 vectors".into(),
        ],
        extra: json!({}),
    })
}

/// Preconditions the code itself asserts (DESIGN §3.4); inadmissible combinations are skipped.
pub fn admissible(c: &CircuitConfig) -> bool {
    let rate = c.fri_config.rate_bits;
    if (1usize << rate) < c.max_quotient_degree_factor {
        return false;
    }
    if c.max_quotient_degree_factor >= c.num_routed_wires {
        return false;
    }
    if c.num_routed_wires > c.num_wires {
        return false;
    }
    // Zero-knowledge blinding must fit: every query reveals D * final_poly_len values of each
    // polynomial, and the builder needs num_gates + 3 * fri_openings + O(1) <= degree. With a Fixed
    // schedule of total arity bits t the final polynomial has degree / 2^t coefficients, so for
    // 3 * q * D >= 2^t no degree ever suffices (the builder then doubles its estimate until it
    // overflows and panics in log2_strict(0) -- an obscure failure mode, but the configuration is
    // genuinely not realisable, so it is classified inadmissible rather than reported under C01).
    if c.zero_knowledge {
        if let FriReductionStrategy::Fixed(v) = &c.fri_config.reduction_strategy {
            let t: usize = v.iter().sum();
            if 3 * c.fri_config.num_query_rounds * D >= (1usize << t) {
                return false;
            }
        }
    }
    true
}
