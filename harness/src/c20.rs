//! C20 — conditional and cyclic recursion enforce exactly the selected verification.
//!
//! Conditional part (fault enumeration, differential oracle as in C06): one outer circuit
//! `conditionally_verify_proof(cond, pA, vdA, pB, vdB)` built once over two inner circuits with equal
//! common data; cases = cond in {0, 1, 2} x validity of each branch (valid, one tamper per element
//! kind, wrong verifier data, false statement) in a full square, plus EVERY leaf of the selected and
//! of the unselected proof tampered. Oracle: C <=> cond in {0,1} AND native verify(selected proof,
//! selected verifier data), irrespective of the other branch. Also the `_or_dummy` variant and native
//! validity of dummy proofs for a catalogue of circuit shapes.
//! Cyclic part (explicit-state exploration of histories): the hash-chain circuit with a small FRI
//! configuration; BFS over event sequences {base, step, fork, restart} up to a depth; in every
//! fault-free state the proof verifies, carries the circuit's own verifier data, has counter = steps
//! and tip = reference Poseidon iterate; every fault (altered verifier-data / counter / hash public
//! inputs of the previous proof, proof of another cyclic circuit) yields an unsatisfied assignment,
//! and check_cyclic_proof_verifier_data rejects every single-element alteration.

use std::collections::{BTreeMap, BTreeSet};

use plonky2::gates::noop::NoopGate;
use plonky2::hash::hash_types::HashOutTarget;
use plonky2::hash::poseidon::PoseidonHash;
use plonky2::iop::generator::generate_partial_witness;
use plonky2::iop::target::{BoolTarget, Target};
use plonky2::iop::witness::{PartialWitness, WitnessWrite};
use plonky2::plonk::circuit_builder::CircuitBuilder;
use plonky2::plonk::circuit_data::{CircuitConfig, CircuitData, CommonCircuitData, VerifierCircuitData, VerifierCircuitTarget, VerifierOnlyCircuitData};
use plonky2::plonk::proof::{ProofWithPublicInputs, ProofWithPublicInputsTarget};
use plonky2::recursion::cyclic_recursion::check_cyclic_proof_verifier_data;
use plonky2::recursion::dummy_circuit::{cyclic_base_proof, dummy_circuit, dummy_proof};
use serde_json::{json, Value};

use crate::c02::{make_subject, prove_case, Corr, Strat, Subject};
use crate::core::*;
use crate::plonkm::*;
use crate::recm::*;
use crate::tamper::*;

type Proof = ProofWithPublicInputs<F, PC, D>;
type VO = VerifierOnlyCircuitData<PC, D>;

fn native(common: &CommonCircuitData<F, D>, vo: &VO, p: &Proof) -> bool {
    let vd = VerifierCircuitData { verifier_only: vo.clone(), common: common.clone() };
    matches!(guarded(|| vd.verify(p.clone())), Ok(Ok(())))
}

/// witness generation + exact satisfaction oracle
fn accepts(data: &CircuitData<F, PC, D>, sc: &SatCtx, pw: PartialWitness<F>) -> Result<Vec<F>, String> {
    let r = guarded(|| generate_partial_witness(pw, &data.prover_only, &data.common));
    let w = match r {
        Err(p) => return Err(format!("witgen-panic: {}", truncate(&p, 60))),
        Ok(Err(e)) => return Err(format!("witgen-err: {}", truncate(&e.to_string(), 60))),
        Ok(Ok(w)) => w,
    };
    let n = data.prover_only.representative_map.len();
    let values: Vec<F> = (0..n).map(|i| w.values[data.prover_only.representative_map[i]].unwrap_or(plonky2::field::types::Field::ZERO)).collect();
    let nw = data.common.config.num_wires;
    let degree = data.common.degree();
    let pis: Vec<F> = data.prover_only.public_inputs.iter().map(|t| values[t.index(nw, degree)]).collect();
    sat(data, sc, &values, &pis).map_err(|e| format!("unsat: {}", truncate(&e, 60)))?;
    Ok(values)
}

fn reason(e: &str) -> String {
    e.split(':').next().unwrap_or("").to_string()
}

// ------------------------------------------------------------------------------------------------
// conditional

struct Cond {
    data: CircuitData<F, PC, D>,
    sc: SatCtx,
    cond: Target,
    pa: ProofWithPublicInputsTarget<D>,
    va: VerifierCircuitTarget,
    pb: ProofWithPublicInputsTarget<D>,
    vb: VerifierCircuitTarget,
}

#[derive(Clone)]
struct Variant {
    name: String,
    proof: Proof,
    vo: VO,
    valid: bool,
}

fn inner_programs() -> (Program, Program, Vec<Vec<u64>>) {
    use Op::*;
    let mk = |k: u64| Program::new(&format!("inner_k{k}"), vec![Ty::B, Ty::B], vec![MulAdd(0, 1, 0), AddConst(2, k), RangeCheck(1, 8), MulConst(k, 3)]);
    (mk(5), mk(7), vec![vec![3, 200], vec![P - 1, 1]])
}

/// Second family: inner circuits that use lookup tables (the selected opening set then has non-empty
/// `lookup_zs` / `next_lookup_zs`, and the proof carries the lookup polynomials); same tables in both
/// circuits so that the common data agree, a different constant so that the circuit digests differ.
fn inner_programs_lookup() -> (Program, Program, Vec<Vec<u64>>) {
    use Op::*;
    let mk = |k: u64| {
        let mut p = Program::new(&format!("inner_lut_k{k}"), vec![Ty::B, Ty::B], vec![Lookup(0, 0), Lookup(1, 1), Lookup(2, 1), Add(2, 3), AddConst(4, k), Lookup(0, 0)]);
        p.tables = vec![(0..8).map(|i| (i, (i + 3) % 8)).collect(), (0..30).map(|i| (i, (i * i) % 251)).collect()];
        p
    };
    (mk(5), mk(7), vec![vec![2, 5], vec![7, 29]])
}

fn variants(ctx: &Ctx, s: &Subject, other_vo: &VO, all_leaves: bool) -> Vec<Variant> {
    let common = &s.built.data.common;
    let vo = s.built.data.verifier_only.clone();
    let mut out = Vec::new();
    let honest = match guarded(|| s.built.data.prove(inputs_pw(&s.built, &s.bases[0].0))) {
        Ok(Ok(p)) => p,
        _ => {
            ctx.machinery_error(format!("{}: honest inner proof failed", s.name));
            return out;
        }
    };
    out.push(Variant { name: "valid".into(), proof: honest.clone(), vo: vo.clone(), valid: true });
    if let Ok(Ok(p2)) = guarded(|| s.built.data.prove(inputs_pw(&s.built, &s.bases[1].0))) {
        out.push(Variant { name: "valid-other-input".into(), proof: p2, vo: vo.clone(), valid: true });
    }
    let j = serde_json::to_value(&honest).unwrap();
    let sh = shape(&j);
    let mut seen_kinds = BTreeSet::new();
    for path in &sh.leaves {
        let kind = path_kind(path);
        if !all_leaves && !seen_kinds.insert(kind.clone()) {
            continue;
        }
        let Some((t, changed)) = mutate_leaf(&j, path, LeafMut::Add1) else { continue };
        if !changed {
            continue;
        }
        let Ok(p) = serde_json::from_value::<Proof>(t) else { continue };
        let valid = native(common, &vo, &p);
        out.push(Variant { name: format!("tamper{}", if all_leaves { path_str(path) } else { kind }), proof: p, vo: vo.clone(), valid });
    }
    if !all_leaves {
        out.push(Variant { name: "wrong-verifier-data".into(), proof: honest.clone(), vo: other_vo.clone(), valid: native(common, other_vo, &honest) });
        for (corr, st, nm) in [(Corr::None, Strat::S2(0), "false-statement-zero-accumulator"), (Corr::None, Strat::S4(0), "false-statement-quotient"), (Corr::Cell(0, 0), Strat::S0, "false-statement-cell0")] {
            if let Ok(p) = prove_case(s, &s.bases[0].1, &corr, st, 77) {
                let valid = native(common, &vo, &p);
                out.push(Variant { name: nm.into(), proof: p, vo: vo.clone(), valid });
            }
        }
    }
    out
}

fn cond_pw(c: &Cond, cv: u64, a: &Variant, b: &Variant) -> Result<PartialWitness<F>, String> {
    let r = guarded(|| {
        let mut pw = PartialWitness::new();
        pw.set_target(c.cond, fe(cv))?;
        pw.set_proof_with_pis_target(&c.pa, &a.proof)?;
        pw.set_verifier_data_target(&c.va, &a.vo)?;
        pw.set_proof_with_pis_target(&c.pb, &b.proof)?;
        pw.set_verifier_data_target(&c.vb, &b.vo)?;
        Ok::<_, anyhow::Error>(pw)
    });
    match r {
        Ok(Ok(pw)) => Ok(pw),
        Ok(Err(e)) => Err(format!("assign-err: {e}")),
        Err(p) => Err(format!("assign-panic: {p}")),
    }
}

fn cond_case(c: &Cond, cv: u64, a: &Variant, b: &Variant) -> Result<String, String> {
    let expect = match cv {
        1 => a.valid,
        0 => b.valid,
        _ => false,
    };
    let got = cond_pw(c, cv, a, b).and_then(|pw| accepts(&c.data, &c.sc, pw));
    match (expect, &got) {
        (true, Ok(_)) => Ok(format!("cond{cv}:selected-valid:accepted")),
        (false, Err(e)) => Ok(format!("cond{cv}:selected-invalid:rejected:{}", reason(e))),
        (true, Err(e)) => Err(format!("selected proof is valid (cond={cv}, A={}, B={}) but the circuit rejects: {e}", a.name, b.name)),
        (false, Ok(_)) => Err(format!("selected proof is INVALID or cond non-boolean (cond={cv}, A={}, B={}) but the derived assignment satisfies the circuit", a.name, b.name)),
    }
}

fn conditional(ctx: &Ctx, thorough: bool) {
    let (pa, pb, ivs) = inner_programs();
    conditional_family(ctx, thorough, "", &pa, &pb, &ivs);
    let (pa, pb, ivs) = inner_programs_lookup();
    conditional_family(ctx, thorough, ":lookups", &pa, &pb, &ivs);
}

fn conditional_family(ctx: &Ctx, thorough: bool, fam: &str, pa: &Program, pb: &Program, ivs: &[Vec<u64>]) {
    let lookups = !fam.is_empty();
    let (pa, pb, ivs) = (pa.clone(), pb.clone(), ivs.to_vec());
    let cfg = rec_config(2, 2, 1, 1, 2);
    let (Some(sa), Some(sb)) = (make_subject(ctx, &pa, &ivs, "condA", &cfg, 2), make_subject(ctx, &pb, &ivs, "condB", &cfg, 2)) else { return };
    if sa.built.data.common != sb.built.data.common {
        ctx.machinery_error(format!("the two inner circuits{fam} do not share their common data"));
        return;
    }
    if sa.built.data.verifier_only.circuit_digest == sb.built.data.verifier_only.circuit_digest {
        ctx.machinery_error("the two inner circuits are identical");
        return;
    }
    let common = sa.built.data.common.clone();
    let outer_cfg = rec_config(2, 4, 5, 4, 1);
    let built = guarded(|| {
        let mut builder = CircuitBuilder::<F, D>::new(outer_cfg.clone());
        let cond = builder.add_virtual_bool_target_safe();
        let pta = builder.add_virtual_proof_with_pis(&common);
        let vta = builder.add_virtual_verifier_data(common.config.fri_config.cap_height);
        let ptb = builder.add_virtual_proof_with_pis(&common);
        let vtb = builder.add_virtual_verifier_data(common.config.fri_config.cap_height);
        builder.conditionally_verify_proof::<PC>(cond, &pta, &vta, &ptb, &vtb, &common);
        builder.register_public_input(cond.target);
        let data = builder.build::<PC>();
        (data, cond.target, pta, vta, ptb, vtb)
    });
    let Ok((data, cond, pta, vta, ptb, vtb)) = built else {
        ctx.machinery_error(format!("conditional outer circuit{fam} does not build"));
        return;
    };
    let sc = sat_prepare(&data);
    let c = Cond { data, sc, cond, pa: pta, va: vta, pb: ptb, vb: vtb };
    ctx.state(1);
    let va = variants(ctx, &sa, &sb.built.data.verifier_only, false);
    let vb = variants(ctx, &sb, &sa.built.data.verifier_only, false);
    ctx.sample(json!({"conditional_branch_variants": va.iter().map(|v| format!("{} (natively {})", v.name, if v.valid { "valid" } else { "invalid" })).collect::<Vec<_>>() }));
    // full square x cond
    let mut cases: Vec<(u64, usize, usize)> = Vec::new();
    for cv in [0u64, 1, 2] {
        for i in 0..va.len() {
            for j in 0..vb.len() {
                if cv == 2 && (i > 1 || j > 1) {
                    continue;
                }
                // lookup family: the cross (every variant against a valid partner) instead of the full square
                if lookups && !thorough && i > 1 && j > 1 {
                    continue;
                }
                cases.push((cv, i, j));
            }
        }
    }
    par_for_chunk(cases.len(), 4, |k| {
        let (cv, i, j) = cases[k];
        let case = format!("conditional{fam} cond={cv} A={} B={}", va[i].name, vb[j].name);
        ctx.case(&format!("conditional-square{fam}"), &case, || {
            ctx.transition(1);
            cond_case(&c, cv, &va[i], &vb[j])
        });
    });
    // every leaf of the selected / of the unselected proof
    let all_a = variants(ctx, &sa, &sb.built.data.verifier_only, true);
    let step = if thorough { 1 } else if lookups { 6 } else { 2 };
    let idx: Vec<usize> = (2..all_a.len()).step_by(step).collect();
    par_for_chunk(idx.len(), 4, |k| {
        let v = &all_a[idx[k]];
        for cv in [1u64, 0] {
            let case = format!("conditional{fam} all-leaves cond={cv} A={} B=valid", v.name);
            ctx.case(&format!("{}{fam}", if cv == 1 { "conditional-selected-leaf" } else { "conditional-unselected-leaf" }), &case, || {
                ctx.transition(1);
                cond_case(&c, cv, v, &vb[0]).map(|cl| format!("{}:{}", if cv == 1 { "selected" } else { "unselected" }, cl))
            });
        }
    });
    // verifier data selected by index out of a constant list (`random_access_verifier_data` over
    // `constant_verifier_data`), then one verification: accepted <=> the proof is valid for list[index]
    for (ltag, list) in [("AB", vec![0usize, 1]), ("ABBA", vec![0, 1, 1, 0])] {
        let vos = [&sa.built.data.verifier_only, &sb.built.data.verifier_only];
        let built = guarded(|| {
            let mut builder = CircuitBuilder::<F, D>::new(outer_cfg.clone());
            let idx = builder.add_virtual_target();
            let pt = builder.add_virtual_proof_with_pis(&common);
            let vds: Vec<VerifierCircuitTarget> = list.iter().map(|&k| builder.constant_verifier_data::<PC>(vos[k])).collect();
            let vd = builder.random_access_verifier_data(idx, vds);
            builder.verify_proof::<PC>(&pt, &vd, &common);
            builder.register_public_input(idx);
            let data = builder.build::<PC>();
            (data, idx, pt)
        });
        let Ok((data, idx, pt)) = built else {
            ctx.machinery_error(format!("indexed-verifier-data outer circuit{fam} ({ltag}) does not build"));
            continue;
        };
        let sc = sat_prepare(&data);
        ctx.state(1);
        let mut cases: Vec<(u64, bool, usize)> = Vec::new(); // index, proof from B?, variant
        for i in 0..=list.len() as u64 {
            for (from_b, vs) in [(false, &va), (true, &vb)] {
                for v in 0..vs.len().min(if thorough { vs.len() } else { 6 }) {
                    cases.push((i, from_b, v));
                }
            }
        }
        par_for_chunk(cases.len(), 4, |k| {
            let (i, from_b, vi) = cases[k];
            let v = if from_b { &vb[vi] } else { &va[vi] };
            let case = format!("indexed-vd{fam} list={ltag} index={i} proof={}{}", if from_b { "B:" } else { "A:" }, v.name);
            ctx.case(&format!("indexed-verifier-data{fam}"), &case, || {
                ctx.transition(1);
                let expect = (i as usize) < list.len() && native(&common, vos[list[i as usize]], &v.proof);
                let pw = guarded(|| {
                    let mut pw = PartialWitness::new();
                    pw.set_target(idx, fe(i))?;
                    pw.set_proof_with_pis_target(&pt, &v.proof)?;
                    Ok::<_, anyhow::Error>(pw)
                });
                let got = match pw {
                    Ok(Ok(pw)) => accepts(&data, &sc, pw),
                    _ => Err("assign".to_string()),
                };
                match (expect, &got) {
                    (true, Ok(_)) => Ok("indexed-vd:accepted".into()),
                    (false, Err(e)) => Ok(format!("indexed-vd:rejected:{}", reason(e))),
                    (true, Err(e)) => Err(format!("the proof is valid for list[{i}] but the circuit rejects: {e}")),
                    (false, Ok(_)) => Err(format!("the proof is NOT valid for list[{i}] (or the index is out of range) but the derived assignment satisfies the circuit")),
                }
            });
        });
    }
    // _or_dummy variant (dummy circuits cannot be built for shapes with lookup tables: plain family only)
    if lookups {
        return;
    }
    let built = guarded(|| {
        let mut builder = CircuitBuilder::<F, D>::new(outer_cfg.clone());
        let cond = builder.add_virtual_bool_target_safe();
        let pt = builder.add_virtual_proof_with_pis(&common);
        let vt = builder.add_virtual_verifier_data(common.config.fri_config.cap_height);
        builder.conditionally_verify_proof_or_dummy::<PC>(cond, &pt, &vt, &common).expect("or_dummy");
        let data = builder.build::<PC>();
        (data, cond.target, pt, vt)
    });
    match built {
        Err(p) => ctx.violation(
            "or-dummy:circuit-build",
            "or-dummy build inner-cap=1 outer-cap=4",
            format!("conditionally_verify_proof_or_dummy cannot be built for an inner circuit whose cap height differs from the outer circuit's: {p}"),
        ),
        Ok((data, cond, pt, vt)) => {
            let sc = sat_prepare(&data);
            ctx.state(1);
            let cases: Vec<(u64, usize)> = [1u64, 0, 2].into_iter().flat_map(|cv| (0..va.len()).map(move |i| (cv, i))).collect();
            par_for_chunk(cases.len(), 4, |k| {
                let (cv, i) = cases[k];
                let v = &va[i];
                let case = format!("or-dummy cond={cv} proof={}", v.name);
                ctx.case("conditional-or-dummy", &case, || {
                    let expect = match cv {
                        1 => v.valid,
                        0 => true, // the dummy branch is selected: whatever the other proof is
                        _ => false,
                    };
                    let pw = guarded(|| {
                        let mut pw = PartialWitness::new();
                        pw.set_target(cond, fe(cv))?;
                        pw.set_proof_with_pis_target(&pt, &v.proof)?;
                        pw.set_verifier_data_target(&vt, &v.vo)?;
                        Ok::<_, anyhow::Error>(pw)
                    });
                    let got = match pw {
                        Ok(Ok(pw)) => accepts(&data, &sc, pw),
                        _ => Err("assign".to_string()),
                    };
                    ctx.transition(1);
                    match (expect, &got) {
                        (true, Ok(_)) => Ok(format!("or-dummy:cond{cv}:accepted")),
                        (false, Err(e)) => Ok(format!("or-dummy:cond{cv}:rejected:{}", reason(e))),
                        (true, Err(e)) => Err(format!("expected acceptance (cond={cv}, proof {}) but rejected: {e}", v.name)),
                        (false, Ok(_)) => Err(format!("expected rejection (cond={cv}, proof {}) but the assignment satisfies the circuit", v.name)),
                    }
                });
            });
        }
    }
}

fn dummies(ctx: &Ctx, thorough: bool) {
    // dummy proofs for a catalogue of shapes: public-input counts x degree bits
    let mut shapes: Vec<(usize, usize)> = Vec::new();
    for npi in [0usize, 1, 8, 9, 17] {
        for bits in if thorough { vec![3usize, 4, 6, 8, 10, 12] } else { vec![3usize, 5, 8] } {
            shapes.push((npi, bits));
        }
    }
    par_for(shapes.len(), |k| {
        let (npi, bits) = shapes[k];
        let case = format!("dummy npi={npi} degree_bits={bits}");
        ctx.case("dummy-proof", &case, || {
            // a circuit of that shape
            let cfg = rec_config(2, 2, 1, 1, 1);
            let mut builder = CircuitBuilder::<F, D>::new(cfg);
            let mut acc = builder.one();
            for _ in 0..npi {
                let t = builder.add_virtual_public_input();
                acc = builder.mul(acc, t);
            }
            while builder.num_gates() < (1 << bits) - npi.div_ceil(8) - 3 {
                builder.add_gate(NoopGate, vec![]);
            }
            let data = builder.build::<PC>();
            let common = data.common.clone();
            let dc = match guarded(|| dummy_circuit::<F, PC, D>(&common)) {
                Ok(d) => d,
                Err(p) => return Ok(format!("dummy-circuit-unavailable:{}", truncate(&p, 30))),
            };
            let mut nz = hashbrown::HashMap::new();
            if npi > 0 {
                nz.insert(npi - 1, fe(P - 1));
            }
            let p = match guarded(|| dummy_proof::<F, PC, D>(&dc, nz)) {
                Ok(Ok(p)) => p,
                other => return Err(format!("dummy_proof failed: {:?}", other.map(|r| r.map(|_| ()).map_err(|e| e.to_string())))),
            };
            if npi > 0 && cu(p.public_inputs[npi - 1]) != P - 1 {
                return Err("dummy proof does not carry the requested public input".into());
            }
            match guarded(|| dc.verify(p.clone())) {
                Ok(Ok(())) => Ok("dummy:valid".into()),
                other => Err(format!("the dummy proof is not valid for its dummy circuit: {:?}", other.map(|r| r.map_err(|e| e.to_string())))),
            }
        });
    });
}

// ------------------------------------------------------------------------------------------------
// cyclic

pub struct Cyclic {
    pub data: CircuitData<F, PC, D>,
    pub sc: SatCtx,
    pub common: CommonCircuitData<F, D>,
    pub cond: BoolTarget,
    pub inner: ProofWithPublicInputsTarget<D>,
    pub vdt: VerifierCircuitTarget,
    pub step_const: u64,
}

fn cyclic_config() -> CircuitConfig {
    rec_config(2, 4, 5, 1, 1)
}

fn common_for_recursion(bits: usize) -> CommonCircuitData<F, D> {
    let config = cyclic_config();
    let builder = CircuitBuilder::<F, D>::new(config.clone());
    let data = builder.build::<PC>();
    let mut builder = CircuitBuilder::<F, D>::new(config.clone());
    let proof = builder.add_virtual_proof_with_pis(&data.common);
    let vd = builder.add_virtual_verifier_data(data.common.config.fri_config.cap_height);
    builder.verify_proof::<PC>(&proof, &vd, &data.common);
    let data = builder.build::<PC>();
    let mut builder = CircuitBuilder::<F, D>::new(config);
    let proof = builder.add_virtual_proof_with_pis(&data.common);
    let vd = builder.add_virtual_verifier_data(data.common.config.fri_config.cap_height);
    builder.verify_proof::<PC>(&proof, &vd, &data.common);
    while builder.num_gates() < 1 << bits {
        builder.add_gate(NoopGate, vec![]);
    }
    builder.build::<PC>().common
}

/// The hash-chain circuit of the repository's cyclic-recursion test; `step_const` is added to the
/// first hash input so that two different cyclic circuits with equal common data can be built.
fn build_cyclic(bits: usize, step_const: u64) -> Cyclic {
    let mut builder = CircuitBuilder::<F, D>::new(cyclic_config());
    let one = builder.one();
    let initial_hash_target = builder.add_virtual_hash();
    builder.register_public_inputs(&initial_hash_target.elements);
    let current_hash_in = builder.add_virtual_hash();
    let mut hin = current_hash_in.elements.to_vec();
    if step_const != 0 {
        hin[0] = builder.add_const(hin[0], fe(step_const));
    }
    let current_hash_out = builder.hash_n_to_hash_no_pad::<PoseidonHash>(hin);
    builder.register_public_inputs(&current_hash_out.elements);
    let counter = builder.add_virtual_public_input();
    let mut common = common_for_recursion(bits);
    let vdt = builder.add_verifier_data_public_inputs();
    common.num_public_inputs = builder.num_public_inputs();
    let cond = builder.add_virtual_bool_target_safe();
    let inner = builder.add_virtual_proof_with_pis(&common);
    let pis = &inner.public_inputs;
    let inner_initial = HashOutTarget::try_from(&pis[0..4]).unwrap();
    let inner_latest = HashOutTarget::try_from(&pis[4..8]).unwrap();
    let inner_counter = pis[8];
    builder.connect_hashes(initial_hash_target, inner_initial);
    let actual_in = HashOutTarget {
        elements: core::array::from_fn(|i| builder.select(cond, inner_latest.elements[i], initial_hash_target.elements[i])),
    };
    builder.connect_hashes(current_hash_in, actual_in);
    let new_counter = builder.mul_add(cond.target, inner_counter, one);
    builder.connect(counter, new_counter);
    builder.conditionally_verify_cyclic_proof_or_dummy::<PC>(cond, &inner, &common).expect("cyclic");
    let data = builder.build::<PC>();
    let sc = sat_prepare(&data);
    Cyclic { data, sc, common, cond, inner, vdt, step_const }
}

fn cyc_pw(c: &Cyclic, cond: bool, prev: &Proof, vo: &VO) -> Result<PartialWitness<F>, String> {
    let r = guarded(|| {
        let mut pw = PartialWitness::new();
        pw.set_bool_target(c.cond, cond)?;
        pw.set_proof_with_pis_target::<PC, D>(&c.inner, prev)?;
        pw.set_verifier_data_target(&c.vdt, vo)?;
        Ok::<_, anyhow::Error>(pw)
    });
    match r {
        Ok(Ok(pw)) => Ok(pw),
        Ok(Err(e)) => Err(format!("assign-err: {e}")),
        Err(p) => Err(format!("assign-panic: {p}")),
    }
}

fn ref_step(h: &[u64], k: u64) -> Vec<u64> {
    let mut v = h.to_vec();
    v[0] = addm(v[0], k);
    ref_hash_no_pad(&v, 4)
}

#[derive(Clone)]
struct State {
    hist: String,
    proof: Proof,
    counter: u64,
    initial: Vec<u64>,
    tip: Vec<u64>,
}

fn check_state(c: &Cyclic, st: &State) -> Result<(), String> {
    let vo = &c.data.verifier_only;
    match guarded(|| c.data.verify(st.proof.clone())) {
        Ok(Ok(())) => {}
        other => return Err(format!("proof of history {} does not verify: {:?}", st.hist, other.map(|r| r.map_err(|e| e.to_string())))),
    }
    check_cyclic_proof_verifier_data(&st.proof, vo, &c.data.common).map_err(|e| format!("check_cyclic_proof_verifier_data fails on a fault-free history {}: {e}", st.hist))?;
    let pis: Vec<u64> = st.proof.public_inputs.iter().map(|x| cu(*x)).collect();
    if pis[0..4] != st.initial[..] {
        return Err(format!("history {}: initial hash in the public inputs {:?} != {:?}", st.hist, &pis[0..4], st.initial));
    }
    if pis[4..8] != st.tip[..] {
        return Err(format!("history {}: tip {:?} != reference Poseidon iterate {:?}", st.hist, &pis[4..8], st.tip));
    }
    if pis[8] != st.counter {
        return Err(format!("history {}: counter {} != number of steps {}", st.hist, pis[8], st.counter));
    }
    // the embedded verifier data
    let cap_elems = c.data.common.config.fri_config.num_cap_elements();
    let start = pis.len() - 4 - 4 * cap_elems;
    let dig: Vec<u64> = vo.circuit_digest.elements.iter().map(|x| cu(*x)).collect();
    if pis[start..start + 4] != dig[..] {
        return Err(format!("history {}: embedded digest differs from the circuit's digest", st.hist));
    }
    for i in 0..cap_elems {
        let e: Vec<u64> = vo.constants_sigmas_cap.0[i].elements.iter().map(|x| cu(*x)).collect();
        if pis[start + 4 + 4 * i..start + 8 + 4 * i] != e[..] {
            return Err(format!("history {}: embedded cap entry {i} differs", st.hist));
        }
    }
    Ok(())
}

fn cyclic(ctx: &Ctx, thorough: bool) {
    // find the smallest degree for which the self-referential common data closes
    let mut built: Option<Cyclic> = None;
    for bits in 9..=13 {
        match guarded(|| build_cyclic(bits, 0)) {
            Ok(c) => {
                if c.data.common == c.common {
                    built = Some(c);
                    break;
                }
            }
            Err(_) => continue,
        }
    }
    let Some(c) = built else {
        ctx.machinery_error("no degree in 2^9..2^13 closes the cyclic common data");
        return;
    };
    let bits = c.data.common.degree_bits();
    ctx.count("cyclic_degree_bits", bits as u64);
    let vo = c.data.verifier_only.clone();
    let initial: Vec<u64> = vec![0, 1, 2, P - 1];
    let init_pis: hashbrown::HashMap<usize, F> = initial.iter().enumerate().map(|(i, v)| (i, fe(*v))).collect();
    let base_inner = cyclic_base_proof(&c.common, &vo, init_pis.clone());
    let depth = if thorough { 4 } else { 3 };
    // BFS over histories; state key = (counter, tip)
    let mut seen: BTreeMap<(u64, Vec<u64>), String> = BTreeMap::new();
    let mut frontier: Vec<State> = Vec::new();
    let mut all_states: Vec<State> = Vec::new();
    // event: base
    let prove = |cond: bool, prev: &Proof| -> Result<Proof, String> {
        let pw = cyc_pw(&c, cond, prev, &vo)?;
        match guarded(|| c.data.prove(pw)) {
            Ok(Ok(p)) => Ok(p),
            Ok(Err(e)) => Err(format!("prove-err: {e}")),
            Err(p) => Err(format!("prove-panic: {p}")),
        }
    };
    ctx.case("cyclic-history", "cyclic base", || {
        let p = prove(false, &base_inner)?;
        let st = State { hist: "base".into(), proof: p, counter: 1, initial: initial.clone(), tip: ref_step(&initial, 0) };
        check_state(&c, &st)?;
        Ok("cyclic:base".into())
    });
    match prove(false, &base_inner) {
        Ok(p) => {
            let st = State { hist: "base".into(), proof: p, counter: 1, initial: initial.clone(), tip: ref_step(&initial, 0) };
            seen.insert((st.counter, st.tip.clone()), st.hist.clone());
            frontier.push(st.clone());
            all_states.push(st);
            ctx.state(1);
        }
        Err(e) => {
            ctx.violation("cyclic-history", "cyclic base", format!("base proof cannot be produced: {e}"));
            return;
        }
    }
    for d in 1..depth {
        let mut next: Vec<State> = Vec::new();
        // events from every state of the frontier: step; restart (cond=false ignoring a valid previous proof);
        // fork = step from a non-latest state (all earlier states)
        let sources: Vec<State> = if d == 1 { frontier.clone() } else { frontier.iter().cloned().chain(all_states.iter().take(1).cloned()).collect() };
        let results: Vec<Vec<(String, Result<State, String>)>> = par_map(sources.len(), |i| {
            let s = &sources[i];
            let mut out = Vec::new();
            let step = prove(true, &s.proof).map(|p| State { hist: format!("{}>step", s.hist), proof: p, counter: s.counter + 1, initial: initial.clone(), tip: ref_step(&s.tip, 0) });
            out.push((format!("{}>step", s.hist), step));
            let restart = prove(false, &s.proof).map(|p| State { hist: format!("{}>restart", s.hist), proof: p, counter: 1, initial: initial.clone(), tip: ref_step(&initial, 0) });
            out.push((format!("{}>restart", s.hist), restart));
            out
        });
        for (hist, r) in results.into_iter().flatten() {
            ctx.transition(1);
            match r {
                Err(e) => ctx.violation("cyclic-history", format!("cyclic {hist}"), format!("a fault-free transition cannot be proven: {e}")),
                Ok(st) => {
                    ctx.case("cyclic-history", &format!("cyclic {hist}"), || {
                        check_state(&c, &st)?;
                        Ok(format!("cyclic:{}:counter{}", hist.rsplit('>').next().unwrap_or(""), st.counter.min(3)))
                    });
                    ctx.trace(1);
                    if seen.insert((st.counter, st.tip.clone()), st.hist.clone()).is_none() {
                        ctx.state(1);
                        next.push(st.clone());
                        all_states.push(st);
                    }
                }
            }
        }
        frontier = next;
        if frontier.is_empty() {
            break;
        }
    }
    ctx.sample(json!({"cyclic_states": all_states.iter().map(|s| format!("{} (counter {})", s.hist, s.counter)).collect::<Vec<_>>() }));
    // faults on every reachable state used as previous proof (no proving: witness + sat)
    let n_pis = c.data.common.num_public_inputs;
    let mut fault_cases: Vec<(usize, usize, bool)> = Vec::new();
    for si in 0..all_states.len().min(if thorough { 6 } else { 3 }) {
        for pi in 0..n_pis {
            fault_cases.push((si, pi, true));
            if pi >= 9 || pi < 4 {
                fault_cases.push((si, pi, false));
            }
        }
    }
    par_for_chunk(fault_cases.len(), 2, |k| {
        let (si, pi, cond) = fault_cases[k];
        let s = &all_states[si];
        let case = format!("cyclic fault prev={} public_input[{pi}]+1 cond={cond}", s.hist);
        ctx.case("cyclic-fault", &case, || {
            let mut p = s.proof.clone();
            p.public_inputs[pi] += plonky2::field::types::Field::ONE;
            let got = cyc_pw(&c, cond, &p, &vo).and_then(|pw| accepts(&c.data, &c.sc, pw));
            ctx.transition(1);
            // cond = true: the previous proof no longer verifies. cond = false: the previous proof is
            // not verified, but its initial hash and verifier data stay connected to this circuit's,
            // so altering those public inputs must still be rejected... except the initial hash, which
            // simply becomes the new chain's initial hash (documented: unconstrained in the base case).
            let must_reject = cond || pi >= 9;
            match (must_reject, &got) {
                (true, Err(e)) => Ok(format!("cyclic-fault:cond{cond}:pi-{}:rejected:{}", if pi < 4 { "initial" } else if pi < 8 { "tip" } else if pi == 8 { "counter" } else { "vk" }, reason(e))),
                (true, Ok(_)) => Err(format!("previous proof with public input {pi} altered is accepted as the basis of a step (cond={cond})")),
                (false, _) => Ok(format!("cyclic-fault:cond{cond}:initial-hash-free:{}", if got.is_ok() { "accepted" } else { "rejected" })),
            }
        });
    });
    // check_cyclic_proof_verifier_data rejects every single-element alteration of the embedded data
    let cap_elems = c.data.common.config.fri_config.num_cap_elements();
    let start = n_pis - 4 - 4 * cap_elems;
    for (si, s) in all_states.iter().enumerate().take(3) {
        for pi in start..n_pis {
            ctx.case("cyclic-vk-check", &format!("cyclic vk-check state#{si} public_input[{pi}]+1"), || {
                let mut p = s.proof.clone();
                p.public_inputs[pi] += plonky2::field::types::Field::ONE;
                match guarded(|| check_cyclic_proof_verifier_data(&p, &vo, &c.data.common)) {
                    Ok(Err(_)) => Ok("vk-check:rejected".into()),
                    Ok(Ok(())) => Err(format!("check_cyclic_proof_verifier_data accepts a proof whose embedded verifier data element {} differs", pi - start)),
                    Err(p) => Err(format!("check_cyclic_proof_verifier_data panicked: {p}")),
                }
            });
        }
        // and the circuit's verifier data altered instead
        let voj = serde_json::to_value(&vo).unwrap();
        for path in shape(&voj).leaves {
            ctx.case("cyclic-vk-check", &format!("cyclic vk-check state#{si} verifier_only{}", path_str(&path)), || {
                let Some((t, changed)) = mutate_leaf(&voj, &path, LeafMut::Add1) else { return Ok(String::new()) };
                if !changed {
                    return Ok(String::new());
                }
                let (Ok(cap), Ok(dig)) = (serde_json::from_value(t["constants_sigmas_cap"].clone()), serde_json::from_value(t["circuit_digest"].clone())) else { return Ok(String::new()) };
                let vo2 = VO { constants_sigmas_cap: cap, circuit_digest: dig };
                match guarded(|| check_cyclic_proof_verifier_data(&s.proof, &vo2, &c.data.common)) {
                    Ok(Err(_)) => Ok("vk-check:rejected".into()),
                    Ok(Ok(())) => Err(format!("check_cyclic_proof_verifier_data accepts verifier data differing at {}", path_str(&path))),
                    Err(p) => Err(format!("check_cyclic_proof_verifier_data panicked: {p}")),
                }
            });
        }
    }
    // a proof of a DIFFERENT cyclic circuit (same common data) as previous proof
    if thorough {
        if let Ok(c2) = guarded(|| build_cyclic(bits, 1)) {
            if c2.data.common == c.data.common {
                let vo2 = c2.data.verifier_only.clone();
                let base2 = cyclic_base_proof(&c2.common, &vo2, init_pis.clone());
                let p2 = cyc_pw(&c2, false, &base2, &vo2).ok().and_then(|pw| guarded(|| c2.data.prove(pw)).ok()).and_then(|r| r.ok());
                if let Some(p2) = p2 {
                    ctx.case("cyclic-fault", "cyclic fault prev=proof-of-another-cyclic-circuit cond=true", || {
                        let got = cyc_pw(&c, true, &p2, &vo).and_then(|pw| accepts(&c.data, &c.sc, pw));
                        match got {
                            Err(e) => Ok(format!("cyclic-fault:other-circuit:rejected:{}", reason(&e))),
                            Ok(_) => Err("a proof of another cyclic circuit is accepted as previous proof".into()),
                        }
                    });
                    ctx.case("cyclic-vk-check", "cyclic vk-check proof-of-another-cyclic-circuit", || match check_cyclic_proof_verifier_data(&p2, &vo, &c.data.common) {
                        Err(_) => Ok("vk-check:other-circuit:rejected".into()),
                        Ok(()) => Err("check_cyclic_proof_verifier_data accepts a proof carrying another circuit's verifier data".into()),
                    });
                }
            }
        }
    }
}

pub fn run(ctx: &Ctx) -> i32 {
    let thorough = ctx.tier.thorough();
    conditional(ctx, thorough);
    dummies(ctx, thorough);
    cyclic(ctx, thorough);
    ctx.finish(Finish {
        level: "model_checking",
        rule: "conditional: outer circuit built once; full square cond in {0,1,2} x (valid, valid-other-input, one tamper per element kind, wrong verifier data, 3 false statements) for each branch, plus every (strided in quick) leaf of the selected and of the unselected proof; oracle C <=> cond boolean AND native verify of the selected branch; _or_dummy variant; dummy proofs for public-input counts x degree bits verified natively. cyclic: hash-chain circuit at the smallest degree closing the self-referential common data, BFS over event sequences {base, step, restart} (fork = step from the base state again) up to the depth with canonical state (counter, tip); every state: verifies, check_cyclic_proof_verifier_data Ok, counter = steps, tip = reference Poseidon iterate, embedded verifier data = circuit's; faults: each public input of the previous proof altered (cond true and false) must give an unsatisfied assignment; every element alteration of embedded or supplied verifier data rejected by check_cyclic_proof_verifier_data. states = circuits + distinct cyclic states, transitions = assignments / proofs attempted, traces_validated = fault-free histories validated",
        exhaustive: true,
        assumptions: vec![
            "inner circuit shapes: one pair of arithmetic circuits with equal common data; chain length bounded by the depth (quick 3, thorough 4)".into(),
            "C is decided by witness generation + the exact satisfaction oracle".into(),
            "in the base case (cond = false) the initial hash of the supplied proof is, as documented, unconstrained".into(),
        ],
        extra: json!({}),
    })
}

pub fn _unused(_v: Value) {}
