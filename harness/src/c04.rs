//! C04 — Fiat-Shamir challenges depend on the whole statement and prior transcript.
//!
//! Model + conformance: the specification is an explicit transcript model (an ordered list of
//! absorb / draw events, written down here from the protocol description). For every scalar leaf
//! of every transcript component of real proofs (statement parameters, digest, public inputs,
//! caps, openings, commit-phase caps, final polynomial, pow witness) the component is altered and
//! the challenges are recomputed with the implementation's own `get_challenges`; conformance demands
//! that exactly the challenges the model places AFTER the component change (each of them), and
//! exactly those BEFORE it stay equal. Query-round contents are not transcript components: altering
//! them must change no challenge.

use plonky2::plonk::circuit_data::CommonCircuitData;
use plonky2::plonk::config::{GenericConfig, Hasher};
use plonky2::plonk::proof::{ProofChallenges, ProofWithPublicInputs};
use serde_json::{json, Value};

use crate::c02::subject_programs;
use crate::c03::{floor_config, make_accepted, Accepted};
use crate::core::*;
use crate::plonkm::*;
use crate::tamper::*;

/// Challenges grouped by the model's draw stages, flattened to canonical u64 values.
/// stage 0: betas, gammas, extra deltas; 1: alphas; 2: zeta; 3: fri_alpha; 4+i: fri_beta_i;
/// 4+n: pow response; 5+n: the query index vector (one group, compared as a vector).
pub fn stages(ch: &ProofChallenges<F, D>, has_lookup: bool) -> Vec<Vec<u64>> {
    use plonky2::field::extension::FieldExtension;
    let mut out = Vec::new();
    let mut s0: Vec<u64> = ch.plonk_betas.iter().chain(ch.plonk_gammas.iter()).map(|x| cu(*x)).collect();
    if has_lookup {
        let k = ch.plonk_betas.len() + ch.plonk_gammas.len();
        s0.extend(ch.plonk_deltas[k..].iter().map(|x| cu(*x)));
    }
    out.push(s0);
    out.push(ch.plonk_alphas.iter().map(|x| cu(*x)).collect());
    let e = |x: &FE| -> Vec<u64> { <FE as FieldExtension<D>>::to_basefield_array(x).iter().map(|c| cu(*c)).collect() };
    out.push(e(&ch.plonk_zeta));
    out.push(e(&ch.fri_challenges.fri_alpha));
    for b in &ch.fri_challenges.fri_betas {
        out.push(e(b));
    }
    out.push(vec![cu(ch.fri_challenges.fri_pow_response)]);
    out.push(ch.fri_challenges.fri_query_indices.iter().map(|x| *x as u64).collect());
    out
}

/// The model: first stage drawn after a proof-tree component (None = not a transcript component).
pub fn model_stage(path: &str, n_betas: usize) -> Option<usize> {
    if path.starts_with(".public_inputs") || path.starts_with(".proof.wires_cap") {
        return Some(0);
    }
    if path.starts_with(".proof.plonk_zs_partial_products_cap") {
        return Some(1);
    }
    if path.starts_with(".proof.quotient_polys_cap") {
        return Some(2);
    }
    if path.starts_with(".proof.openings") {
        return Some(3);
    }
    if let Some(rest) = path.strip_prefix(".proof.opening_proof.commit_phase_merkle_caps[") {
        let i: usize = rest.split(']').next().unwrap().parse().unwrap();
        return Some(4 + i);
    }
    if path.starts_with(".proof.opening_proof.final_poly") || path.starts_with(".proof.opening_proof.pow_witness") {
        return Some(4 + n_betas);
    }
    None
}

/// Compares two stage vectors against the model. `first` = first stage that must change
/// (None = nothing may change). Extension challenges (2 coordinates) and the index vector are
/// compared as one value; base-field challenge groups element by element.
pub fn conform(base: &[Vec<u64>], new: &[Vec<u64>], first: Option<usize>, n_stages_vector_like: &[usize]) -> Result<(), String> {
    if base.len() != new.len() {
        // a different number of stages can only come from statement edits that change the shape
        return Ok(());
    }
    for (t, (b, n)) in base.iter().zip(new).enumerate() {
        let must_change = first.map(|f| t >= f).unwrap_or(false);
        if !must_change {
            if b != n {
                return Err(format!("challenge stage {t} changed although the model places it BEFORE the altered component"));
            }
        } else if n_stages_vector_like.contains(&t) || b.len() != n.len() {
            if b == n {
                return Err(format!("challenge stage {t} (drawn after the altered component) did not change"));
            }
        } else {
            for (k, (x, y)) in b.iter().zip(n).enumerate() {
                if x == y {
                    return Err(format!("challenge #{k} of stage {t} (drawn after the altered component) did not change"));
                }
            }
        }
    }
    Ok(())
}

fn challenges_of<Cfg: GenericConfig<D, F = F>>(
    p: &ProofWithPublicInputs<F, Cfg, D>,
    digest: &<<Cfg as GenericConfig<D>>::Hasher as Hasher<F>>::Hash,
    common: &CommonCircuitData<F, D>,
) -> Result<Vec<Vec<u64>>, String> {
    match guarded(|| p.get_challenges(p.get_public_inputs_hash(), digest, common)) {
        Ok(Ok(c)) => Ok(stages(&c, common.num_lookup_polys != 0)),
        Ok(Err(e)) => Err(format!("err: {e}")),
        Err(p) => Err(format!("panic: {p}")),
    }
}

fn plonk_subject<Cfg: GenericConfig<D, F = F>>(ctx: &Ctx, a: &Accepted<Cfg>) {
    let common = &a.data.common;
    let digest = &a.data.verifier_only.circuit_digest;
    let base = match challenges_of(&a.proof, digest, common) {
        Ok(b) => b,
        Err(e) => {
            ctx.machinery_error(format!("{}: get_challenges on the honest proof: {e}", a.name));
            return;
        }
    };
    let n_betas = a.proof.proof.opening_proof.commit_phase_merkle_caps.len();
    let n_st = base.len();
    // zeta (2), fri_alpha (3), betas, and the index vector are compared as whole values
    let mut vec_like: Vec<usize> = vec![2, 3, n_st - 1];
    vec_like.extend(4..4 + n_betas);
    ctx.state(n_st as u64);
    let name = &a.name;
    // 1. every leaf of the proof tree
    let sh = shape(&a.json);
    par_for_chunk(sh.leaves.len(), 32, |li| {
        let path = &sh.leaves[li];
        let ps = path_str(path);
        let case = format!("{name} component {ps}");
        let first = model_stage(&ps, n_betas);
        let site = format!("plonk:{}", match first { Some(_) => path_kind(path), None => "non-transcript".into() });
        ctx.case(&site, &case, || {
            let Some((t, changed)) = mutate_leaf(&a.json, path, LeafMut::Add1) else { return Ok(String::new()) };
            if !changed {
                return Ok(String::new());
            }
            let Ok(p) = serde_json::from_value::<ProofWithPublicInputs<F, Cfg, D>>(t) else { return Ok("not-constructible".into()) };
            let new = challenges_of(&p, digest, common)?;
            ctx.transition(1);
            conform(&base, &new, first, &vec_like)?;
            ctx.trace(1);
            Ok(format!("plonk:{}:first-stage-{:?}", path_kind(path), first.map(|f| f.min(4))))
        });
    });
    // 2. circuit digest, element by element
    let dj = serde_json::to_value(digest).unwrap();
    for path in shape(&dj).leaves {
        let case = format!("{name} component circuit_digest{}", path_str(&path));
        ctx.case("plonk:circuit_digest", &case, || {
            let Some((t, changed)) = mutate_leaf(&dj, &path, LeafMut::Add1) else { return Ok(String::new()) };
            if !changed {
                return Ok(String::new());
            }
            let Ok(d2) = serde_json::from_value(t) else { return Ok("not-constructible".into()) };
            let new = challenges_of(&a.proof, &d2, common)?;
            ctx.transition(1);
            conform(&base, &new, Some(0), &vec_like)?;
            ctx.trace(1);
            Ok("plonk:circuit_digest:first-stage-0".into())
        });
    }
    // 3. statement parameters (both copies of the FRI configuration are edited consistently)
    let edits: Vec<(&str, Box<dyn Fn(&mut CommonCircuitData<F, D>) -> bool>)> = vec![
        ("rate_bits", Box::new(|c| { c.fri_params.config.rate_bits += 1; c.config.fri_config.rate_bits += 1; true })),
        ("cap_height", Box::new(|c| { c.fri_params.config.cap_height += 1; c.config.fri_config.cap_height += 1; true })),
        ("proof_of_work_bits", Box::new(|c| { c.fri_params.config.proof_of_work_bits += 1; c.config.fri_config.proof_of_work_bits += 1; true })),
        ("num_query_rounds", Box::new(|c| { c.fri_params.config.num_query_rounds += 1; c.config.fri_config.num_query_rounds += 1; true })),
        ("reduction_strategy", Box::new(|c| {
            use plonky2::fri::reduction_strategies::FriReductionStrategy as S;
            let n = match &c.fri_params.config.reduction_strategy {
                S::ConstantArityBits(a, b) => S::ConstantArityBits(*a, b + 1),
                S::Fixed(v) => { let mut v = v.clone(); v.push(1); S::Fixed(v) }
                S::MinSize(o) => S::MinSize(Some(o.unwrap_or(0) + 1)),
            };
            c.fri_params.config.reduction_strategy = n.clone();
            c.config.fri_config.reduction_strategy = n;
            true
        })),
        ("reduction_strategy_kind", Box::new(|c| {
            use plonky2::fri::reduction_strategies::FriReductionStrategy as S;
            let n = match &c.fri_params.config.reduction_strategy {
                S::ConstantArityBits(a, b) => S::Fixed(vec![*a, *b]),
                _ => S::ConstantArityBits(1, 1),
            };
            c.fri_params.config.reduction_strategy = n.clone();
            c.config.fri_config.reduction_strategy = n;
            true
        })),
        ("hiding", Box::new(|c| { c.fri_params.hiding = !c.fri_params.hiding; true })),
        ("degree_bits", Box::new(|c| { c.fri_params.degree_bits += 1; true })),
        ("reduction_arity_bits[0]", Box::new(|c| { if c.fri_params.reduction_arity_bits.is_empty() { false } else { c.fri_params.reduction_arity_bits[0] += 1; true } })),
        ("reduction_arity_bits[last]", Box::new(|c| { if c.fri_params.reduction_arity_bits.len() < 2 { false } else { *c.fri_params.reduction_arity_bits.last_mut().unwrap() += 1; true } })),
        ("reduction_arity_bits.push", Box::new(|c| { c.fri_params.reduction_arity_bits.push(1); true })),
    ];
    for (what, f) in edits {
        let case = format!("{name} component statement.{what}");
        ctx.case(&format!("plonk:statement.{what}"), &case, || {
            let mut c2 = common.clone();
            if !f(&mut c2) {
                return Ok(String::new());
            }
            let new = challenges_of(&a.proof, digest, &c2)?;
            ctx.transition(1);
            conform(&base, &new, Some(0), &vec_like)?;
            ctx.trace(1);
            Ok(format!("plonk:statement.{what}:first-stage-0"))
        });
    }
    // 4. prover side agreement: the honest proof verifies (so the prover drew the same challenges);
    //    recorded by make_accepted. Nothing more to do here.
}

pub fn run(ctx: &Ctx) -> i32 {
    let thorough = ctx.tier.thorough();
    let progs = subject_programs();
    let base_cfg = floor_config(8);
    let n = if thorough { progs.len() } else { 3 };
    let subs: Vec<Accepted<PC>> = par_map(n, |i| {
        let (prog, ivs) = &progs[i];
        let mut c = base_cfg.clone();
        if i % 2 == 1 {
            c.fri_config.reduction_strategy = plonky2::fri::reduction_strategies::FriReductionStrategy::ConstantArityBits(2, 1);
        }
        if i == 0 {
            c.num_challenges = 3;
        }
        make_accepted::<PC>(ctx, &format!("{}@c04", prog.name), prog, &ivs[0], &c, ctx.seed + 1)
    })
    .into_iter()
    .flatten()
    .collect();
    ctx.sample(json!({"plonk_subjects": subs.iter().map(|a| a.name.clone()).collect::<Vec<_>>(),
        "transcript_model": ["fri params (rate, cap, pow, strategy, queries, hiding, degree bits, arity bits)", "circuit digest", "public-input hash", "wires cap", "DRAW betas gammas (deltas)", "zs/partial-products/lookup cap", "DRAW alphas", "quotient cap", "DRAW zeta", "all openings", "DRAW fri_alpha", "(commit cap_i, DRAW beta_i)*", "final polynomial", "pow witness", "DRAW pow response", "DRAW query indices"]}));
    for a in &subs {
        plonk_subject(ctx, a);
    }
    // zero-knowledge (hiding = true, salted) and Keccak transcripts
    {
        let (prog, ivs) = &progs[0];
        let mut zk = floor_config(8);
        zk.zero_knowledge = true;
        if let Some(a) = make_accepted::<PC>(ctx, "arith_range@c04zk", prog, &ivs[0], &zk, ctx.seed + 2) {
            plonk_subject(ctx, &a);
        }
        if let Some(a) = make_accepted::<KC>(ctx, "arith_range@c04keccak", prog, &ivs[0], &base_cfg, ctx.seed + 3) {
            plonk_subject(ctx, &a);
        }
    }
    // no grinding: the pow witness is still a transcript component (any value is admissible, so
    // it must keep steering the query indices)
    {
        let (prog, ivs) = &progs[3.min(progs.len() - 1)];
        let mut c = floor_config(8);
        c.fri_config.proof_of_work_bits = 0;
        fix_security(&mut c);
        if let Some(a) = make_accepted::<PC>(ctx, "random_access_exp@c04pow0", prog, &ivs[0], &c, ctx.seed + 4) {
            plonk_subject(ctx, &a);
        }
    }
    circuit_digest_section(ctx);
    crate::c04s::run_stark(ctx);
    ctx.finish(Finish {
        level: "model_checking",
        rule: "specification = explicit transcript model (ordered absorb/draw events) for PLONK and STARK proofs; for every scalar leaf of every transcript component of real accepted proofs and every statement parameter, the component is altered (v -> v+1) and the implementation's get_challenges re-run; conformance = every challenge drawn after the component (model order) changes and every challenge drawn before it is unchanged; leaves of query rounds (not transcript components) must change nothing. states = challenge stages of the subjects, transitions = get_challenges calls, traces_validated_against_impl = components whose dependency pattern matched the model",
        exhaustive: true,
        assumptions: vec![
            "a changed challenge coinciding with the old value has probability 2^-64 per base-field challenge; the query-index vector (>= 8 indices) is compared as a vector".into(),
            "prover/verifier agreement on the transcript follows from honest proofs being accepted (checked when the subjects are made) - an absorption removed on both sides shows up as a component whose alteration leaves a later challenge unchanged".into(),
            "the adversarial (game) reading of 'no message can be chosen after seeing a challenge' is decided as an order + dependence property of the transcript".into(),
        ],
        extra: json!({}),
    })
}

/// The statement's first transcript component is the circuit digest. It must be the documented function
/// of the circuit: hash_no_pad(constants-sigmas cap || hash_pad(domain separator) || degree bits), so that
/// every domain separator (lengths on both sides of the pad10*1 block boundary) gives its own digest.
fn circuit_digest_section(ctx: &Ctx) {
    use plonky2::field::types::PrimeField64;
    let progs = subject_programs();
    let (prog, _) = &progs[0];
    let cfg = floor_config(8);
    let seps: Vec<(&str, Option<Vec<u64>>)> = vec![
        ("none", None),
        ("empty", Some(vec![])),
        ("len1-zero", Some(vec![0])),
        ("len1-one", Some(vec![1])),
        ("len2", Some(vec![1, 0])),
        ("len6", Some(vec![1, 2, 3, 4, 5, 6])),
        ("len7", Some(vec![1, 2, 3, 4, 5, 6, 1])),
        ("len7b", Some(vec![1, 2, 3, 4, 5, 6, 7])),
        ("len8", Some(vec![1, 2, 3, 4, 5, 6, 7, 0])),
        ("len9", Some(vec![1, 2, 3, 4, 5, 6, 7, 0, 1])),
        ("len15", Some((1..=15).collect())),
        ("len16", Some((1..=16).collect())),
    ];
    let pad = |m: &[u64]| -> Vec<u64> {
        let mut v = m.to_vec();
        v.push(1);
        while (v.len() + 1) % 8 != 0 {
            v.push(0);
        }
        v.push(1);
        v
    };
    let mut digests: Vec<(String, Vec<u64>, Vec<u64>)> = Vec::new();
    for (tag, sep) in &seps {
        let case = format!("circuit-digest separator={tag}");
        let sepf: Option<Vec<F>> = sep.as_ref().map(|v| v.iter().map(|x| fe(*x)).collect());
        let built = match guarded(|| {
            build_program_with::<PC>(prog, &cfg, &|b| {
                if let Some(s) = &sepf {
                    b.set_domain_separator(s.clone());
                }
            })
        }) {
            Ok(b) => b,
            Err(p) => {
                ctx.machinery_error(format!("{case}: build failed: {p}"));
                continue;
            }
        };
        let d: Vec<u64> = built.data.verifier_only.circuit_digest.elements.iter().map(|x| x.to_canonical_u64()).collect();
        let msg = pad(sep.as_deref().unwrap_or(&[]));
        ctx.case("circuit-digest:formula", &case, || {
            let cap: Vec<u64> = built.data.verifier_only.constants_sigmas_cap.0.iter().flat_map(|h| h.elements.iter().map(|x| x.to_canonical_u64())).collect();
            let mut parts = cap;
            parts.extend(ref_hash_no_pad(&msg, 4));
            parts.push(built.data.common.degree_bits() as u64);
            let want = ref_hash_no_pad(&parts, 4);
            if want != d {
                return Err(format!("circuit digest {d:?} != reference hash_no_pad(cap || hash_pad(separator) || degree_bits) {want:?}"));
            }
            Ok("circuit-digest:formula".into())
        });
        ctx.transition(1);
        digests.push((tag.to_string(), msg, d));
    }
    for i in 0..digests.len() {
        for j in i + 1..digests.len() {
            let case = format!("circuit-digest distinct {} {}", digests[i].0, digests[j].0);
            ctx.case("circuit-digest:separator-binding", &case, || {
                let same_msg = digests[i].1 == digests[j].1;
                let same_digest = digests[i].2 == digests[j].2;
                if same_msg != same_digest {
                    return Err(format!("separators {} / {}: padded messages equal = {same_msg}, digests equal = {same_digest}", digests[i].0, digests[j].0));
                }
                Ok(format!("circuit-digest:{}", if same_msg { "same-separator-same-digest" } else { "distinct" }))
            });
        }
    }
}

pub fn _unused(_v: Value) {}
