//! Tamper engine (DESIGN §3.7): proofs are serde types; a proof is converted to a
//! `serde_json::Value` tree (exact for u64), every numeric leaf and every array / map node is
//! enumerated, one mutation is applied, and the tree is deserialised back into the typed proof.

use serde_json::Value;

use crate::core::P;

#[derive(Clone, Debug, PartialEq, Eq)]
pub enum PathElem {
    Key(String),
    Idx(usize),
}
pub type Path = Vec<PathElem>;

pub fn path_str(p: &Path) -> String {
    let mut s = String::new();
    for e in p {
        match e {
            PathElem::Key(k) => {
                s.push('.');
                s.push_str(k);
            }
            PathElem::Idx(i) => s.push_str(&format!("[{i}]")),
        }
    }
    s
}

/// Path with indices erased: identifies the *kind* of position (used for observation classes).
pub fn path_kind(p: &Path) -> String {
    let mut s = String::new();
    for e in p {
        match e {
            PathElem::Key(k) => {
                s.push('.');
                if k.chars().all(|c| c.is_ascii_digit()) {
                    s.push('#');
                } else {
                    s.push_str(k);
                }
            }
            PathElem::Idx(_) => s.push_str("[]"),
        }
    }
    s
}

pub fn get<'a>(v: &'a Value, p: &Path) -> Option<&'a Value> {
    let mut cur = v;
    for e in p {
        cur = match e {
            PathElem::Key(k) => cur.get(k)?,
            PathElem::Idx(i) => cur.get(*i)?,
        };
    }
    Some(cur)
}
pub fn get_mut<'a>(v: &'a mut Value, p: &Path) -> Option<&'a mut Value> {
    let mut cur = v;
    for e in p {
        cur = match e {
            PathElem::Key(k) => cur.get_mut(k)?,
            PathElem::Idx(i) => cur.get_mut(*i)?,
        };
    }
    Some(cur)
}

fn walk(v: &Value, cur: &mut Path, leaves: &mut Vec<Path>, arrays: &mut Vec<Path>, maps: &mut Vec<Path>) {
    match v {
        Value::Number(_) => leaves.push(cur.clone()),
        Value::Array(a) => {
            arrays.push(cur.clone());
            for (i, x) in a.iter().enumerate() {
                cur.push(PathElem::Idx(i));
                walk(x, cur, leaves, arrays, maps);
                cur.pop();
            }
        }
        Value::Object(m) => {
            // a map node is an object whose keys are all numeric (HashMap<usize, _> in compressed proofs)
            if !m.is_empty() && m.keys().all(|k| k.chars().all(|c| c.is_ascii_digit())) {
                maps.push(cur.clone());
            }
            // deterministic order
            let mut keys: Vec<&String> = m.keys().collect();
            keys.sort_by(|a, b| match (a.parse::<u64>(), b.parse::<u64>()) {
                (Ok(x), Ok(y)) => x.cmp(&y),
                _ => a.cmp(b),
            });
            for k in keys {
                cur.push(PathElem::Key(k.clone()));
                walk(&m[k], cur, leaves, arrays, maps);
                cur.pop();
            }
        }
        _ => {}
    }
}

pub struct Shape {
    pub leaves: Vec<Path>,
    pub arrays: Vec<Path>,
    pub maps: Vec<Path>,
}

pub fn shape(v: &Value) -> Shape {
    let (mut leaves, mut arrays, mut maps) = (Vec::new(), Vec::new(), Vec::new());
    walk(v, &mut Vec::new(), &mut leaves, &mut arrays, &mut maps);
    Shape { leaves, arrays, maps }
}

#[derive(Clone, Copy, Debug, PartialEq, Eq)]
pub enum LeafMut {
    Add1,
    Zero,
    One,
    PMinus1,
    Flip63,
    /// non-canonical alias of the same field element (v + p), when it fits in u64
    Alias,
    /// p itself (non-canonical zero) / 2^64 - 1
    P,
    Max,
}

#[derive(Clone, Copy, Debug, PartialEq, Eq)]
pub enum ArrMut {
    DropLast,
    Empty,
    DupLast,
    SwapFirstTwo,
    AppendFirst,
    /// append an all-zero element shaped like the last one (hash inputs without length padding
    /// cannot tell a list from the same list with trailing zeros)
    AppendZero,
}

#[derive(Clone, Copy, Debug, PartialEq, Eq)]
pub enum MapMut {
    RemoveFirst,
    ShiftFirstKey,
    AddKey,
}

/// Applies a leaf mutation. Returns (new tree, changed_mod_p) or None if the mutation is the identity.
pub fn mutate_leaf(v: &Value, p: &Path, m: LeafMut) -> Option<(Value, bool)> {
    let mut t = v.clone();
    let leaf = get_mut(&mut t, p)?;
    let old = leaf.as_u64()?;
    let new = match m {
        LeafMut::Add1 => old.wrapping_add(1),
        LeafMut::Zero => 0,
        LeafMut::One => 1,
        LeafMut::PMinus1 => P - 1,
        LeafMut::Flip63 => old ^ (1 << 63),
        LeafMut::Alias => {
            if old < u64::MAX - P + 1 {
                old + P
            } else {
                return None;
            }
        }
        LeafMut::P => P,
        LeafMut::Max => u64::MAX,
    };
    if new == old {
        return None;
    }
    *leaf = Value::from(new);
    Some((t, new % P != old % P))
}

pub fn mutate_array(v: &Value, p: &Path, m: ArrMut) -> Option<Value> {
    let mut t = v.clone();
    let node = get_mut(&mut t, p)?;
    let a = node.as_array_mut()?;
    match m {
        ArrMut::DropLast => {
            a.pop()?;
        }
        ArrMut::Empty => {
            if a.is_empty() {
                return None;
            }
            a.clear();
        }
        ArrMut::DupLast => {
            let l = a.last()?.clone();
            a.push(l);
        }
        ArrMut::SwapFirstTwo => {
            if a.len() < 2 || a[0] == a[1] {
                return None;
            }
            a.swap(0, 1);
        }
        ArrMut::AppendFirst => {
            let f = a.first()?.clone();
            a.push(f);
        }
        ArrMut::AppendZero => {
            let z = zero_like(a.last()?);
            a.push(z);
        }
    }
    Some(t)
}

pub fn zero_like(v: &Value) -> Value {
    match v {
        Value::Number(_) => Value::from(0u64),
        Value::Array(a) => Value::Array(a.iter().map(zero_like).collect()),
        Value::Object(m) => Value::Object(m.iter().map(|(k, x)| (k.clone(), zero_like(x))).collect()),
        other => other.clone(),
    }
}

pub fn mutate_map(v: &Value, p: &Path, m: MapMut) -> Option<Value> {
    let mut t = v.clone();
    let node = get_mut(&mut t, p)?;
    let o = node.as_object_mut()?;
    let mut keys: Vec<u64> = o.keys().filter_map(|k| k.parse().ok()).collect();
    keys.sort();
    let first = *keys.first()?;
    match m {
        MapMut::RemoveFirst => {
            o.remove(&first.to_string());
        }
        MapMut::ShiftFirstKey => {
            let mut nk = first + 1;
            while o.contains_key(&nk.to_string()) {
                nk += 1;
            }
            let val = o.remove(&first.to_string())?;
            o.insert(nk.to_string(), val);
        }
        MapMut::AddKey => {
            let mut nk = keys.last()? + 1;
            while o.contains_key(&nk.to_string()) {
                nk += 1;
            }
            let val = o[&first.to_string()].clone();
            o.insert(nk.to_string(), val);
        }
    }
    Some(t)
}
