//! C05 — FRI opening proofs attest only true evaluations of low-degree polynomials.
//!
//! Bounded exhaustive exploration:
//!   1. the arity-schedule parameter function on its complete small domain (invariants);
//!   2. honest runs over oracle shapes x degrees x opening structures x parameter tuples x
//!      coefficient families (two challengers fed identically) — must be accepted;
//!   3. every single deviation D1..D7 — for EVERY explored proof the implementation's verdict must
//!      equal the verdict of the naive reference verifier below (exact oracle under fixed challenges).
//!
//! The reference verifier works on plain u64 values with the mod-p helpers of core.rs; the only
//! library routines it calls are the hash primitives `H::hash_or_noop` / `H::two_to_one`.

use plonky2::batch_fri::oracle::BatchFriOracle;
use plonky2::batch_fri::verifier::verify_batch_fri_proof;
use plonky2::field::extension::quadratic::QuadraticExtension;
use plonky2::field::extension::Extendable;
use plonky2::field::goldilocks_field::GoldilocksField;
use plonky2::field::polynomial::PolynomialCoeffs;
use plonky2::field::types::{Field, PrimeField64};
use plonky2::fri::oracle::PolynomialBatch;
use plonky2::fri::proof::{FriChallenges, FriProof};
use plonky2::fri::prover::fri_proof;
use plonky2::fri::reduction_strategies::FriReductionStrategy;
use plonky2::fri::structure::{
    FriBatchInfo, FriInstanceInfo, FriOpeningBatch, FriOpenings, FriOracleInfo, FriPolynomialInfo,
};
use plonky2::fri::verifier::verify_fri_proof;
use plonky2::fri::{FriConfig, FriParams};
use plonky2::hash::hash_types::HashOut;
use plonky2::hash::merkle_tree::{MerkleCap, MerkleTree};
use plonky2::hash::poseidon::PoseidonHash;
use plonky2::iop::challenger::Challenger;
use plonky2::plonk::config::{Hasher, PoseidonGoldilocksConfig};
use plonky2::util::timing::TimingTree;
use plonky2::verif_hooks::knobs::{self, Knobs};
use serde::Deserialize;
use serde_json::{json, Value};

use crate::core::*;

type F = GoldilocksField;
const D: usize = 2;
type C = PoseidonGoldilocksConfig;
type H = PoseidonHash;
type FE = QuadraticExtension<F>;
type Proof = FriProof<F, H, D>;
type Cap = MerkleCap<F, H>;

// ---------------------------------------------------------------------------------------------
// Reference arithmetic in F_p[X]/(X^2 - 7) on canonical u64 pairs.

type E = [u64; 2];
type Dig = [u64; 4];
const W: u64 = 7;
const E0: E = [0, 0];
const E1: E = [1, 0];

fn e_add(a: E, b: E) -> E {
    [addm(a[0], b[0]), addm(a[1], b[1])]
}
fn e_sub(a: E, b: E) -> E {
    [subm(a[0], b[0]), subm(a[1], b[1])]
}
fn e_mul(a: E, b: E) -> E {
    [
        addm(mulm(a[0], b[0]), mulm(W, mulm(a[1], b[1]))),
        addm(mulm(a[0], b[1]), mulm(a[1], b[0])),
    ]
}
fn e_inv(a: E) -> Option<E> {
    // (a0 + a1 X)^-1 = (a0 - a1 X) / (a0^2 - 7 a1^2)
    let norm = subm(mulm(a[0], a[0]), mulm(W, mulm(a[1], a[1])));
    let ni = invm(norm)?;
    Some([mulm(a[0], ni), mulm(negm(a[1]), ni)])
}
fn e_base(x: u64) -> E {
    [x % P, 0]
}
fn e_pow(a: E, n: usize) -> E {
    let mut r = E1;
    for _ in 0..n {
        r = e_mul(r, a);
    }
    r
}
fn fe(e: FE) -> E {
    [e.0[0].to_canonical_u64(), e.0[1].to_canonical_u64()]
}
fn ef(e: E) -> FE {
    QuadraticExtension([F::from_canonical_u64(e[0]), F::from_canonical_u64(e[1])])
}
/// Horner evaluation of a base-field coefficient vector at an extension point.
fn ref_eval_base_poly(coeffs: &[u64], z: E) -> E {
    let mut acc = E0;
    for &c in coeffs.iter().rev() {
        acc = e_add(e_mul(acc, z), e_base(c));
    }
    acc
}
fn rev_bits(x: usize, bits: usize) -> usize {
    let mut r = 0usize;
    for i in 0..bits {
        if (x >> i) & 1 == 1 {
            r |= 1 << (bits - 1 - i);
        }
    }
    r
}
/// coset shift of every LDE domain and the generator of the 2-adic subgroup (library constants,
/// their group-theoretic properties are C14's subject and are re-checked in `constants_ok`).
fn shift_g() -> u64 {
    F::MULTIPLICATIVE_GROUP_GENERATOR.to_canonical_u64()
}
fn omega(bits: usize) -> u64 {
    let g32 = F::POWER_OF_TWO_GENERATOR.to_canonical_u64();
    let mut w = g32;
    for _ in bits..32 {
        w = mulm(w, w);
    }
    w
}
/// The domain point with storage index `idx` in a layer of 2^bits points on the coset `shift * <omega>`.
fn domain_point(shift: u64, bits: usize, idx: usize) -> u64 {
    mulm(shift, powm(omega(bits), rev_bits(idx, bits) as u128))
}

// ---------------------------------------------------------------------------------------------
// Plain views of the statement and of the proof (what the reference verifier reads).

#[derive(Clone, Debug)]
struct RInst {
    oracles: Vec<(usize, bool)>,
    batches: Vec<(E, Vec<(usize, usize)>)>,
}
#[derive(Clone, Debug)]
struct RParams {
    /// degree bits of every instance, strictly decreasing (one entry for plain FRI)
    degree_bits: Vec<usize>,
    rate_bits: usize,
    cap_height: usize,
    pow_bits: u32,
    queries: usize,
    hiding: bool,
    arities: Vec<usize>,
    batch: bool,
}
#[derive(Clone, Debug)]
struct RCh {
    alpha: E,
    betas: Vec<E>,
    pow_response: u64,
    indices: Vec<usize>,
}
struct PRound {
    initial: Vec<(Vec<u64>, Vec<Dig>)>,
    steps: Vec<(Vec<E>, Vec<Dig>)>,
}
struct PProof {
    caps: Vec<Vec<Dig>>,
    rounds: Vec<PRound>,
    final_poly: Vec<E>,
}

fn dig(h: HashOut<F>) -> Dig {
    [
        h.elements[0].to_canonical_u64(),
        h.elements[1].to_canonical_u64(),
        h.elements[2].to_canonical_u64(),
        h.elements[3].to_canonical_u64(),
    ]
}
fn undig(d: Dig) -> HashOut<F> {
    HashOut { elements: [F::from_canonical_u64(d[0]), F::from_canonical_u64(d[1]), F::from_canonical_u64(d[2]), F::from_canonical_u64(d[3])] }
}
fn plain_cap(c: &Cap) -> Vec<Dig> {
    c.0.iter().map(|h| dig(*h)).collect()
}
fn plain_proof(p: &Proof) -> PProof {
    PProof {
        caps: p.commit_phase_merkle_caps.iter().map(plain_cap).collect(),
        rounds: p
            .query_round_proofs
            .iter()
            .map(|r| PRound {
                initial: r
                    .initial_trees_proof
                    .evals_proofs
                    .iter()
                    .map(|(ev, mp)| {
                        (
                            ev.iter().map(|x| x.to_canonical_u64()).collect(),
                            mp.siblings.iter().map(|h| dig(*h)).collect(),
                        )
                    })
                    .collect(),
                steps: r
                    .steps
                    .iter()
                    .map(|s| (s.evals.iter().map(|e| fe(*e)).collect(), s.merkle_proof.siblings.iter().map(|h| dig(*h)).collect()))
                    .collect(),
            })
            .collect(),
        final_poly: p.final_poly.coeffs.iter().map(|e| fe(*e)).collect(),
    }
}
fn plain_ch(c: &FriChallenges<F, D>) -> RCh {
    RCh {
        alpha: fe(c.fri_alpha),
        betas: c.fri_betas.iter().map(|b| fe(*b)).collect(),
        pow_response: c.fri_pow_response.to_canonical_u64(),
        indices: c.fri_query_indices.clone(),
    }
}

fn h_leaf(v: &[u64]) -> Dig {
    let f: Vec<F> = v.iter().map(|x| F::from_canonical_u64(*x)).collect();
    dig(<H as Hasher<F>>::hash_or_noop(&f))
}
fn h_two(l: Dig, r: Dig) -> Dig {
    dig(<H as Hasher<F>>::two_to_one(undig(l), undig(r)))
}

/// Reference Merkle walk. `groups[0]` is the bottom leaf; `groups[k]` (k >= 1) is absorbed when the
/// walk reaches height `heights[k]` (batch trees). Returns Ok(()) iff the recomputed digest equals
/// the cap entry addressed by the remaining index bits.
fn ref_merkle(groups: &[Vec<u64>], heights: &[usize], index: usize, cap: &[Dig], siblings: &[Dig]) -> Result<(), String> {
    let mut digest = h_leaf(&groups[0]);
    let mut height = heights[0] as i64;
    let mut next = 1usize;
    let mut idx = index;
    for s in siblings {
        digest = if idx & 1 == 1 { h_two(*s, digest) } else { h_two(digest, *s) };
        idx >>= 1;
        height -= 1;
        if next < groups.len() && height == heights[next] as i64 {
            let mut v: Vec<u64> = digest.to_vec();
            v.extend_from_slice(&groups[next]);
            digest = h_leaf(&v);
            next += 1;
        }
    }
    if next != groups.len() {
        return Err("merkle:leaf-group-not-absorbed".into());
    }
    if idx >= cap.len() {
        return Err("merkle:cap-index-out-of-range".into());
    }
    if cap[idx] != digest {
        return Err("merkle".into());
    }
    Ok(())
}

fn leading_zero_bits(x: u64) -> u32 {
    let mut n = 0;
    for i in (0..64).rev() {
        if (x >> i) & 1 == 1 {
            break;
        }
        n += 1;
    }
    n
}

/// Σ_b α^(w_b) · ( Σ_i α^i p_{b,i}(x) − Σ_i α^i y_{b,i} ) / (x − z_b),  w_b = Σ_{b' > b} |polys of b'|.
fn ref_combine(inst: &RInst, initial: &[(Vec<u64>, Vec<Dig>)], prm: &RParams, alpha: E, x: u64, openings: &[Vec<E>]) -> Result<E, String> {
    if openings.len() != inst.batches.len() {
        return Err("statement:openings-shape".into());
    }
    let mut sum = E0;
    for (b, (z, polys)) in inst.batches.iter().enumerate() {
        let mut w = 0usize;
        for later in inst.batches.iter().skip(b + 1) {
            w += later.1.len();
        }
        let mut num = E0;
        for (i, (o, p)) in polys.iter().enumerate() {
            let leaf = &initial.get(*o).ok_or("combine:oracle-index")?.0;
            let salted = prm.hiding && inst.oracles[*o].1;
            let keep = if salted { leaf.len().checked_sub(4).ok_or("combine:salt")? } else { leaf.len() };
            if *p >= keep {
                return Err("combine:poly-index".into());
            }
            num = e_add(num, e_mul(e_pow(alpha, i), e_base(leaf[*p])));
        }
        for (i, y) in openings[b].iter().enumerate() {
            num = e_sub(num, e_mul(e_pow(alpha, i), *y));
        }
        let den = e_sub(e_base(x), *z);
        let inv = e_inv(den).ok_or("combine:point-in-domain")?;
        sum = e_add(sum, e_mul(e_pow(alpha, w), e_mul(num, inv)));
    }
    Ok(sum)
}

/// Plain Lagrange interpolation through (pts[j], vals[j]) evaluated at x.
fn ref_lagrange(pts: &[u64], vals: &[E], x: E) -> Result<E, String> {
    let mut acc = E0;
    for j in 0..pts.len() {
        let mut num = E1;
        let mut den = 1u64;
        for m in 0..pts.len() {
            if m != j {
                num = e_mul(num, e_sub(x, e_base(pts[m])));
                den = mulm(den, subm(pts[j], pts[m]));
            }
        }
        let di = invm(den).ok_or("lagrange:repeated-point")?;
        acc = e_add(acc, e_mul(vals[j], e_mul(num, e_base(di))));
    }
    Ok(acc)
}

/// The naive FRI verifier (plain and batch). `strict_caps` demands exactly one commit-phase cap per
/// reduction layer (the specification); with `false` surplus caps are ignored.
fn naive_verify(
    insts: &[RInst],
    openings: &[Vec<Vec<E>>],
    ch: &RCh,
    init_caps: &[Vec<Dig>],
    proof: &PProof,
    prm: &RParams,
    strict_caps: bool,
) -> Result<(), String> {
    let d0 = prm.degree_bits[0];
    let lde_bits = d0 + prm.rate_bits;
    let total: usize = prm.arities.iter().sum();
    if total > d0 || insts.len() != prm.degree_bits.len() || openings.len() != insts.len() {
        return Err("statement:params".into());
    }
    // ---- shape
    if strict_caps && proof.caps.len() != prm.arities.len() {
        return Err("shape:num-commit-caps".into());
    }
    if proof.caps.len() < prm.arities.len() {
        return Err("shape:num-commit-caps".into());
    }
    for c in &proof.caps {
        if c.len() != 1 << prm.cap_height {
            return Err("shape:cap-len".into());
        }
    }
    let n_or = insts[0].oracles.len();
    if insts.iter().any(|i| i.oracles.len() != n_or) || init_caps.len() != n_or {
        return Err("statement:oracle-count".into());
    }
    let mut leaf_len = vec![0usize; n_or];
    for inst in insts {
        for (o, (np, bl)) in inst.oracles.iter().enumerate() {
            leaf_len[o] += np + if *bl && prm.hiding { 4 } else { 0 };
        }
    }
    for r in &proof.rounds {
        if r.initial.len() != n_or {
            return Err("shape:oracle-count".into());
        }
        for (o, (leaf, sib)) in r.initial.iter().enumerate() {
            if leaf.len() != leaf_len[o] {
                return Err("shape:leaf-len".into());
            }
            if sib.len() + prm.cap_height != lde_bits {
                return Err("shape:initial-path-len".into());
            }
        }
        if r.steps.len() != prm.arities.len() {
            return Err("shape:num-steps".into());
        }
        let mut bits = lde_bits;
        for ((evals, sib), a) in r.steps.iter().zip(&prm.arities) {
            bits -= a;
            if evals.len() != 1 << a {
                return Err("shape:step-evals".into());
            }
            if sib.len() + prm.cap_height != bits {
                return Err("shape:step-path-len".into());
            }
        }
    }
    if proof.final_poly.len() != 1 << (d0 - total) {
        return Err("shape:final-poly-len".into());
    }
    // ---- proof of work
    if leading_zero_bits(ch.pow_response) < prm.pow_bits {
        return Err("pow".into());
    }
    if proof.rounds.len() != prm.queries {
        return Err("num-query-rounds".into());
    }
    if ch.indices.len() != prm.queries || ch.betas.len() < prm.arities.len() {
        return Err("statement:challenge-shape".into());
    }
    // ---- queries
    let g = shift_g();
    for (q, r) in proof.rounds.iter().enumerate() {
        let x_index = ch.indices[q];
        if x_index >> lde_bits != 0 {
            return Err("statement:index-range".into());
        }
        for (o, (leaf, sib)) in r.initial.iter().enumerate() {
            if prm.batch {
                let mut groups = Vec::new();
                let mut heights = Vec::new();
                let mut off = 0;
                for (k, inst) in insts.iter().enumerate() {
                    let np = inst.oracles[o].0;
                    if off + np > leaf.len() {
                        return Err("shape:leaf-len".into());
                    }
                    groups.push(leaf[off..off + np].to_vec());
                    heights.push(prm.degree_bits[k] + prm.rate_bits);
                    off += np;
                }
                ref_merkle(&groups, &heights, x_index, &init_caps[o], sib).map_err(|e| format!("initial-{e}"))?;
            } else {
                ref_merkle(&[leaf.clone()], &[sib.len()], x_index, &init_caps[o], sib).map_err(|e| format!("initial-{e}"))?;
            }
        }
        let x = domain_point(g, lde_bits, x_index);
        let mut old = ref_combine(&insts[0], &r.initial, prm, ch.alpha, x, &openings[0])?;
        let mut next_inst = 1usize;
        let mut bits = lde_bits;
        let mut idx = x_index;
        let mut shift = g;
        for (i, &a) in prm.arities.iter().enumerate() {
            let (evals, sib) = &r.steps[i];
            let arity = 1usize << a;
            let coset = idx >> a;
            let within = idx & (arity - 1);
            if evals[within] != old {
                return Err("fold-consistency".into());
            }
            let pts: Vec<u64> = (0..arity).map(|j| domain_point(shift, bits, (coset << a) | j)).collect();
            let val = ref_lagrange(&pts, evals, ch.betas[i])?;
            let mut flat = Vec::with_capacity(2 * arity);
            for e in evals {
                flat.push(e[0]);
                flat.push(e[1]);
            }
            ref_merkle(&[flat], &[sib.len()], coset, &proof.caps[i], sib).map_err(|e| format!("layer-{e}"))?;
            for _ in 0..a {
                shift = mulm(shift, shift);
            }
            bits -= a;
            idx = coset;
            old = val;
            if prm.batch && next_inst < insts.len() && bits == prm.degree_bits[next_inst] + prm.rate_bits {
                // the lower-degree instance lives on the coset g*<omega_bits> of its own commitment
                let xi = domain_point(g, bits, idx);
                let e = ref_combine(&insts[next_inst], &r.initial, prm, ch.alpha, xi, &openings[next_inst])?;
                old = e_add(e_mul(old, ch.betas[i]), e);
                next_inst += 1;
            }
        }
        if next_inst != insts.len() {
            return Err("batch:instance-not-folded".into());
        }
        let y = e_base(domain_point(shift, bits, idx));
        let mut acc = E0;
        for c in proof.final_poly.iter().rev() {
            acc = e_add(e_mul(acc, y), *c);
        }
        if acc != old {
            return Err("final-poly".into());
        }
    }
    Ok(())
}

fn constants_ok(ctx: &Ctx) -> bool {
    let mut ok = true;
    if <F as Extendable<2>>::W.to_canonical_u64() != W {
        ctx.machinery_error("extension non-residue is not 7");
        ok = false;
    }
    for bits in 0..=12usize {
        let w = omega(bits);
        let full = powm(w, 1u128 << bits) == 1;
        let half = bits == 0 || powm(w, 1u128 << (bits - 1)) != 1;
        if !full || !half || w != F::primitive_root_of_unity(bits).to_canonical_u64() {
            ctx.machinery_error(format!("omega({bits}) is not a primitive 2^{bits}-th root"));
            ok = false;
        }
    }
    // the coset shift must lie outside every 2-adic subgroup used
    if powm(shift_g(), 1u128 << 32) == 1 {
        ctx.machinery_error("coset shift lies in the 2-adic subgroup");
        ok = false;
    }
    ok
}

// ---------------------------------------------------------------------------------------------
// Driver side: scenarios, honest and adversarial provers, implementation verdicts.

#[derive(Clone, Debug)]
struct Tuple {
    rate: usize,
    cap: usize,
    strat: FriReductionStrategy,
    q: usize,
    pow: u32,
}
use FriReductionStrategy::{ConstantArityBits as Cab, Fixed, MinSize};

/// Parameter tuples for plain FRI. The first nine are the quick tier's.
fn tuples() -> Vec<Tuple> {
    let t = |rate, cap, strat, q, pow| Tuple { rate, cap, strat, q, pow };
    vec![
        t(1, 0, Cab(1, 0), 1, 0),
        t(1, 1, Cab(2, 1), 2, 1),
        t(2, 0, Fixed(vec![]), 2, 0),
        t(2, 2, Fixed(vec![1, 1]), 3, 2),
        t(1, 0, Cab(3, 0), 2, 0),
        t(3, 1, Cab(1, 0), 14, 3),
        t(0, 0, Cab(1, 0), 2, 0),
        t(1, 0, Cab(1, 1), 2, 0),
        t(1, 2, Fixed(vec![2]), 2, 0), // d=3: 16-point LDE folded by 4 -> 4 leaves = 2^cap: empty path (D8)
        t(1, 0, Fixed(vec![2, 1]), 2, 0),
        t(1, 0, Fixed(vec![1, 2]), 2, 0),
        t(2, 3, Cab(1, 2), 2, 4),
        t(1, 0, MinSize(Some(2)), 28, 0),
        t(4, 0, Cab(4, 0), 10, 0),
    ]
}
/// Parameter tuples for batch FRI (the schedule has to land on every instance's size).
fn batch_tuples() -> Vec<Tuple> {
    let t = |rate, cap, strat, q, pow| Tuple { rate, cap, strat, q, pow };
    vec![
        t(1, 0, Cab(1, 0), 1, 0),
        t(1, 1, Fixed(vec![1, 1]), 2, 1),
        t(2, 0, Fixed(vec![1, 1, 1]), 14, 0),
        t(1, 0, Fixed(vec![2, 1]), 2, 0),
        t(3, 2, Cab(1, 1), 14, 2),
        t(1, 2, Fixed(vec![2]), 2, 0), // degs [3,1]: first layer has 4 leaves = 2^cap: empty path (D8)
    ]
}
fn strat_name(s: &FriReductionStrategy) -> String {
    match s {
        Fixed(v) => format!("F{}", v.iter().map(|x| x.to_string()).collect::<Vec<_>>().join("")),
        Cab(a, f) => format!("C{a}.{f}"),
        MinSize(None) => "Mn".into(),
        MinSize(Some(m)) => format!("M{m}"),
    }
}
fn tuple_name(t: &Tuple) -> String {
    format!("r{}c{}{}q{}w{}", t.rate, t.cap, strat_name(&t.strat), t.q, t.pow)
}

const ZETA: E = [0x1234567, 0x89ab_cdef];
const ETA: E = [11, 13];
const BASE_PT: E = [5, 0];

fn family_coeffs(fam: usize, n: usize, gi: usize) -> Vec<u64> {
    match fam {
        0 => vec![0; n],
        1 => {
            let mut v = vec![0; n];
            v[0] = 5 + gi as u64;
            v
        }
        2 => {
            let mut v = vec![0; n];
            v[n - 1] = 1;
            v
        }
        3 => vec![P - 1; n],
        4 => dense_vec(n, 0xC05 + 977 * gi as u64),
        _ => family_coeffs(gi % 5, n, gi),
    }
}

/// Everything needed to run one (plain or batch) FRI opening protocol instance.
#[derive(Clone)]
struct Setup {
    key: String,
    batch: bool,
    degs: Vec<usize>,
    tuple: Tuple,
    polys: Vec<Vec<Vec<u64>>>,
    blinding: Vec<bool>,
    insts: Vec<RInst>,
    seed: u64,
    /// all committed polynomials are dense pseudo-random vectors. Only then are the Merkle paths of
    /// different positions distinct, which the transcript-bound "must be rejected once the query
    /// indices move" expectation relies on (for a constant polynomial every path opens everywhere).
    dense: bool,
}

#[derive(Clone, Debug)]
struct Scen {
    shape: Vec<(usize, bool)>,
    d: usize,
    open: usize,
    t: usize,
    fam: usize,
}
fn shape_name(s: &[(usize, bool)]) -> String {
    s.iter().map(|(n, b)| format!("{}{}", n, if *b { "b" } else { "" })).collect::<Vec<_>>().join(".")
}
fn scen_setup(s: &Scen, seed: u64) -> Setup {
    let tuple = tuples()[s.t].clone();
    let n = 1usize << s.d;
    let mut polys = Vec::new();
    let mut all = Vec::new();
    let mut gi = 0;
    for (o, (np, _)) in s.shape.iter().enumerate() {
        let mut v = Vec::new();
        for p in 0..*np {
            v.push(family_coeffs(s.fam, n, gi));
            all.push((o, p));
            gi += 1;
        }
        polys.push(v);
    }
    let last_o = s.shape.len() - 1;
    let of_oracle = |o: usize| -> Vec<(usize, usize)> { all.iter().copied().filter(|x| x.0 == o).collect() };
    let gz = e_mul(ZETA, e_base(omega(s.d)));
    let batches = match s.open {
        0 => vec![(ZETA, all.clone())],
        1 => vec![(ZETA, all.clone()), (gz, of_oracle(last_o))],
        2 => vec![(ZETA, all.clone()), (gz, of_oracle(0)), (ETA, vec![*all.last().unwrap()])],
        3 => {
            if all.len() == 1 {
                vec![(ZETA, all.clone()), (ETA, all.clone())]
            } else {
                vec![(ZETA, all[..all.len() - 1].to_vec()), (ETA, vec![all[0]])]
            }
        }
        _ => vec![(BASE_PT, all.clone()), (ETA, vec![])],
    };
    Setup {
        key: format!("s{};d{};o{};t{};f{}", shape_name(&s.shape), s.d, s.open, s.t, s.fam),
        batch: false,
        degs: vec![s.d],
        tuple,
        polys,
        blinding: s.shape.iter().map(|x| x.1).collect(),
        insts: vec![RInst { oracles: s.shape.clone(), batches }],
        seed,
        dense: s.fam == 4,
    }
}

#[derive(Clone, Debug)]
struct BScen {
    degs: Vec<usize>,
    per: Vec<usize>,
    n_or: usize,
    open: usize,
    t: usize,
    fam: usize,
}
fn bscen_setup(s: &BScen, seed: u64) -> Setup {
    let tuple = batch_tuples()[s.t].clone();
    let mut polys = Vec::new();
    let mut gi = 0;
    for _o in 0..s.n_or {
        let mut v = Vec::new();
        for (k, d) in s.degs.iter().enumerate() {
            for _ in 0..s.per[k] {
                v.push(family_coeffs(s.fam, 1 << d, gi));
                gi += 1;
            }
        }
        polys.push(v);
    }
    let mut insts = Vec::new();
    let mut off = 0;
    for k in 0..s.degs.len() {
        let mut all = Vec::new();
        for o in 0..s.n_or {
            for j in 0..s.per[k] {
                all.push((o, off + j));
            }
        }
        let batches = if s.open == 0 { vec![(ZETA, all.clone())] } else { vec![(ZETA, all.clone()), (ETA, vec![all[0]])] };
        insts.push(RInst { oracles: vec![(s.per[k], false); s.n_or], batches });
        off += s.per[k];
    }
    Setup {
        key: format!(
            "B{};p{};n{};o{};t{};f{}",
            s.degs.iter().map(|x| x.to_string()).collect::<Vec<_>>().join("."),
            s.per.iter().map(|x| x.to_string()).collect::<Vec<_>>().join("."),
            s.n_or,
            s.open,
            s.t,
            s.fam
        ),
        batch: true,
        degs: s.degs.clone(),
        tuple,
        polys,
        blinding: vec![false; s.n_or],
        insts,
        seed,
        dense: s.fam == 4,
    }
}

#[derive(Clone, Debug, PartialEq)]
enum Mode {
    Honest,
    /// D1: claimed opening (instance, batch, position, component) is off by one; transcript consistent
    FalseOpening(usize, usize, usize, usize),
    /// D2: as D1 (component 0) and the prover commits to the function the verifier reconstructs
    AdvFirstLayer(usize, usize),
    /// D3: polynomial (0,0) gets an extra unit coefficient at this index (>= 2^d)
    HighDeg(usize),
    /// D4: the real prover emits this proof-of-work witness
    PowKnob(u64),
}

struct Run {
    batch: bool,
    degs: Vec<usize>,
    params: FriParams,
    instances: Vec<FriInstanceInfo<F, D>>,
    open_vals: Vec<Vec<Vec<E>>>,
    caps: Vec<Cap>,
    proof: Proof,
    challenges: FriChallenges<F, D>,
    /// verifier transcript right before `fri_challenges`
    vch: Challenger<F, H>,
    rinsts: Vec<RInst>,
    rprm: RParams,
    in_sync: bool,
}

fn to_openings(v: &[Vec<E>]) -> FriOpenings<F, D> {
    FriOpenings { batches: v.iter().map(|b| FriOpeningBatch { values: b.iter().map(|e| ef(*e)).collect() }).collect() }
}
fn to_instance(r: &RInst) -> FriInstanceInfo<F, D> {
    FriInstanceInfo {
        oracles: r.oracles.iter().map(|(n, b)| FriOracleInfo { num_polys: *n, blinding: *b }).collect(),
        batches: r
            .batches
            .iter()
            .map(|(z, ps)| FriBatchInfo {
                point: ef(*z),
                polynomials: ps.iter().map(|(o, p)| FriPolynomialInfo { oracle_index: *o, polynomial_index: *p }).collect(),
            })
            .collect(),
    }
}
fn fpoly(c: &[u64]) -> PolynomialCoeffs<F> {
    PolynomialCoeffs::new(c.iter().map(|x| F::from_canonical_u64(*x)).collect())
}

/// own admissibility predicate: the schedule fits the degree and no committed layer is smaller than the cap
fn admissible(d: usize, rate: usize, cap: usize, arities: &[usize]) -> bool {
    let mut bits = (d + rate) as i64;
    let mut deg = d as i64;
    if bits < cap as i64 {
        return false;
    }
    for a in arities {
        bits -= *a as i64;
        deg -= *a as i64;
        if *a == 0 || deg < 0 || bits < cap as i64 {
            return false;
        }
    }
    true
}

/// A prover built from the library's public parts that follows `prove_openings` but accepts
/// over-long coefficient vectors (D3) and can shift the first layer to the function the verifier
/// reconstructs from a false opening (D2).
fn adv_prove(
    inst: &RInst,
    polys: &[Vec<Vec<u64>>],
    trees: &[&MerkleTree<F, H>],
    ch: &mut Challenger<F, H>,
    params: &FriParams,
    tweak: Option<(usize, usize)>,
) -> Result<Proof, String> {
    let alpha = ch.get_extension_challenge::<D>();
    let mut acc: Vec<FE> = Vec::new();
    for (z, ps) in &inst.batches {
        let mut comp: Vec<FE> = Vec::new();
        let mut ap = FE::ONE;
        for (o, p) in ps {
            let c = &polys[*o][*p];
            if comp.len() < c.len() {
                comp.resize(c.len(), FE::ZERO);
            }
            for (i, x) in c.iter().enumerate() {
                comp[i] += ap * FE::from(F::from_canonical_u64(*x));
            }
            ap *= alpha;
        }
        let mut quot = PolynomialCoeffs::new(comp).divide_by_linear(ef(*z)).coeffs;
        quot.push(FE::ZERO);
        for c in acc.iter_mut() {
            *c *= ap; // alpha^(number of polynomials of this batch)
        }
        if acc.len() < quot.len() {
            acc.resize(quot.len(), FE::ZERO);
        }
        for (i, c) in quot.iter().enumerate() {
            acc[i] += *c;
        }
    }
    let n = params.lde_size();
    if acc.len() > n {
        return Err("adv: function does not fit the LDE domain".into());
    }
    acc.resize(n, FE::ZERO);
    let shift: FE = F::coset_shift().into();
    let mut coeffs = PolynomialCoeffs::new(acc);
    let mut values = coeffs.coset_fft(shift);
    if let Some((b, i)) = tweak {
        let mut w = 0;
        for later in inst.batches.iter().skip(b + 1) {
            w += later.1.len();
        }
        // claimed y' = y + 1, so the verifier's function is ours minus alpha^(w+i) / (x - z_b)
        let delta = -alpha.exp_u64((w + i) as u64);
        let zb = ef(inst.batches[b].0);
        let om = F::primitive_root_of_unity(params.lde_bits());
        let mut x = F::coset_shift();
        for v in values.values.iter_mut() {
            *v += delta * (FE::from(x) - zb).inverse();
            x *= om;
        }
        coeffs = values.clone().coset_ifft(shift);
    }
    let mut timing = TimingTree::default();
    Ok(fri_proof::<F, C, D>(trees, coeffs, values, ch, params, None, None, &mut timing))
}

fn run_setup(su: &Setup, mode: &Mode) -> Result<Run, String> {
    let t = &su.tuple;
    let hiding = su.blinding.iter().any(|b| *b);
    let d0 = su.degs[0];
    let config = FriConfig { rate_bits: t.rate, cap_height: t.cap, proof_of_work_bits: t.pow, reduction_strategy: t.strat.clone(), num_query_rounds: t.q };
    let params = guarded(|| config.fri_params(d0, hiding)).map_err(|e| format!("inadmissible: schedule panics: {e}"))?;
    if !admissible(d0, t.rate, t.cap, &params.reduction_arity_bits) {
        return Err("inadmissible".into());
    }
    if su.batch {
        // every instance size must be hit by the schedule and must not be below the cap
        let mut bits = d0;
        let mut k = 1;
        for a in &params.reduction_arity_bits {
            bits -= a;
            if k < su.degs.len() && bits == su.degs[k] {
                k += 1;
            }
        }
        if k != su.degs.len() || su.degs.iter().any(|d| d + t.rate < t.cap) {
            return Err("inadmissible".into());
        }
    }
    let mut polys = su.polys.clone();
    let mut timing = TimingTree::default();
    plonky2_field::verif_hooks::set_seed(Some(su.seed));
    knobs::reset();
    let mut plain_oracles: Vec<PolynomialBatch<F, C, D>> = Vec::new();
    let mut batch_oracles: Vec<BatchFriOracle<F, C, D>> = Vec::new();
    if su.batch {
        for ps in &polys {
            let v: Vec<_> = ps.iter().map(|c| fpoly(c)).collect();
            let n = v.len();
            batch_oracles.push(BatchFriOracle::from_coeffs(v, t.rate, false, t.cap, &mut timing, &vec![None; n]));
        }
    } else {
        for (o, ps) in polys.iter_mut().enumerate() {
            let mut rate = t.rate;
            if o == 0 {
                if let Mode::HighDeg(extra) = mode {
                    if t.rate == 0 {
                        return Err("inadmissible".into());
                    }
                    for c in ps.iter_mut() {
                        c.resize(2 << d0, 0);
                    }
                    ps[0][*extra] = addm(ps[0][*extra], 1);
                    rate -= 1;
                }
            }
            let v: Vec<_> = ps.iter().map(|c| fpoly(c)).collect();
            plain_oracles.push(PolynomialBatch::from_coeffs(v, rate, su.blinding[o], t.cap, &mut timing, None));
        }
    }
    let caps: Vec<Cap> = if su.batch {
        batch_oracles.iter().map(|o| o.batch_merkle_tree.cap.clone()).collect()
    } else {
        plain_oracles.iter().map(|o| o.merkle_tree.cap.clone()).collect()
    };
    // claimed openings: the true evaluations (own Horner), possibly with one false value
    let mut open_vals: Vec<Vec<Vec<E>>> = su
        .insts
        .iter()
        .map(|inst| inst.batches.iter().map(|(z, ps)| ps.iter().map(|(o, p)| ref_eval_base_poly(&polys[*o][*p], *z)).collect()).collect())
        .collect();
    match mode {
        Mode::FalseOpening(k, b, i, c) => open_vals[*k][*b][*i][*c] = addm(open_vals[*k][*b][*i][*c], 1),
        Mode::AdvFirstLayer(b, i) => open_vals[0][*b][*i][0] = addm(open_vals[0][*b][*i][0], 1),
        _ => {}
    }
    let instances: Vec<_> = su.insts.iter().map(to_instance).collect();
    let mut ch = Challenger::<F, H>::new();
    for c in &caps {
        ch.observe_cap::<H>(c);
    }
    for ov in &open_vals {
        ch.observe_openings(&to_openings(ov));
    }
    let vch = ch.clone();
    if let Mode::PowKnob(w) = mode {
        knobs::set(Knobs { pow_witness: Some(*w), ..Knobs::default() });
    }
    let proved = guarded(|| -> Result<Proof, String> {
        if su.batch {
            let refs: Vec<_> = batch_oracles.iter().collect();
            Ok(BatchFriOracle::prove_openings(&su.degs, &instances, &refs, &mut ch, &params, &mut timing))
        } else {
            match mode {
                Mode::AdvFirstLayer(b, i) => {
                    let trees: Vec<_> = plain_oracles.iter().map(|o| &o.merkle_tree).collect();
                    adv_prove(&su.insts[0], &polys, &trees, &mut ch, &params, Some((*b, *i)))
                }
                Mode::HighDeg(_) => {
                    let trees: Vec<_> = plain_oracles.iter().map(|o| &o.merkle_tree).collect();
                    adv_prove(&su.insts[0], &polys, &trees, &mut ch, &params, None)
                }
                _ => {
                    let refs: Vec<_> = plain_oracles.iter().collect();
                    Ok(PolynomialBatch::prove_openings(&instances[0], &refs, &mut ch, &params, None, None, &mut timing))
                }
            }
        }
    });
    knobs::reset();
    plonky2_field::verif_hooks::set_seed(None);
    let proof = match proved {
        Ok(Ok(p)) => p,
        Ok(Err(e)) => return Err(format!("inadmissible: {e}")),
        Err(p) => return Err(format!("prover panicked: {p}")),
    };
    let mut v2 = vch.clone();
    let challenges = v2.fri_challenges::<C, D>(&proof.commit_phase_merkle_caps, &proof.final_poly, proof.pow_witness, d0, &params.config, None, None);
    let in_sync = ch.get_challenge() == v2.get_challenge();
    let rprm = RParams {
        degree_bits: su.degs.clone(),
        rate_bits: t.rate,
        cap_height: t.cap,
        pow_bits: t.pow,
        queries: t.q,
        hiding,
        arities: params.reduction_arity_bits.clone(),
        batch: su.batch,
    };
    Ok(Run { batch: su.batch, degs: su.degs.clone(), params, instances, open_vals, caps, proof, challenges, vch, rinsts: su.insts.clone(), rprm, in_sync })
}

#[derive(Clone, Debug, PartialEq)]
enum V {
    Accept,
    Reject(String),
    Panic(String),
}
impl V {
    fn accepted(&self) -> bool {
        *self == V::Accept
    }
    fn class(&self) -> String {
        match self {
            V::Accept => "accept".into(),
            V::Reject(m) => format!("reject[{}]", short_reason(m)),
            V::Panic(m) => format!("panic[{}]", short_reason(m)),
        }
    }
}
fn short_reason(m: &str) -> String {
    let m = m.replace("Condition failed: ", "");
    let m: String = m.chars().filter(|c| !c.is_ascii_digit()).collect();
    truncate(&m, 60)
}

/// The implementation's verdict for (statement, challenges, proof).
fn impl_verify(run: &Run, params: &FriParams, open_vals: &[Vec<Vec<E>>], ch: &FriChallenges<F, D>, caps: &[Cap], proof: &Proof) -> V {
    let r = guarded(|| {
        if run.batch {
            let ops: Vec<_> = open_vals.iter().map(|o| to_openings(o)).collect();
            verify_batch_fri_proof::<F, C, D>(&run.degs, &run.instances, &ops, ch, caps, proof, params)
        } else {
            verify_fri_proof::<F, C, D>(&run.instances[0], &to_openings(&open_vals[0]), ch, caps, proof, params)
        }
    });
    match r {
        Ok(Ok(())) => V::Accept,
        Ok(Err(e)) => V::Reject(e.to_string()),
        Err(p) => V::Panic(p),
    }
}
fn ref_verify(run: &Run, rprm: &RParams, open_vals: &[Vec<Vec<E>>], ch: &FriChallenges<F, D>, caps: &[Cap], proof: &Proof, strict: bool) -> Result<(), String> {
    let pc: Vec<Vec<Dig>> = caps.iter().map(plain_cap).collect();
    naive_verify(&run.rinsts, open_vals, &plain_ch(ch), &pc, &plain_proof(proof), rprm, strict)
}

/// Compare the two verdicts for one explored proof. Returns the observation class, or the mismatch.
/// A surplus commit-phase cap that the implementation ignores under fixed challenges is a shape
/// laxity that belongs to C18 (robustness of shape validation); it is classified, not failed.
fn compare(ctx: &Ctx, tag: &str, run: &Run, rprm: &RParams, params: &FriParams, open_vals: &[Vec<Vec<E>>], ch: &FriChallenges<F, D>, caps: &[Cap], proof: &Proof) -> Result<(V, String), String> {
    let iv = impl_verify(run, params, open_vals, ch, caps, proof);
    let rv = ref_verify(run, rprm, open_vals, ch, caps, proof, true);
    ctx.transition(1);
    ctx.trace(1);
    if let V::Panic(m) = &iv {
        ctx.count(&format!("panic:{}", short_reason(m)), 1);
    }
    let rs = match &rv {
        Ok(()) => "accept".to_string(),
        Err(e) => format!("reject[{e}]"),
    };
    if iv.accepted() == rv.is_ok() {
        return Ok((iv.clone(), format!("{tag}:impl={}:ref={}", iv.class(), rs)));
    }
    if iv.accepted() && ref_verify(run, rprm, open_vals, ch, caps, proof, false).is_ok() {
        ctx.count("surplus_commit_cap_ignored_by_impl", 1);
        return Ok((iv, format!("{tag}:impl=accept:ref=reject-only-for-surplus-commit-cap")));
    }
    Err(format!("verdicts differ: implementation {} / reference {}", iv.class(), rs))
}

// ---------------------------------------------------------------------------------------------
// Part 1: the arity-schedule parameter function on its complete small domain.

fn all_strategies() -> Vec<FriReductionStrategy> {
    let mut v = vec![Fixed(vec![])];
    let mut level: Vec<Vec<usize>> = vec![vec![]];
    for _ in 0..4 {
        let mut next = Vec::new();
        for pre in &level {
            for a in 1..=4usize {
                let mut x = pre.clone();
                x.push(a);
                v.push(Fixed(x.clone()));
                next.push(x);
            }
        }
        level = next;
    }
    for a in 1..=5 {
        for f in 0..=6 {
            v.push(Cab(a, f));
        }
    }
    v.push(MinSize(None));
    for m in 1..=5 {
        v.push(MinSize(Some(m)));
    }
    v
}

/// documented size estimate of reduction_strategies.rs, re-stated
fn proof_size_estimate(d: usize, r: usize, q: usize, ar: &[usize]) -> u128 {
    let mut bits = (d + r) as u128;
    let mut total = 0u128;
    for a in ar {
        total += ((1u128 << a) - 1) * 4 * q as u128;
        total += bits * 4 * q as u128;
        bits -= *a as u128;
    }
    total + 4 * (1u128 << (bits - r as u128))
}
/// optimum over ALL schedules with 1 <= arity <= max and sum <= d, by dynamic programming
fn min_size_optimum(d: usize, r: usize, q: usize, max: usize) -> u128 {
    let mut best = vec![0u128; d + 1];
    for rem in 0..=d {
        let mut b = 4 * (1u128 << rem);
        for a in 1..=max.min(rem) {
            let c = ((1u128 << a) - 1) * 4 * q as u128 + ((rem + r) as u128) * 4 * q as u128 + best[rem - a];
            if c < b {
                b = c;
            }
        }
        best[rem] = b;
    }
    best[d]
}
/// ConstantArityBits in signed arithmetic. Err(underflow) = the library's documented
/// `assert!(degree_bits >= arity_bits)` (or, with overflow checks, the subtraction) fires.
fn cab_reference(d: usize, r: usize, c: usize, a: usize, f: usize) -> Result<Vec<usize>, bool> {
    let (mut cur, r, c, a, f) = (d as i64, r as i64, c as i64, a as i64, f as i64);
    let mut out = Vec::new();
    while cur > f {
        let room = cur + r - a;
        if room >= 0 && room < c {
            break;
        }
        if cur < a {
            return Err(room < 0);
        }
        cur -= a;
        out.push(a as usize);
    }
    Ok(out)
}

fn param_domain(ctx: &Ctx) {
    let strategies = all_strategies();
    let max_d = 20usize;
    let queries = [1usize, 2, 8, 28, 84];
    let n = strategies.len() * (max_d + 1);
    par_for(n, |k| {
        let s = &strategies[k / (max_d + 1)];
        let d = k % (max_d + 1);
        let case = format!("par|{}|d{}", strat_name(s), d);
        ctx.case("params/reduction_arity_bits", &case, || {
            let mut classes: std::collections::BTreeMap<&'static str, u64> = Default::default();
            for r in 0..=5usize {
                for c in 0..=8usize {
                    for &q in &queries {
                        ctx.tick(1);
                        let got = guarded(|| s.reduction_arity_bits(d, r, c, q));
                        let tup = format!("d={d} r={r} c={c} q={q}");
                        let ar = match (s, got) {
                            (Fixed(v), Ok(ar)) => {
                                if &ar != v {
                                    return Err(format!("{tup}: Fixed returned {ar:?}"));
                                }
                                ar
                            }
                            (Fixed(_), Err(p)) => return Err(format!("{tup}: Fixed panicked: {p}")),
                            (Cab(a, f), got) => match (cab_reference(d, r, c, *a, *f), got) {
                                (Ok(exp), Ok(ar)) => {
                                    if exp != ar {
                                        return Err(format!("{tup}: ConstantArityBits returned {ar:?}, expected {exp:?}"));
                                    }
                                    let mut bits = (d + r) as i64;
                                    let mut deg = d as i64;
                                    for x in &ar {
                                        bits -= *x as i64;
                                        deg -= *x as i64;
                                        if bits < c as i64 || deg < 0 {
                                            return Err(format!("{tup}: schedule {ar:?} folds below the cap or the degree"));
                                        }
                                    }
                                    ar
                                }
                                (Err(underflow), Err(_)) => {
                                    *classes.entry(if underflow { "cab:assert-fires(guard-underflows)" } else { "cab:assert-fires" }).or_default() += 1;
                                    continue;
                                }
                                (Ok(exp), Err(p)) => return Err(format!("{tup}: panicked ({p}), expected {exp:?}")),
                                (Err(_), Ok(ar)) => return Err(format!("{tup}: returned {ar:?} where the documented assert should fire")),
                            },
                            (MinSize(m), Ok(ar)) => {
                                let max = m.unwrap_or(4);
                                let sum: usize = ar.iter().sum();
                                if sum > d || ar.iter().any(|x| *x < 1 || *x > max) {
                                    return Err(format!("{tup}: MinSize returned {ar:?}"));
                                }
                                if proof_size_estimate(d, r, q, &ar) == min_size_optimum(d, r, q, max) {
                                    *classes.entry("minsize:optimal").or_default() += 1;
                                } else {
                                    *classes.entry("minsize:suboptimal").or_default() += 1;
                                }
                                ar
                            }
                            (MinSize(_), Err(p)) => return Err(format!("{tup}: MinSize panicked: {p}")),
                        };
                        let sum: usize = ar.iter().sum();
                        // the circuit builder's admissibility assert (the stated contract for Fixed / MinSize)
                        let builder_ok = (sum as i64) <= d as i64 + r as i64 - c as i64;
                        if sum > d {
                            *classes.entry("sum>degree_bits:final_poly_len-undefined").or_default() += 1;
                            continue;
                        }
                        *classes.entry(if builder_ok { "admissible" } else { "builder-assert-fires" }).or_default() += 1;
                        let cfg = FriConfig { rate_bits: r, cap_height: c, proof_of_work_bits: 0, reduction_strategy: s.clone(), num_query_rounds: q };
                        let prm = cfg.fri_params(d, false);
                        if prm.reduction_arity_bits != ar
                            || prm.total_arities() != sum
                            || prm.final_poly_bits() != d - sum
                            || prm.final_poly_len() != 1usize << (d - sum)
                            || prm.lde_bits() != d + r
                            || prm.lde_size() != 1usize << (d + r)
                            || plonky2::fri::prover::final_poly_coeff_len(d, &ar) != 1usize << (d - sum)
                        {
                            return Err(format!("{tup}: FriParams accessors disagree with schedule {ar:?}"));
                        }
                    }
                }
            }
            let kind = match s {
                Fixed(_) => "Fixed",
                Cab(..) => "ConstantArityBits",
                MinSize(_) => "MinSize",
            };
            let mut cls = format!("params:{kind}");
            for (k, v) in &classes {
                ctx.count(&format!("params:{kind}:{k}"), *v);
                cls.push_str(&format!(":{k}"));
            }
            ctx.state(1);
            Ok(cls)
        });
    });
}

// ---------------------------------------------------------------------------------------------
// Tamper engine on the serde_json image of a FriProof.

fn leaf_pointers(v: &Value, path: &mut String, out: &mut Vec<String>) {
    match v {
        Value::Number(_) => out.push(path.clone()),
        Value::Array(a) => {
            for (i, x) in a.iter().enumerate() {
                let l = path.len();
                path.push_str(&format!("/{i}"));
                leaf_pointers(x, path, out);
                path.truncate(l);
            }
        }
        Value::Object(m) => {
            for (k, x) in m {
                let l = path.len();
                path.push_str(&format!("/{k}"));
                leaf_pointers(x, path, out);
                path.truncate(l);
            }
        }
        _ => {}
    }
}
fn array_pointers(v: &Value, path: &mut String, out: &mut Vec<String>) {
    match v {
        Value::Array(a) => {
            out.push(path.clone());
            for (i, x) in a.iter().enumerate() {
                let l = path.len();
                path.push_str(&format!("/{i}"));
                array_pointers(x, path, out);
                path.truncate(l);
            }
        }
        Value::Object(m) => {
            for (k, x) in m {
                let l = path.len();
                path.push_str(&format!("/{k}"));
                array_pointers(x, path, out);
                path.truncate(l);
            }
        }
        _ => {}
    }
}
fn edit_leaf(val: &Value, ptr: &str) -> Result<Proof, String> {
    let mut v = val.clone();
    let leaf = v.pointer_mut(ptr).ok_or("no such leaf")?;
    let x = leaf.as_u64().ok_or("leaf is not a u64")?;
    *leaf = json!(addm(x, 1));
    Proof::deserialize(&v).map_err(|e| format!("edited proof does not decode: {e}"))
}
/// kind 0 drop last, 1 empty, 2 duplicate last. Ok(None) = the mutation changes nothing.
fn mutate_array(val: &Value, ptr: &str, kind: usize) -> Result<Option<Result<Proof, String>>, String> {
    let mut v = val.clone();
    let arr = v.pointer_mut(ptr).and_then(|x| x.as_array_mut()).ok_or("no such array")?;
    if arr.is_empty() {
        return Ok(None);
    }
    match kind {
        0 => {
            arr.pop();
        }
        1 => arr.clear(),
        _ => {
            let l = arr.last().unwrap().clone();
            arr.push(l);
        }
    }
    Ok(Some(Proof::deserialize(&v).map_err(|e| e.to_string())))
}

fn fs_challenges(run: &Run, proof: &Proof) -> Result<FriChallenges<F, D>, String> {
    guarded(|| {
        run.vch
            .clone()
            .fri_challenges::<C, D>(&proof.commit_phase_merkle_caps, &proof.final_poly, proof.pow_witness, run.degs[0], &run.params.config, None, None)
    })
}
fn floor_ok(run: &Run) -> bool {
    run.rprm.queries * (run.degs[0] + run.rprm.rate_bits) >= 40
}
fn rate_floor_ok(run: &Run) -> bool {
    run.rprm.queries * run.rprm.rate_bits >= 40
}
/// true iff the pointer addresses a proof element that the verifier never reads under these fixed
/// challenges: the proof-of-work witness (bound through the transcript only) or an entry of a
/// commit-phase cap that no query's path ends in.
fn unconsulted(run: &Run, ptr: &str) -> bool {
    if ptr == "/pow_witness" {
        return true;
    }
    let seg: Vec<&str> = ptr.split('/').collect();
    if seg.len() >= 4 && seg[1] == "commit_phase_merkle_caps" {
        if let Ok(entry) = seg[3].parse::<usize>() {
            let lde_bits = run.degs[0] + run.rprm.rate_bits;
            let sh = lde_bits - run.rprm.cap_height;
            return !run.challenges.fri_query_indices.iter().any(|x| (x >> sh) == entry);
        }
    }
    false
}

/// Points of the coset opened by query `q` at reduction step `step`, the queried position within
/// it, and the length of that step's Merkle path (recomputed from the parameters, not the proof).
fn coset_of_query(run: &Run, q: usize, step: usize) -> (Vec<u64>, usize, usize) {
    let mut bits = run.degs[0] + run.rprm.rate_bits;
    let mut idx = run.challenges.fri_query_indices[q];
    let mut shift = shift_g();
    for &a in &run.rprm.arities[..step] {
        idx >>= a;
        bits -= a;
        for _ in 0..a {
            shift = mulm(shift, shift);
        }
    }
    let a = run.rprm.arities[step];
    let coset = idx >> a;
    let pts = (0..1usize << a).map(|j| domain_point(shift, bits, (coset << a) | j)).collect();
    (pts, idx & ((1 << a) - 1), bits - a - run.rprm.cap_height)
}
/// Lagrange basis polynomial L_j over `pts` evaluated at x.
fn ref_lagrange_basis(pts: &[u64], j: usize, x: E) -> Option<E> {
    let mut num = E1;
    let mut den = 1u64;
    for m in 0..pts.len() {
        if m != j {
            num = e_mul(num, e_sub(x, e_base(pts[m])));
            den = mulm(den, subm(pts[j], pts[m]));
        }
    }
    Some(e_mul(num, e_base(invm(den)?)))
}
/// steps (index, arity_bits, path length) of a setup's schedule that D8 can act on
fn d8_steps(d0: usize, rate: usize, cap: usize, arities: &[usize]) -> Vec<(usize, usize, usize)> {
    let mut bits = d0 + rate;
    let mut out = Vec::new();
    for (i, a) in arities.iter().enumerate() {
        bits -= a;
        if *a >= 2 {
            out.push((i, *a, bits - cap));
        }
    }
    out
}

fn wanted_setup(ctx: &Ctx, key: &str) -> bool {
    match &ctx.filter {
        None => true,
        Some(f) => f.split('|').nth(1) == Some(key),
    }
}

// ---------------------------------------------------------------------------------------------
// Part 2: honest runs.  Part 3: deviations.

/// Zero deviations: the proof must be accepted by the implementation and by the reference, and the
/// two transcripts must end in the same state.
fn honest_case(ctx: &Ctx, su: &Setup) {
    let case = format!("hon|{}|", su.key);
    ctx.case("honest/verify_fri_proof", &case, || {
        let run = match run_setup(su, &Mode::Honest) {
            Ok(r) => r,
            Err(e) if e.starts_with("inadmissible") => {
                ctx.count("inadmissible_setups", 1);
                return Ok(String::new());
            }
            Err(e) => return Err(e),
        };
        ctx.state(1);
        if !run.in_sync {
            return Err("prover and verifier transcripts diverge after an honest run".into());
        }
        let (iv, cls) = compare(ctx, "H", &run, &run.rprm, &run.params, &run.open_vals, &run.challenges, &run.caps, &run.proof)?;
        if !iv.accepted() {
            return Err(format!("honest proof not accepted: {}", iv.class()));
        }
        ctx.count("honest_accepted", 1);
        Ok(format!("{cls}:layers={}:batches={}:hiding={}", run.rprm.arities.len(), run.rinsts[0].batches.len(), run.rprm.hiding))
    });
}

/// All single deviations around one setup.
fn deviation_cases(ctx: &Ctx, su: &Setup) {
    if !wanted_setup(ctx, &su.key) {
        return;
    }
    let run = match run_setup(su, &Mode::Honest) {
        Ok(r) => r,
        Err(_) => return, // inadmissible, or reported by the honest case
    };
    let key = &su.key;
    let p = if su.batch { "D7." } else { "" };
    ctx.sample_once(su, &run);

    // ---- D1 (real Fiat–Shamir, transcript consistent) and D1f (fixed challenges)
    for (k, ov) in run.open_vals.iter().enumerate() {
        for (b, vals) in ov.iter().enumerate() {
            for i in 0..vals.len() {
                for c in 0..2 {
                    let case = format!("{p}d1|{key}|{k}.{b}.{i}.{c}");
                    ctx.case("d1/false-opening-accepted", &case, || {
                        ctx.state(1);
                        let r2 = run_setup(su, &Mode::FalseOpening(k, b, i, c))?;
                        let (iv, cls) = compare(ctx, &format!("{p}D1"), &r2, &r2.rprm, &r2.params, &r2.open_vals, &r2.challenges, &r2.caps, &r2.proof)?;
                        // The honest prover's committed quotient differs from the function the verifier
                        // reconstructs by alpha^k/(x - z), which is non-zero at EVERY domain point: certain reject.
                        if iv.accepted() {
                            return Err("a false opening (honest prover, consistent transcript) was accepted".into());
                        }
                        Ok(cls)
                    });
                    let case = format!("{p}d1f|{key}|{k}.{b}.{i}.{c}");
                    ctx.case("d1/false-opening-accepted-under-fixed-challenges", &case, || {
                        ctx.state(1);
                        let mut ov2 = run.open_vals.clone();
                        ov2[k][b][i][c] = addm(ov2[k][b][i][c], 1);
                        let (iv, cls) = compare(ctx, &format!("{p}D1f"), &run, &run.rprm, &run.params, &ov2, &run.challenges, &run.caps, &run.proof)?;
                        if iv.accepted() {
                            return Err("an opening value was changed under fixed challenges and the proof is still accepted".into());
                        }
                        Ok(cls)
                    });
                }
            }
        }
    }
    // ---- statement edits under fixed challenges: every element of every initial cap
    for (o, cap) in run.caps.iter().enumerate() {
        let lde_bits = run.degs[0] + run.rprm.rate_bits;
        for (e, _) in cap.0.iter().enumerate() {
            for j in 0..4 {
                let case = format!("{p}capf|{key}|{o}.{e}.{j}");
                ctx.case("d5/initial-cap-edit-accepted", &case, || {
                    ctx.state(1);
                    let mut caps = run.caps.clone();
                    caps[o].0[e].elements[j] += F::ONE;
                    let (iv, cls) = compare(ctx, &format!("{p}CAPf"), &run, &run.rprm, &run.params, &run.open_vals, &run.challenges, &caps, &run.proof)?;
                    let consulted = run.challenges.fri_query_indices.iter().any(|x| (x >> (lde_bits - run.rprm.cap_height)) == e);
                    if iv.accepted() && consulted {
                        return Err("a consulted entry of an initial Merkle cap was changed and the proof is still accepted".into());
                    }
                    Ok(format!("{cls}:consulted={consulted}"))
                });
            }
        }
    }
    if !su.batch {
        // ---- D2: first layer committed to the function reconstructed from the false opening
        for (b, vals) in run.open_vals[0].iter().enumerate() {
            for i in 0..vals.len() {
                let case = format!("d2|{key}|{b}.{i}");
                ctx.case("d2/false-opening-with-matching-first-layer-accepted", &case, || {
                    ctx.state(1);
                    let r2 = run_setup(su, &Mode::AdvFirstLayer(b, i))?;
                    let (iv, cls) = compare(ctx, "D2", &r2, &r2.rprm, &r2.params, &r2.open_vals, &r2.challenges, &r2.caps, &r2.proof)?;
                    if iv.accepted() && rate_floor_ok(&r2) {
                        return Err("false opening with an adversarially matching first layer was accepted above the verdict floor".into());
                    }
                    Ok(format!("{cls}:floor={}", rate_floor_ok(&r2)))
                });
            }
        }
        // ---- D3: committed function of too high a degree (true openings of that function)
        let n = 1usize << su.degs[0];
        if su.tuple.rate >= 1 && su.insts[0].batches.iter().any(|(_, ps)| ps.contains(&(0, 0))) {
            for (nm, extra) in [("n", n), ("n+1", n + 1), ("2n-1", 2 * n - 1)] {
                let case = format!("d3|{key}|{nm}");
                ctx.case("d3/high-degree-function-accepted", &case, || {
                    ctx.state(1);
                    let r2 = run_setup(su, &Mode::HighDeg(extra))?;
                    let (iv, cls) = compare(ctx, "D3", &r2, &r2.rprm, &r2.params, &r2.open_vals, &r2.challenges, &r2.caps, &r2.proof)?;
                    // degree exactly n leaves a quotient of degree n-1, which IS within the tested bound
                    if iv.accepted() && extra > n && rate_floor_ok(&r2) {
                        return Err(format!("a committed function of degree {nm} was accepted above the verdict floor"));
                    }
                    Ok(format!("{cls}:deg={nm}:floor={}", rate_floor_ok(&r2)))
                });
            }
        }
    }
    // ---- D4: grinding. (a) the real prover emits an arbitrary witness; (b) fixed challenges, boundary responses
    let mut pows = vec![su.tuple.pow, 2, 5];
    pows.dedup();
    for pw in pows {
        for w in 0..8u64 {
            let case = format!("{p}d4|{key}|{pw}.{w}");
            ctx.case("d4/pow-witness", &case, || {
                ctx.state(1);
                let mut su2 = su.clone();
                su2.tuple.pow = pw;
                let r2 = run_setup(&su2, &Mode::PowKnob(w))?;
                if !r2.in_sync {
                    return Err("transcripts diverge with a chosen pow witness".into());
                }
                let (iv, cls) = compare(ctx, &format!("{p}D4"), &r2, &r2.rprm, &r2.params, &r2.open_vals, &r2.challenges, &r2.caps, &r2.proof)?;
                let enough = leading_zero_bits(r2.challenges.fri_pow_response.to_canonical_u64()) >= pw;
                if iv.accepted() != enough {
                    return Err(format!("pow witness {w} at {pw} bits: accepted={} but response has enough zeros={enough}", iv.accepted()));
                }
                Ok(format!("{cls}:enough={enough}"))
            });
        }
    }
    for b in [0u32, 1, 2, 3, 4, 5, 6, 7, 8, 16, 31, 32, 33, 63] {
        let mut resp = vec![0u64, 1, P - 1, 1u64 << (63 - b)];
        if b >= 1 {
            resp.push(1u64 << (64 - b));
            resp.push((1u64 << (64 - b)) - 1);
        }
        for r in resp {
            let case = format!("{p}d4f|{key}|{b}.{r}");
            ctx.case("d4/pow-response-boundary", &case, || {
                ctx.state(1);
                let mut params = run.params.clone();
                params.config.proof_of_work_bits = b;
                let mut rprm = run.rprm.clone();
                rprm.pow_bits = b;
                let chl = FriChallenges::<F, D> {
                    fri_alpha: run.challenges.fri_alpha,
                    fri_betas: run.challenges.fri_betas.clone(),
                    fri_pow_response: F::from_canonical_u64(r),
                    fri_query_indices: run.challenges.fri_query_indices.clone(),
                };
                let (iv, cls) = compare(ctx, &format!("{p}D4f"), &run, &rprm, &params, &run.open_vals, &chl, &run.caps, &run.proof)?;
                let enough = leading_zero_bits(r) >= b;
                if iv.accepted() != enough {
                    return Err(format!("pow response {r:#x} at {b} bits: accepted={}", iv.accepted()));
                }
                Ok(format!("{cls}:enough={enough}"))
            });
        }
    }
    // ---- D5: every numeric leaf of the proof, +1, fixed challenges
    let val = match serde_json::to_value(&run.proof) {
        Ok(v) => v,
        Err(e) => {
            ctx.machinery_error(format!("proof does not serialise: {e}"));
            return;
        }
    };
    let mut leaves = Vec::new();
    leaf_pointers(&val, &mut String::new(), &mut leaves);
    ctx.count("d5_leaves", leaves.len() as u64);
    for ptr in &leaves {
        let case = format!("{p}d5|{key}|{ptr}");
        ctx.case("d5/element-edit-accepted", &case, || {
            ctx.state(1);
            let proof = edit_leaf(&val, ptr)?;
            let (iv, cls) = compare(ctx, &format!("{p}D5"), &run, &run.rprm, &run.params, &run.open_vals, &run.challenges, &run.caps, &proof)?;
            let field = ptr.split('/').filter(|s| s.parse::<usize>().is_err()).collect::<Vec<_>>().join("/");
            if !iv.accepted() {
                return Ok(format!("{cls}:{field}"));
            }
            if !unconsulted(&run, ptr) {
                return Err(format!("element {ptr} was changed under fixed challenges and the proof is still accepted"));
            }
            // bound only through the transcript: recompute the challenges from the edited proof
            let ch2 = fs_challenges(&run, &proof)?;
            let (iv2, cls2) = compare(ctx, &format!("{p}D5fs"), &run, &run.rprm, &run.params, &run.open_vals, &ch2, &run.caps, &proof)?;
            if iv2.accepted() && floor_ok(&run) && su.dense {
                return Err(format!("element {ptr} was changed, challenges recomputed, and the proof is accepted above the verdict floor"));
            }
            Ok(format!("{cls}:{field}:unconsulted:{cls2}"))
        });
    }
    // ---- D8 (deviation bound 2): fold-preserving edit of one opened coset. Position a gets +1 and
    // position b is compensated so that the interpolant's value at beta is unchanged; the queried
    // position is untouched. Fold and final-polynomial checks cannot see it, only the binding of the
    // coset to the commit-phase cap can — also when that step's Merkle path is empty.
    for q in 0..run.rprm.queries {
        for (step, abits, _) in d8_steps(run.degs[0], run.rprm.rate_bits, run.rprm.cap_height, &run.rprm.arities) {
            let arity = 1usize << abits;
            let (pts, within, path_len) = coset_of_query(&run, q, step);
            let others: Vec<usize> = (0..arity).filter(|j| *j != within).collect();
            let mut pairs = Vec::new();
            if ctx.tier.thorough() {
                for &a in &others {
                    for &b in &others {
                        if a != b {
                            pairs.push((a, b));
                        }
                    }
                }
            } else {
                pairs.push((others[0], others[1]));
            }
            for (a, b) in pairs {
                let case = format!("{p}d8|{key}|{q}.{step}.{a}.{b}");
                ctx.case("d8/fold-preserving-edit-accepted", &case, || {
                    ctx.state(1);
                    let beta = fe(run.challenges.fri_betas[step]);
                    let la = ref_lagrange_basis(&pts, a, beta).ok_or("machinery: repeated coset point")?;
                    let lb = ref_lagrange_basis(&pts, b, beta).ok_or("machinery: repeated coset point")?;
                    let lbi = match e_inv(lb) {
                        Some(x) => x,
                        None => return Ok(format!("{p}D8:skipped:L_b(beta)=0")),
                    };
                    let delta_b = e_sub(E0, e_mul(la, lbi)); // -1 * L_a(beta) / L_b(beta)
                    let mut proof = run.proof.clone();
                    let old: Vec<E> = proof.query_round_proofs[q].steps[step].evals.iter().map(|e| fe(*e)).collect();
                    let mut new = old.clone();
                    new[a] = e_add(new[a], E1);
                    new[b] = e_add(new[b], delta_b);
                    if new[a] == old[a] || new[b] == old[b] || ref_lagrange(&pts, &new, beta)? != ref_lagrange(&pts, &old, beta)? {
                        return Err("machinery: the D8 edit is not fold-preserving".into());
                    }
                    proof.query_round_proofs[q].steps[step].evals[a] = ef(new[a]);
                    proof.query_round_proofs[q].steps[step].evals[b] = ef(new[b]);
                    let (iv, cls) = compare(ctx, &format!("{p}D8"), &run, &run.rprm, &run.params, &run.open_vals, &run.challenges, &run.caps, &proof)?;
                    if iv.accepted() {
                        return Err(format!("fold-preserving edit of the coset of query {q} at step {step} (positions {a},{b}; path length {path_len}) accepted"));
                    }
                    ctx.count(&format!("{p}d8_path_len_{}", path_len.min(2)), 1);
                    Ok(format!("{cls}:arity={arity}:path={}", if path_len >= 2 { ">=2".to_string() } else { path_len.to_string() }))
                });
            }
        }
    }
    // ---- D6: structural mutations of every array node, fixed challenges
    let mut arrays = Vec::new();
    array_pointers(&val, &mut String::new(), &mut arrays);
    for ptr in &arrays {
        for kind in 0..3 {
            let case = format!("{p}d6|{key}|{ptr}#{kind}");
            ctx.case("d6/structural-mutation-accepted", &case, || {
                let proof = match mutate_array(&val, ptr, kind)? {
                    None => return Ok(String::new()),
                    Some(Err(_)) => {
                        ctx.count("d6_undecodable", 1);
                        return Ok(format!("{p}D6:undecodable"));
                    }
                    Some(Ok(pr)) => pr,
                };
                ctx.state(1);
                let kn = ["drop-last", "empty", "dup-last"][kind];
                let (iv, cls) = compare(ctx, &format!("{p}D6:{kn}"), &run, &run.rprm, &run.params, &run.open_vals, &run.challenges, &run.caps, &proof)?;
                if !iv.accepted() {
                    return Ok(cls);
                }
                // only a surplus, never-read commit-phase cap may get here (compare() has checked that the
                // reference accepts once the cap count is not enforced); under the real transcript it is
                // absorbed into the challenges and must be rejected
                if !ptr.starts_with("/commit_phase_merkle_caps") {
                    return Err(format!("structural mutation {kn} of {ptr} accepted"));
                }
                let ch2 = fs_challenges(&run, &proof)?;
                let iv2 = impl_verify(&run, &run.params, &run.open_vals, &ch2, &run.caps, &proof);
                ctx.transition(1);
                if iv2.accepted() && floor_ok(&run) && su.dense {
                    return Err(format!("structural mutation {kn} of {ptr} accepted with recomputed challenges above the verdict floor"));
                }
                Ok(format!("{cls}:recomputed={}", iv2.class()))
            });
        }
    }
}

impl Ctx {
    fn sample_once(&self, su: &Setup, run: &Run) {
        self.sample(json!({
            "setup": su.key, "tuple": tuple_name(&su.tuple), "arities": run.rprm.arities,
            "query_indices": run.challenges.fri_query_indices, "pow_witness": run.proof.pow_witness.to_canonical_u64(),
            "final_poly_len": run.proof.final_poly.coeffs.len(),
            "opening_0_0": run.open_vals[0][0].first().map(|e| e.to_vec()),
        }));
    }
}

// ---------------------------------------------------------------------------------------------

fn shapes(thorough: bool) -> Vec<Vec<(usize, bool)>> {
    if !thorough {
        return vec![vec![(2, false)], vec![(1, true), (2, false)], vec![(1, false), (1, true), (1, false)]];
    }
    let one: Vec<(usize, bool)> = (1..=3).flat_map(|n| [(n, false), (n, true)]).collect();
    let mut v: Vec<Vec<(usize, bool)>> = one.iter().map(|x| vec![*x]).collect();
    for a in &one {
        for b in &one {
            v.push(vec![*a, *b]);
        }
    }
    for counts in [[1, 1, 1], [1, 2, 3], [3, 2, 1], [2, 2, 2]] {
        for m in 0..8 {
            v.push((0..3).map(|i| (counts[i], (m >> i) & 1 == 1)).collect());
        }
    }
    v
}
fn deviation_shapes(thorough: bool) -> Vec<Vec<(usize, bool)>> {
    if !thorough {
        return shapes(false);
    }
    vec![
        vec![(1, false)],
        vec![(1, true)],
        vec![(2, false)],
        vec![(3, true)],
        vec![(1, true), (2, false)],
        vec![(2, false), (1, true)],
        vec![(1, false), (1, true), (1, false)],
        vec![(2, true), (1, false), (3, true)],
    ]
}
fn batch_scens(thorough: bool) -> Vec<BScen> {
    let mut v = Vec::new();
    let b = |degs: &[usize], per: &[usize], n_or, open, t, fam| BScen { degs: degs.to_vec(), per: per.to_vec(), n_or, open, t, fam };
    let nt = batch_tuples().len();
    if !thorough {
        v.push(b(&[3, 2, 1], &[1, 2, 1], 1, 1, 0, 4));
        v.push(b(&[3, 2], &[1, 1], 1, 0, 1, 4));
        v.push(b(&[3, 1], &[2, 1], 1, 1, 3, 4));
        v.push(b(&[3, 2, 1], &[1, 1, 1], 2, 0, 2, 5));
        v.push(b(&[4, 3, 1], &[1, 1, 2], 1, 1, 2, 4));
        v.push(b(&[3, 1], &[1, 1], 1, 0, 5, 4));
        return v;
    }
    for degs in [vec![3, 2, 1], vec![3, 2], vec![3, 1], vec![4, 3, 2], vec![4, 3, 1], vec![4, 2], vec![5, 4, 3], vec![2, 1], vec![4, 3, 2, 1]] {
        for per_kind in 0..2 {
            let per: Vec<usize> = (0..degs.len()).map(|k| if per_kind == 0 { 1 } else { 1 + (k + 1) % 2 }).collect();
            for n_or in 1..=2 {
                for open in 0..2 {
                    for t in 0..nt {
                        for fam in [0, 4, 5] {
                            v.push(b(&degs, &per, n_or, open, t, fam));
                        }
                    }
                }
            }
        }
    }
    v
}

pub fn run(ctx: &Ctx) -> i32 {
    let thorough = ctx.tier.thorough();
    if !constants_ok(ctx) {
        return ctx.finish(Finish { level: "model_checking", rule: "machinery", exhaustive: false, assumptions: vec![], extra: json!({}) });
    }
    // ---- part 1
    param_domain(ctx);

    // ---- part 2: honest grid
    let max_d = if thorough { 5 } else { 4 };
    let n_t = if thorough { tuples().len() } else { 9 };
    let mut honest: Vec<Scen> = Vec::new();
    for shape in shapes(thorough) {
        for d in 1..=max_d {
            for open in 0..5 {
                for t in 0..n_t {
                    for fam in 0..6 {
                        honest.push(Scen { shape: shape.clone(), d, open, t, fam });
                    }
                }
            }
        }
    }
    let honest_setups: Vec<Setup> = honest.iter().enumerate().map(|(i, s)| scen_setup(s, i as u64)).collect();
    let bsc = batch_scens(thorough);
    let batch_setups: Vec<Setup> = bsc.iter().enumerate().map(|(i, s)| bscen_setup(s, 1_000_000 + i as u64)).collect();
    par_for(honest_setups.len(), |i| honest_case(ctx, &honest_setups[i]));
    par_for(batch_setups.len(), |i| honest_case(ctx, &batch_setups[i]));

    // ---- part 3: deviations (plain and batch)
    let mut dev: Vec<Setup> = Vec::new();
    let mut idx = 2_000_000u64;
    for shape in deviation_shapes(thorough) {
        for d in 1..=max_d {
            for open in [1usize, 2, 3] {
                for t in 0..n_t {
                    for fam in if thorough { vec![4usize, 5] } else { vec![4usize] } {
                        dev.push(scen_setup(&Scen { shape: shape.clone(), d, open, t, fam }, idx));
                        idx += 1;
                    }
                }
            }
        }
    }
    let batch_dev: Vec<Setup> = if thorough { batch_setups.iter().filter(|s| !s.key.ends_with("f0")).cloned().collect() } else { batch_setups.clone() };
    dev.extend(batch_dev);
    // heavy setups first so that the pool drains evenly
    dev.sort_by_key(|s| std::cmp::Reverse(s.tuple.q * (s.degs[0] + s.tuple.rate + 2)));
    // D8 needs, in every tier, plain AND batch setups with a step of arity >= 4 whose Merkle path is
    // empty (the layer has exactly 2^cap_height leaves), and the "path of length 1" sibling case.
    if !ctx.replaying() {
        for batch in [false, true] {
            for want_len in [0usize, 1] {
                let found = dev.iter().any(|su| {
                    su.batch == batch
                        && run_setup(su, &Mode::Honest)
                            .map(|r| d8_steps(r.degs[0], r.rprm.rate_bits, r.rprm.cap_height, &r.rprm.arities).iter().any(|x| x.2 == want_len))
                            .unwrap_or(false)
                });
                if !found && !(batch && want_len == 1) {
                    ctx.machinery_error(format!("no {} deviation setup has an arity>=4 step with Merkle path length {want_len}", if batch { "batch" } else { "plain" }));
                }
            }
        }
    }
    par_for(dev.len(), |i| deviation_cases(ctx, &dev[i]));

    let variant = crate::variant_name();
    ctx.finish(Finish {
        level: "model_checking",
        rule: "for every explored (statement, challenges, proof): implementation verdict == naive reference verdict; honest proofs accepted; each single deviation not accepted (verdict floor where acceptance has non-zero probability); arity schedules satisfy sum<=degree_bits, cap floor and final_poly_len",
        exhaustive: true,
        assumptions: vec![
            "F = Goldilocks, D = 2, Poseidon hasher; hash primitives hash_or_noop / two_to_one are trusted (C13)".into(),
            "openings points outside the LDE domain; instance/openings/challenge shapes well-formed (statement side is not mutated structurally)".into(),
            "negative expectations beyond reference agreement: D2/D3 only when queries*rate_bits >= 40, transcript-bound elements only when queries*lde_bits >= 40".into(),
            "D8 uses deviation bound 2 (two positions of one coset) because every single-position edit is masked by the fold / final-polynomial check".into(),
            "a surplus commit-phase cap ignored under fixed challenges is classified (shape laxity, C18), not failed; panics of the verifier on malformed shapes are tallied as panic:<where> (C18)".into(),
            format!("build variant {variant}; blinding salts from the seeded seam (set_seed = case index)"),
        ],
        extra: json!({
            "bounds": {
                "tier": ctx.tier.name(),
                "param_domain": "degree_bits 0..=20 x rate_bits 0..=5 x cap_height 0..=8 x queries {1,2,8,28,84} x {Fixed over {1..4}^(<=4), ConstantArityBits(1..=5,0..=6), MinSize(None|1..=5)}",
                "honest_grid": format!("{} shapes x degree_bits 1..={} x 5 opening structures x {} tuples x 6 families + {} batch setups", shapes(thorough).len(), max_d, n_t, batch_setups.len()),
                "deviation_setups": dev.len(),
                "deviations": "D1 D1f CAPf D2 D3 D4 D4f D5(all leaves,+1) D6(all arrays x drop/empty/dup) D8(fold-preserving 2-position coset edit, every query x every step of arity>=4; quick one (a,b), thorough all ordered pairs) D7(batch: D1 D1f CAPf D4 D4f D5 D6 D8)",
            },
            "variant": variant,
        }),
    })
}
