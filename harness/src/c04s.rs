//! STARK half of C04: transcript-model conformance for starky proofs.
//!
//! Model (absorb / DRAW): public inputs -> config (security bits, challenge count, FRI config) ->
//! trace cap -> [DRAW lookup challenges] -> auxiliary cap -> (internal: alphas', simulated
//! evaluations, zeta', constraint values) -> DRAW alphas -> quotient cap -> DRAW zeta -> openings ->
//! DRAW fri_alpha -> (commit cap_i, DRAW beta_i)* -> final polynomial -> pow witness ->
//! DRAW pow response -> DRAW query indices.

use plonky2::field::extension::FieldExtension;
use plonky2::iop::challenger::Challenger;
use starky::config::StarkConfig;
use starky::proof::StarkProofChallenges;

use crate::c04::conform;
use crate::core::*;
use crate::starkm::{self, Cfg, Def, Member, ProveOutcome, Proof};
use crate::tamper::*;
use crate::with_model_stark;

type SF = starkm::F;
const SD: usize = starkm::D;

/// stage 0: lookup challenges (may be empty); 1: alphas; 2: zeta; 3: fri_alpha; 4+i: beta_i;
/// then pow response; then the query index vector.
fn stages(ch: &StarkProofChallenges<SF, SD>) -> Vec<Vec<u64>> {
    use plonky2::field::types::PrimeField64;
    let cu = |x: SF| x.to_canonical_u64();
    let e = |x: &<SF as plonky2::field::extension::Extendable<SD>>::Extension| -> Vec<u64> {
        <_ as FieldExtension<SD>>::to_basefield_array(x).iter().map(|c| cu(*c)).collect()
    };
    let mut out = Vec::new();
    out.push(match &ch.lookup_challenge_set {
        Some(s) => s.challenges.iter().flat_map(|c| [cu(c.beta), cu(c.gamma)]).collect(),
        None => vec![],
    });
    out.push(ch.stark_alphas.iter().map(|x| cu(*x)).collect());
    out.push(e(&ch.stark_zeta));
    out.push(e(&ch.fri_challenges.fri_alpha));
    for b in &ch.fri_challenges.fri_betas {
        out.push(e(b));
    }
    out.push(vec![cu(ch.fri_challenges.fri_pow_response)]);
    out.push(ch.fri_challenges.fri_query_indices.iter().map(|x| *x as u64).collect());
    out
}

fn model_stage(path: &str, n_betas: usize) -> Option<usize> {
    if path.starts_with(".public_inputs") || path.starts_with(".proof.trace_cap") {
        return Some(0);
    }
    if path.starts_with(".proof.auxiliary_polys_cap") {
        return Some(1);
    }
    if path.starts_with(".proof.quotient_polys_cap") {
        return Some(2);
    }
    if path.starts_with(".proof.openings") {
        return Some(3);
    }
    if let Some(rest) = path.strip_prefix(".proof.opening_proof.commit_phase_merkle_caps[") {
        let i: usize = rest.split(']').next().unwrap().parse().unwrap();
        return Some(4 + i);
    }
    if path.starts_with(".proof.opening_proof.final_poly") || path.starts_with(".proof.opening_proof.pow_witness") {
        return Some(4 + n_betas);
    }
    None
}

fn challenges(def: &Def, cfg: &StarkConfig, p: &Proof) -> Result<Vec<Vec<u64>>, String> {
    let r = guarded(|| {
        with_model_stark!(def, S, {
            let mut ch = Challenger::new();
            p.get_challenges(&S::new(def), &mut ch, None, None, false, cfg, None)
        })
    });
    match r {
        Ok(c) => Ok(stages(&c)),
        Err(p) => Err(format!("panic: {p}")),
    }
}

fn subject(ctx: &Ctx, m: &Member, cfg: &Cfg, k: usize) {
    let def = &m.def;
    let sc = cfg.stark_config();
    let (rows, pis) = m.trace(1 << k, 0);
    let name = format!("stark:{}@{}k{}", def.name, cfg.tag(), k);
    let proof = match starkm::prove_def(def, &sc, &rows, &pis, false) {
        ProveOutcome::Proof(p) => *p,
        _ => {
            ctx.machinery_error(format!("{name}: honest STARK proof failed"));
            return;
        }
    };
    match starkm::verify_def(def, &sc, proof.clone()) {
        starkm::Verdict::Accepted => {}
        starkm::Verdict::Rejected(e) | starkm::Verdict::Panicked(e) => {
            ctx.violation("stark:honest-rejected", format!("{name} honest"), format!("honest STARK proof rejected: {e}"));
            return;
        }
    }
    let base = match challenges(def, &sc, &proof) {
        Ok(b) => b,
        Err(e) => {
            ctx.machinery_error(format!("{name}: get_challenges on the honest proof: {e}"));
            return;
        }
    };
    let n_betas = proof.proof.opening_proof.commit_phase_merkle_caps.len();
    let n_st = base.len();
    let mut vec_like: Vec<usize> = vec![2, 3, n_st - 1];
    vec_like.extend(4..4 + n_betas);
    ctx.state(n_st as u64);
    let j = serde_json::to_value(&proof).unwrap();
    let sh = shape(&j);
    // if there are no lookup challenges, stage 0 is empty: a component "before stage 0" then first
    // affects stage 1 — conform() handles empty groups (nothing to compare).
    par_for_chunk(sh.leaves.len(), 32, |li| {
        let path = &sh.leaves[li];
        let ps = path_str(path);
        let first = model_stage(&ps, n_betas);
        let case = format!("{name} component {ps}");
        let site = format!("stark:{}", match first { Some(_) => path_kind(path), None => "non-transcript".into() });
        ctx.case(&site, &case, || {
            let Some((t, changed)) = mutate_leaf(&j, path, LeafMut::Add1) else { return Ok(String::new()) };
            if !changed {
                return Ok(String::new());
            }
            let Ok(p) = serde_json::from_value::<Proof>(t) else { return Ok("not-constructible".into()) };
            let new = challenges(def, &sc, &p)?;
            ctx.transition(1);
            conform(&base, &new, first, &vec_like)?;
            ctx.trace(1);
            Ok(format!("stark:{}:first-stage-{:?}", path_kind(path), first.map(|f| f.min(4))))
        });
    });
    // statement parameters
    let edits: Vec<(&str, Box<dyn Fn(&mut StarkConfig)>)> = vec![
        ("security_bits", Box::new(|c| c.security_bits += 1)),
        ("num_challenges", Box::new(|c| c.num_challenges += 1)),
        ("rate_bits", Box::new(|c| c.fri_config.rate_bits += 1)),
        ("cap_height", Box::new(|c| c.fri_config.cap_height += 1)),
        ("proof_of_work_bits", Box::new(|c| c.fri_config.proof_of_work_bits += 1)),
        ("num_query_rounds", Box::new(|c| c.fri_config.num_query_rounds += 1)),
        ("reduction_strategy", Box::new(|c| {
            use plonky2::fri::reduction_strategies::FriReductionStrategy as S;
            c.fri_config.reduction_strategy = match &c.fri_config.reduction_strategy {
                S::ConstantArityBits(a, b) => S::ConstantArityBits(*a, b + 1),
                S::Fixed(v) => {
                    let mut v = v.clone();
                    v.push(1);
                    S::Fixed(v)
                }
                S::MinSize(o) => S::MinSize(Some(o.unwrap_or(0) + 1)),
            }
        })),
    ];
    for (what, f) in edits {
        let case = format!("{name} component statement.{what}");
        ctx.case(&format!("stark:statement.{what}"), &case, || {
            let mut c2 = sc.clone();
            f(&mut c2);
            let new = match challenges(def, &c2, &proof) {
                Ok(n) => n,
                // a changed rate / cap can make recover_degree_bits or the shape arithmetic fail: then
                // no challenges are produced at all, which is not an acceptance
                Err(_) => return Ok(format!("stark:statement.{what}:no-challenges")),
            };
            ctx.transition(1);
            conform(&base, &new, Some(0), &vec_like)?;
            ctx.trace(1);
            Ok(format!("stark:statement.{what}:first-stage-0"))
        });
    }
}

pub fn run_stark(ctx: &Ctx) {
    let thorough = ctx.tier.thorough();
    let fam = starkm::family();
    let lfam = starkm::lookup_family();
    let pick = |v: &Vec<Member>, name: &str| v.iter().find(|m| m.def.name.starts_with(name)).cloned();
    let mut subjects: Vec<(Member, Cfg, usize)> = Vec::new();
    let base_cfg = |ch: usize, arity: starkm::Arity| Cfg { rate_bits: 2, cap_height: 1, num_challenges: ch, queries: 8, pow_bits: 3, arity };
    // a member with public inputs and no lookups; one with lookups; multi-step FRI schedules
    let mut names: Vec<String> = fam.iter().map(|m| m.def.name.clone()).collect();
    names.extend(lfam.iter().map(|m| m.def.name.clone()));
    ctx.note(format!("stark families available: {}", names.len()));
    let plain: Vec<Member> = fam.iter().filter(|m| m.def.pis > 0 && m.def.degree >= 1 && m.def.degree <= 3).take(if thorough { 4 } else { 2 }).cloned().collect();
    for (i, m) in plain.iter().enumerate() {
        subjects.push((m.clone(), base_cfg(1 + i % 2, starkm::Arity::Ones(2)), 4));
    }
    let looks: Vec<Member> = lfam.iter().filter(|m| m.def.degree <= 3).take(if thorough { 3 } else { 1 }).cloned().collect();
    for m in looks {
        subjects.push((m, base_cfg(2, starkm::Arity::Constant(1, 1)), 4));
    }
    // no grinding
    if let Some(m) = plain.first() {
        let mut c = base_cfg(2, starkm::Arity::Ones(1));
        c.pow_bits = 0;
        c.queries = 10;
        subjects.push((m.clone(), c, 4));
    }
    let _ = pick;
    for (m, cfg, k) in &subjects {
        // rate must admit the constraint degree
        let mut cfg = cfg.clone();
        while (1usize << cfg.rate_bits) + 1 < m.def.degree.max(1) {
            cfg.rate_bits += 1;
        }
        subject(ctx, m, &cfg, *k);
    }
    ctx.count("stark_subjects", subjects.len() as u64);
}
