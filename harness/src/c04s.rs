//! STARK half of C04 (transcript model conformance for starky proofs).
use crate::core::*;

pub fn run_stark(ctx: &Ctx) {
    ctx.note("STARK transcript half not built yet in this snapshot");
}
